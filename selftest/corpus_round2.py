"""Mutation corpus for the rules added after the second round of independent seeded changes and refactoring patches."""
OPS = "optimum/quanto/tensor/qbytes_ops.py"
QB = "optimum/quanto/tensor/qbytes.py"
QBOPS = "optimum/quanto/tensor/qbits/qbits_ops.py"
QMOD = "optimum/quanto/nn/qmodule.py"
MM = "optimum/quanto/library/qbytes_mm.py"
FUNC = "optimum/quanto/tensor/qtensor_func.py"
AOPT = "optimum/quanto/tensor/optimizers/affine_optimizer.py"
SOPT = "optimum/quanto/tensor/optimizers/symmetric_optimizer.py"
MAXOPT = "optimum/quanto/tensor/optimizers/max_optimizer.py"
SYM = "optimum/quanto/tensor/quantizers/symmetric.py"
GROUP = "optimum/quanto/tensor/qbits/group.py"
QW = "optimum/quanto/tensor/qweight.py"


def M(id, prop, kind, edits, rule=None):
    return {"id": id, "prop": prop, "kind": kind, "edits": edits, "rule": rule}


LOAD_ASSIGN = """            assign_to_params_buffers = local_metadata.get("assign_to_params_buffers", False)
            if assign_to_params_buffers:
                self.weight = torch.nn.Parameter(deserialized_weight, requires_grad=False)
            else:
"""

MUTANTS = [
    # ---------------- C10.R9 assign mode
    M("c10-assign-moves-to-placeholder", "C10", "break", [(QMOD, "            if assign_to_params_buffers:\n                self.weight = torch.nn.Parameter(deserialized_weight, requires_grad=False)", "            if assign_to_params_buffers:\n                self.weight = torch.nn.Parameter(deserialized_weight.to(self.weight.device), requires_grad=False)")], "C10.R9"),
    M("c10-assign-inverted", "C10", "break", [(QMOD, "            if assign_to_params_buffers:\n                self.weight = torch.nn.Parameter(deserialized_weight, requires_grad=False)", "            if not assign_to_params_buffers:\n                self.weight = torch.nn.Parameter(deserialized_weight, requires_grad=False)")], "C10.R9"),
    M("c10-refactor-assign-ifexp", "C10", "refactor", [(QMOD, "            assign_to_params_buffers = local_metadata.get(\"assign_to_params_buffers\", False)\n            if assign_to_params_buffers:", "            if local_metadata.get(\"assign_to_params_buffers\", False):")]),
    # ---------------- C13 in-place variants registered on scale-only handlers
    M("c13-div-inplace-registered", "C13", "break", [(OPS, "@register_qbytestensor_op([torch.ops.aten.div])", "@register_qbytestensor_op([torch.ops.aten.div, torch.ops.aten.div_])"),
                                                    # since f7300c7 an activation owns its scale: the in-place division reaches a module buffer only with the copy removed
                                                    ("optimum/quanto/tensor/qactivation.py", "SymmetricQuantizer.apply(t, qtype, None, scale.clone())", "SymmetricQuantizer.apply(t, qtype, None, scale)")], "C13.R6"),
    # (mul computes the new scale with `*`, so registering mul_ mutates nothing: not a C13 break, but the operand is not updated: C05)
    M("c05-mul-inplace-registered", "C05", "break", [(OPS, "@register_qbytestensor_op([torch.ops.aten.mul])", "@register_qbytestensor_op([torch.ops.aten.mul, torch.ops.aten.mul_])")], "C05.R16"),
    M("c05-div-inplace-registered", "C05", "break", [(OPS, "@register_qbytestensor_op([torch.ops.aten.div])", "@register_qbytestensor_op([torch.ops.aten.div, torch.ops.aten.div_])")], "C05.R16"),
    M("c05-neg-inplace-registered", "C05", "break", [(OPS, "@register_qbytestensor_op([torch.ops.aten.neg])", "@register_qbytestensor_op([torch.ops.aten.neg, torch.ops.aten.neg_])")], "C05.R16"),
    # ---------------- C07 single rounding / accumulation
    M("c07-act-scale-after-kernel", "C07", "break", [(FUNC, "torch.ops.quanto.qbytes_mm(input._data, other._data, output_scales).to(input._scale.dtype)", "torch.ops.quanto.qbytes_mm(input._data, other._data, other._scale) * input._scale")], None),
    M("c07-weight-scale-after-kernel", "C07", "break", [(FUNC, "torch.ops.quanto.qbytes_mm(input._data, other._data, output_scales).to(input._scale.dtype)", "torch.ops.quanto.qbytes_mm(input._data, other._data, input._scale) * other._scale.t()")], None),
    M("c07-itemsize-route", "C07", "break", [(MM, "    if activations.dtype == torch.int8 or weights.dtype == torch.int8:", "    if activations.dtype.itemsize > 1:\n        mm_dtype = activations.dtype\n    elif activations.dtype == torch.int8 or weights.dtype == torch.int8:")], "C07.R3"),
    M("c05-itemsize-route", "C05", "break", [(MM, "    if activations.dtype == torch.int8 or weights.dtype == torch.int8:", "    if activations.dtype.itemsize > 1:\n        mm_dtype = activations.dtype\n    elif activations.dtype == torch.int8 or weights.dtype == torch.int8:")], "C05.R15"),
    M("c07-refactor-itemsize-guard", "C07", "refactor", [(MM, "    if activations.dtype == torch.int8 or weights.dtype == torch.int8:", "    if activations.dtype.itemsize == 1 and not activations.dtype.is_floating_point or weights.dtype == torch.int8:")]),
    M("c07-refactor-mm-dtype-ifexp", "C07", "refactor", [(MM, "    mm_dtype = output_scales.dtype\n    if activations.dtype == torch.int8 or weights.dtype == torch.int8:\n        # If one of the terms is an int the matmul might overflow\n        mm_dtype = torch.float32\n", "    mm_dtype = torch.float32 if torch.int8 in (activations.dtype, weights.dtype) else output_scales.dtype\n")]),
    # ---------------- C08.R7 weight source
    M("c08-qweight-cached", "C08", "break", [(QMOD, "        # Quantize dynamically the weights per-axis\n        return quantize_weight(", "        if getattr(self, \"_qweight_cache\", None) is not None:\n            return self._qweight_cache\n        # Quantize dynamically the weights per-axis\n        return quantize_weight(")], "C08.R7"),
    M("c08-qweight-other-axis", "C08", "break", [(QMOD, "            self.weight,\n            qtype=self.weight_qtype,\n            axis=0,", "            self.weight,\n            qtype=self.weight_qtype,\n            axis=-1,")], "C08.R7"),
    # ---------------- C06 copy_ / unflatten
    M("c06-copy-rebinds-scale", "C06", "break", [(OPS, "    dest._scale = op(dest._scale, src._scale, non_blocking)", "    dest._scale = src._scale.clone()")], "C06.R8"),
    M("c06-unflatten-normalises-axis", "C06", "break", [(QB, "        stride = ast.literal_eval(meta[\"stride\"])\n        return QBytesTensor(qtype, axis, size, stride, data, scale)", "        stride = ast.literal_eval(meta[\"stride\"])\n        if axis is not None and axis < 0:\n            axis += len(size)\n        return QBytesTensor(qtype, axis, size, stride, data, scale)")], "C06.R5"),
    M("c06-refactor-copy-assert-layout", "C06", "refactor", [(OPS, "    dest._scale = op(dest._scale, src._scale, non_blocking)", "    dest._scale = op(dest._scale, src._scale, non_blocking)\n    assert dest._scale.shape == src._scale.shape")]),
    # ---------------- C03 wrapper passthrough / reduction dims
    M("c03-call-clamps-zeropoint", "C03", "break", [(AOPT, "        assert zeropoint.dtype == torch.int8\n", "        assert zeropoint.dtype == torch.int8\n        zeropoint = torch.clamp(zeropoint, min=0, max=2**bits - 1)\n")], "C03.R5"),
    M("c03-call-floors-scale", "C03", "break", [(AOPT, "        assert zeropoint.dtype == torch.int8\n", "        assert zeropoint.dtype == torch.int8\n        scale = torch.clamp(scale, min=1e-6)\n")], "C03.R5"),
    M("c03-maxopt-single-dim", "C03", "break", [(MAXOPT, "        dim = list(range(1, base.ndim)) if (axis == 0) else list(range(0, base.ndim - 1))", "        dim = -1 if (axis == 0) else 0")], "C03.R1"),
    # ---------------- C09.R6 lifecycle handlers keep the tensor
    M("c09-qbits-detach-payload-geometry", "C09", "break", [(QBOPS, "    return t.__class__(t._qtype, t._axis, t._group_size, t.size(), t.stride(), data, scale, zeropoint)", "    return t.__class__(t._qtype, t._axis, t._group_size, data.size(), data.stride(), data, scale, zeropoint)")], "C09.R6"),
    M("c09-qbits-detach-drops-group", "C09", "break", [(QBOPS, "    return t.__class__(t._qtype, t._axis, t._group_size, t.size(), t.stride(), data, scale, zeropoint)", "    return t.__class__(t._qtype, t._axis, None, t.size(), t.stride(), data, scale, zeropoint)")], "C09.R6"),
    # ---------------- C16.R5 / R6
    M("c16-absmax-no-abs", "C16", "break", [("optimum/quanto/tensor/optimizers/absmax_optimizer.py", "        base = torch.abs(base)\n", "")], "C16.R5"),
    M("c16-zp-product-first", "C16", "break", [(MAXOPT, "        zeropoint = torch.round(-rmin / scale).to(torch.int8)", "        zeropoint = torch.round(-rmin * (qmax - qmin) / (rmax - rmin)).to(torch.int8)")], "C16.R6"),
    M("c16-repaired-width", "C16", "refactor", [(MAXOPT, "        scale = (rmax - rmin) / (qmax - qmin)", "        scale = rmax / (qmax - qmin) - rmin / (qmax - qmin)")]),
    # ---------------- rules from the third round of seeded changes
    M("c03-group-early-exit-rank3", "C03", "break", [(GROUP, "        return base.reshape([-1, group_size])", "        if base.shape[-1] == group_size:\n            return base\n        return base.reshape([-1, group_size])")], "C03.R5"),
    M("c02-group-early-exit-rank3", "C02", "break", [(GROUP, "        return base.reshape([-1, group_size])", "        if base.shape[-1] == group_size:\n            return base\n        return base.reshape([-1, group_size])")], "C02.R4"),
    M("c05-pad-registered-as-move", "C05", "break", [(OPS, "        torch.ops.aten.expand,\n", "        torch.ops.aten.expand,\n        torch.ops.aten.constant_pad_nd,\n")], "C05.R4"),
    M("c06-base-ctor-rewrites-axis", "C06", "break", [("optimum/quanto/tensor/qtensor.py", "        self._qtype = qtype\n        self._axis = axis", "        self._qtype = qtype\n        if axis is not None and self.shape[axis] == 1:\n            axis = None\n        self._axis = axis")], "C06.R3"),
    M("c08-exact-type-lookup", "C08", "break", [(QMOD, "    for cls in _QMODULE_TABLE:\n        if isinstance(module, cls):\n            qcls, qparams = _QMODULE_TABLE[cls]", "    for cls in _QMODULE_TABLE:\n        if type(module) is cls:\n            qcls, qparams = _QMODULE_TABLE[cls]")], None),
    M("c02-zp-half-trunc", "C02", "break", [(MAXOPT, "        zeropoint = torch.round(-rmin / scale).to(torch.int8)", "        zeropoint = (-rmin / scale + 0.5).to(torch.int8)")], "C02.R5"),
    M("c07-transpose-stale-axis", "C07", "break", [(OPS, "        out_axis = 0 if out_axis == -1 else -1", "        out_axis = 0 if out_axis == input.ndim - 1 else -1")], "C07.R7"),
    M("c07-mm-via-kernel-linear-convention", "C07", "break", [(OPS, "            out_data = torch._int_mm(input._data.contiguous(), other._data.contiguous())\n", "            return torch.ops.quanto.qbytes_mm(input._data, other._data.t(), input._scale * other._scale.t())\n            out_data = torch._int_mm(input._data.contiguous(), other._data.contiguous())\n")], None),
    # ---------------- view() on operands (F27 / F28 reintroduced)
    M("c07-intmm-view-again", "C07", "break", [(MM, "out_data = torch._int_mm(activations.reshape(-1, in_features), weights)", "out_data = torch._int_mm(activations.view(-1, in_features), weights)")], "C07.R9"),
    M("c11-backward-view-again", "C11", "break", [(FUNC, "input.reshape(-1, in_features))", "input.view(-1, in_features))")], "C11.R8"),
    M("c02-group-view", "C02", "break", [(GROUP, "        return base.reshape([-1, group_size])", "        return base.view(-1, group_size)")], "C02.R4"),
    M("c05-kernel-scale-transposed-again", "C05", "break", [(MM, "torch.matmul(activations, weights.t()) * output_scales.flatten()", "torch.matmul(activations, weights.t()) * output_scales.t()")], "C05.R14"),
    # ---------------- idiom refactors that the second batch of independent patches exposed
    M("c14-refactor-group-demorgan", "C14", "refactor", [(GROUP, "    if group_size > axis_numel or axis_numel % group_size != 0:", "    if not (group_size <= axis_numel and axis_numel % group_size == 0):")]),
    M("c14-group-guard-weakened", "C14", "break", [(GROUP, "    if group_size > axis_numel or axis_numel % group_size != 0:", "    if group_size > axis_numel and axis_numel % group_size != 0:")], "C14.R1"),
    M("c14-refactor-axis-any", "C14", "refactor", [(AOPT, "        if axis not in [0, -1]:", "        if not any(axis == a for a in (0, -1)):")]),
    M("c14-axis-any-wrong", "C14", "break", [(AOPT, "        if axis not in [0, -1]:", "        if not any(axis == a for a in (0, -1, 1)):")], "C14.R1"),
    M("c01-refactor-walrus-bits", "C01", "refactor", [(QW, "    if qtype.bits == 8:", "    if (bits := qtype.bits) == 8:")]),
    M("c05-refactor-cat-guards", "C05", "refactor", [(OPS, "            isinstance(t1, QBytesTensor)\n            and isinstance(t2, QBytesTensor)\n            and t1.axis is None\n            and t2.axis is None\n", "            all(isinstance(t, QBytesTensor) for t in (t1, t2))\n            and all(t.axis is None for t in (t1, t2))\n")]),
    M("c05-cat-guards-any", "C05", "break", [(OPS, "            isinstance(t1, QBytesTensor)\n            and isinstance(t2, QBytesTensor)\n            and t1.axis is None\n            and t2.axis is None\n", "            any(isinstance(t, QBytesTensor) for t in (t1, t2))\n            and all(t.axis is None for t in (t1, t2))\n")], None),
    M("c05-refactor-transpose-dict", "C05", "refactor", [(OPS, "        out_axis = 0 if out_axis == -1 else -1", "        out_axis = {-1: 0}.get(out_axis, -1)")]),
    M("c05-transpose-dict-wrong", "C05", "break", [(OPS, "        out_axis = 0 if out_axis == -1 else -1", "        out_axis = {-1: 0}.get(out_axis, 0)")], "C05.R4"),
    M("c05-refactor-transpose-if", "C05", "refactor", [(OPS, "        out_axis = 0 if out_axis == -1 else -1", "        if out_axis == -1:\n            out_axis = 0\n        else:\n            out_axis = -1")]),
]
