"""Mutation corpus for C10 and C14."""
QB = "optimum/quanto/tensor/qbytes.py"
QT = "optimum/quanto/tensor/qtensor.py"
QBITS = "optimum/quanto/tensor/qbits/qbits.py"
PACKED = "optimum/quanto/tensor/qbits/packed.py"
QMOD = "optimum/quanto/nn/qmodule.py"
QUANT = "optimum/quanto/quantize.py"
SER = "optimum/quanto/serialization.py"
QW = "optimum/quanto/tensor/qweight.py"
SYM = "optimum/quanto/tensor/quantizers/symmetric.py"
AFF = "optimum/quanto/tensor/quantizers/affine.py"
GROUP = "optimum/quanto/tensor/qbits/group.py"
QACT = "optimum/quanto/tensor/qactivation.py"
SOPT = "optimum/quanto/tensor/optimizers/symmetric_optimizer.py"
AOPT = "optimum/quanto/tensor/optimizers/affine_optimizer.py"


def M(id, prop, kind, edits, rule=None):
    return {"id": id, "prop": prop, "kind": kind, "edits": edits, "rule": rule}


MUTANTS = [
    # ---------------- C10
    M("c10-load-stale-group-size", "C10", "break", [(QMOD, "        self.weight_group_size = self._select_weight_group_size()\n        activation_qtype = state_dict.pop", "        activation_qtype = state_dict.pop")], "C10.R6"),
    M("c10-requantize-no-activations", "C10", "break", [(QUANT, "    quantize(model, modules=modules, activations=activations)", "    quantize(model, modules=modules)")], "C10.R7"),
    M("c10-save-swapped-scales", "C10", "break", [(QMOD, 'destination[prefix + "output_scale"] = self.output_scale if keep_vars else self.output_scale.detach()', 'destination[prefix + "output_scale"] = self.input_scale if keep_vars else self.input_scale.detach()')], "C10.R2"),
    M("c10-save-qtype-object", "C10", "break", [(QMOD, 'destination[prefix + "weight_qtype"] = "none" if self.weight_qtype is None else self.weight_qtype.name', 'destination[prefix + "weight_qtype"] = "none" if self.weight_qtype is None else self.weight_qtype')], "C10.R3"),
    M("c10-save-activation-str", "C10", "break", [(QMOD, '            "none" if self.activation_qtype is None else self.activation_qtype.name\n', '            "none" if self.activation_qtype is None else str(self.activation_qtype)\n')], "C10.R4"),
    M("c10-save-no-output-scale", "C10", "break", [(QMOD, '        destination[prefix + "output_scale"] = self.output_scale if keep_vars else self.output_scale.detach()\n', "")], "C10.R2"),
    M("c10-save-frozen-plain", "C10", "break", [(QMOD, "        if self.weight_qtype is None or not self.frozen:\n            # Save standard weight Tensor", "        if self.weight_qtype is None or not self.frozen or self.weight_qtype.bits == 8:\n            # Save standard weight Tensor")], "C10.R2"),
    M("c10-load-activation-not-popped", "C10", "break", [(QMOD, '        activation_qtype = state_dict.pop(prefix + "activation_qtype")', '        activation_qtype = state_dict.get(prefix + "activation_qtype")')], "C10.R2"),
    M("c10-load-wrong-class", "C10", "break", [(QMOD, "            if self.weight_qtype.bits == 8:\n                deserialized_weight = QBytesTensor.load_from_state_dict", "            if self.weight_qtype.bits >= 4:\n                deserialized_weight = QBytesTensor.load_from_state_dict")], "C10.R2"),
    M("c10-load-no-device-move", "C10", "break", [(QMOD, "                    # Reloading frozen weights into unfrozen module: move to the correct device and force assignment\n                    self.weight = torch.nn.Parameter(deserialized_weight.to(self.weight.device), requires_grad=False)", "                    # Reloading frozen weights into unfrozen module: move to the correct device and force assignment\n                    self.weight = torch.nn.Parameter(deserialized_weight, requires_grad=False)")], "C10.R9"),
    M("c10-qbytes-loader-misses-scale", "C10", "break", [(QB, '        for name in ["_data", "_scale"]:\n            inner_tensors_dict[name] = state_dict.pop(prefix + name)', '        for name in ["_data"]:\n            inner_tensors_dict[name] = state_dict.pop(prefix + name)')], "C10.R1"),
    M("c10-qbits-loader-prefix", "C10", "break", [(QBITS, 'PackedTensor.load_from_state_dict(state_dict, prefix + "_data.")', 'PackedTensor.load_from_state_dict(state_dict, prefix + "_data")')], "C10.R1"),
    M("c10-flatten-stride-tuple-vs-assert", "C10", "break", [(QBITS, "        assert len(meta) == 5\n        data, scale, zeropoint = inner_tensors", "        assert len(meta) == 4\n        data, scale, zeropoint = inner_tensors")], "C10.R1"),
    M("c10-packed-bits-not-str", "C10", "break", [(PACKED, 'meta = {"bits": str(self._bits),', 'meta = {"bits": self._bits,')], None),
    M("c10-unflatten-axis-raw", "C10", "break", [(QB, '        axis = ast.literal_eval(meta["axis"])', '        axis = meta["axis"]')], "C10.R4"),
    M("c10-qtensor-save-no-dot", "C10", "break", [(QT, 'serialize_tensor_subclass(inner_tensor, destination, prefix + name + ".", keep_vars)', "serialize_tensor_subclass(inner_tensor, destination, prefix + name, keep_vars)")], "C10.R1"),
    M("c10-qtensor-save-isinstance", "C10", "break", [(QT, "                if type(inner_tensor) == torch.Tensor:", "                if isinstance(inner_tensor, torch.Tensor):")], None),
    M("c10-safe-save-isinstance", "C10", "break", [(SER, "        if type(value) == torch.Tensor:", "        if not isinstance(value, str):")], "C10.R5"),
    M("c10-safe-load-no-metadata", "C10", "break", [(SER, "        state_dict = f.metadata()", "        state_dict = {}")], "C10.R5"),
    M("c10-requantize-order", "C10", "break", [(QUANT, '    model.to_empty(device=torch_device("cpu"))\n    model.load_state_dict(state_dict)', '    model.load_state_dict(state_dict)\n    model.to_empty(device=torch_device("cpu"))')], "C10.R8"),
    M("c10-requantize-no-back", "C10", "break", [(QUANT, "    # move the model back to the original device\n    model.to(device)\n", "")], "C10.R8"),
    M("c10-refactor-save-locals", "C10", "refactor", [(QMOD, '        destination[prefix + "input_scale"] = self.input_scale if keep_vars else self.input_scale.detach()', '        input_scale = self.input_scale if keep_vars else self.input_scale.detach()\n        destination[prefix + "input_scale"] = input_scale')]),
    M("c10-refactor-load-names", "C10", "refactor", [(QMOD, '        weight_qtype = state_dict.pop(prefix + "weight_qtype")\n        self.weight_qtype = None if weight_qtype == "none" else qtypes[weight_qtype]', '        wq = state_dict.pop(prefix + "weight_qtype")\n        self.weight_qtype = None if wq == "none" else qtypes[wq]')]),
    # ---------------- C14
    M("c14-qw-axis-guard", "C14", "break", [(QW, '    if axis not in (0, -1):\n        raise ValueError("axis parameter must be 0 (first axis) or -1 (last axis)")\n', "")], "C14.R1"),
    M("c14-qw-group-8bit", "C14", "break", [(QW, '        if group_size is not None:\n            raise ValueError("group_size cannot be specified for 8-bit qtypes.")\n', "")], "C14.R1"),
    M("c14-qw-optimizer-family", "C14", "break", [(QW, '        else:\n            if not isinstance(optimizer, SymmetricOptimizer):\n                raise ValueError("A SymmetricOptimizer is expected")\n', "")], "C14.R1"),
    M("c14-qw-typeerror", "C14", "break", [(QW, 'raise ValueError("An AffineOptimizer is expected")', 'raise TypeError("An AffineOptimizer is expected")')], "C14.R2"),
    M("c14-qw-size1-dropped", "C14", "break", [(QW, "        if axis is not None and t.shape[axis] == 1:\n            # Quantizing along an axis of dimension 1 means quantizing per-tensor\n            axis = None\n", "")], None),
    M("c14-affine-qtype-guard", "C14", "break", [(AFF, '        if qtype not in (qint2, qint4):\n            raise ValueError("QBitsTensor can only be of qint2 or qint4 qtype")\n', "")], "C14.R1"),
    M("c14-group-divisor", "C14", "break", [(GROUP, "    if group_size > axis_numel or axis_numel % group_size != 0:", "    if group_size > axis_numel:")], "C14.R1"),
    M("c14-group-assert", "C14", "break", [(GROUP, '    if axis not in (0, -1):\n        raise ValueError("Axis must be 0 or -1 for group-wise quantization")', "    assert axis in (0, -1)")], None),
    M("c14-qact-scalar", "C14", "break", [(QACT, "    if scale.numel() != 1:\n        raise ValueError(\"Parameter scale must be a scalar because activations can only be quantized per-tensor\")\n", "")], "C14.R1"),
    M("c14-sym-extent-numel-only", "C14", "break", [(SYM, "            if scale.shape[axis] != base.shape[axis] or scale.numel() != base.shape[axis]:", "            if scale.numel() != base.shape[axis]:")], "C14.R1"),
    M("c14-sym-1d", "C14", "break", [(SYM, '            if base.ndim == 1:\n                raise ValueError("1D Tensors cannot be quantized per-axis")\n', "")], "C14.R1"),
    M("c14-sym-pertensor-scale", "C14", "break", [(SYM, "            if scale.ndim > 0:", "            if scale.ndim > 1:")], "C14.R1"),
    M("c14-sym-opt-axis", "C14", "break", [(SOPT, "        if axis not in [None, 0, -1]:", "        if axis not in [None, 0, -1, 1]:")], "C14.R1"),
    M("c14-group-size-no-final-check", "C14", "break", [(QMOD, "                if in_features % group_size == 0:\n                    return group_size\n        return None", "                return group_size\n        return None")], "C14.R3"),
    M("c14-group-size-out-features", "C14", "break", [(QMOD, "            in_features = self.weight.numel() // out_features", "            in_features = self.weight.shape[-1]")], "C14.R3"),
    M("c14-activations-by-name", "C14", "break", [(QMOD, "        if activations is not None and not isinstance(activations, qtype):\n            activations = qtypes[activations]\n", "")], "C14.R4"),
    M("c14-refactor-qw-guard-form", "C14", "refactor", [(QW, "    if axis not in (0, -1):\n        raise ValueError(\"axis parameter must be 0 (first axis) or -1 (last axis)\")", "    if not (axis in (0, -1)):\n        raise ValueError(\"axis parameter must be 0 (first axis) or -1 (last axis)\")")]),
    M("c14-refactor-sym-elif", "C14", "refactor", [(SYM, "        if axis is None:\n            if scale.ndim > 0:\n                raise ValueError(\"Scale must be a scalar when quantizing per-tensor\")\n        else:", "        if axis is None and scale.ndim > 0:\n            raise ValueError(\"Scale must be a scalar when quantizing per-tensor\")\n        if axis is not None:")]),
]
