"""Mutation corpus for C01, C02, C03, C04, C15, C16."""
SYM = "optimum/quanto/tensor/quantizers/symmetric.py"
AFF = "optimum/quanto/tensor/quantizers/affine.py"
CORE = "optimum/quanto/tensor/core.py"
QB = "optimum/quanto/tensor/qbytes.py"
QBITS = "optimum/quanto/tensor/qbits/qbits.py"
GROUP = "optimum/quanto/tensor/qbits/group.py"
PACKED = "optimum/quanto/tensor/qbits/packed.py"
PYUNPACK = "optimum/quanto/library/python/unpack.py"
CPP = "optimum/quanto/library/ext/cpp/unpack.cpp"
CUDA = "optimum/quanto/library/ext/cuda/unpack.cu"
MPS = "optimum/quanto/library/ext/mps/unpack.mm"
OPS = "optimum/quanto/library/ops.py"
CPPINIT = "optimum/quanto/library/ext/cpp/__init__.py"
ABSMAX = "optimum/quanto/tensor/optimizers/absmax_optimizer.py"
MAXOPT = "optimum/quanto/tensor/optimizers/max_optimizer.py"
AFFOPT = "optimum/quanto/tensor/optimizers/affine_optimizer.py"
SYMOPT = "optimum/quanto/tensor/optimizers/symmetric_optimizer.py"
CAL = "optimum/quanto/calibrate.py"
QW = "optimum/quanto/tensor/qweight.py"
QACT = "optimum/quanto/tensor/qactivation.py"
AWQP = "optimum/quanto/tensor/qbits/awq/packed.py"
AWQQ = "optimum/quanto/tensor/qbits/awq/qbits.py"
QBOPS = "optimum/quanto/tensor/qbits/qbits_ops.py"


def M(id, prop, kind, edits, rule=None):
    return {"id": id, "prop": prop, "kind": kind, "edits": edits, "rule": rule}


DIV = "        data = torch.nan_to_num(base / scale, nan=0.0)\n"
MUTANTS = [
    # ---------------- C01
    M("c01-floor", "C01", "break", [(SYM, "data = torch.round(data)", "data = torch.floor(data)")], "C01.R1"),
    M("c01-clamp-off-by-one", "C01", "break", [(SYM, "min=info.min, max=info.max", "min=info.min + 1, max=info.max")], "C01.R1"),
    M("c01-no-clamp", "C01", "break", [(SYM, "torch.clamp(data, min=info.min, max=info.max).to(qtype.dtype)", "data.to(qtype.dtype)")], "C01.R1"),
    M("c01-cast-before-clamp", "C01", "break", [(SYM, "torch.clamp(data, min=info.min, max=info.max).to(qtype.dtype)", "torch.clamp(data.to(qtype.dtype), min=info.min, max=info.max)")], "C01.R1"),
    M("c01-round-always", "C01", "break", [(SYM, "        if not qtype.is_floating_point:\n            data = torch.round(data)", "        data = torch.round(data)")], "C01.R1"),
    M("c01-round-float-only", "C01", "break", [(SYM, "        if not qtype.is_floating_point:\n            data = torch.round(data)", "        if qtype.is_floating_point:\n            data = torch.round(data)")], "C01.R1"),
    M("c01-one-sided-clamp", "C01", "break", [(SYM, "min=info.min, max=info.max", "max=info.max")], "C01.R1"),
    M("c01-iinfo-int8", "C01", "break", [(SYM, "info = dtype_info(qtype.dtype)", "info = torch.iinfo(torch.int8)")], "C01.R1"),
    M("c01-symmetric-clamp", "C01", "break", [(SYM, "min=info.min, max=info.max", "min=-info.max, max=info.max")], "C01.R1"),
    M("c01-scale-threshold", "C01", "break", [(SYM, "data = torch.nan_to_num(base / scale, nan=0.0)", "data = torch.where(scale > 1e-8, base / scale, torch.zeros_like(base))")], "C01.R1"),
    M("c01-inverted-div", "C01", "break", [(SYM, "torch.nan_to_num(base / scale, nan=0.0)", "torch.nan_to_num(scale / base, nan=0.0)")], "C01.R1"),
    M("c01-offset", "C01", "break", [(SYM, "torch.nan_to_num(base / scale, nan=0.0)", "torch.nan_to_num(base / scale, nan=0.0) + 0.5")], "C01.R1"),
    M("c01-stored-scale-abs", "C01", "break", [(SYM, "return QBytesTensor(qtype, axis, size, stride, data, scale)", "return QBytesTensor(qtype, axis, size, stride, data, scale.abs() + 1e-12)")], "C01.R2"),
    M("c01-dtype-info-swapped", "C01", "break", [(CORE, "info = torch.finfo if dtype.is_floating_point else torch.iinfo", "info = torch.iinfo if dtype.is_floating_point else torch.finfo")], "C01.R3"),
    M("c01-dequant-no-upcast-int", "C01", "break", [(QB, "            dqt = t._scale * t._data\n", "            dqt = t._scale * t._data.to(torch.int32) / 1\n")], "C01.R4"),
    M("c01-dequant-float-noscale", "C01", "break", [(QB, "dqt = t._scale * t._data.to(t._scale.dtype)", "dqt = t._data.to(t._scale.dtype)")], "C01.R4"),
    M("c01-activation-axis0", "C01", "break", [(QACT, "return SymmetricQuantizer.apply(t, qtype, None, scale.clone())", "return SymmetricQuantizer.apply(t, qtype, 0, scale.clone())")], "C01.R5"),
    M("c01-weight-scale-other-axis", "C01", "break", [(QW, "        scale = optimizer(t, qtype.bits, axis)\n        return SymmetricQuantizer.apply(t, qtype, axis, scale)", "        scale = optimizer(t, qtype.bits, axis)\n        return SymmetricQuantizer.apply(t, qtype, 0 if axis is not None else None, scale)")], "C01.R5"),
    M("c01-refactor-method-forms", "C01", "refactor", [(SYM, "data = torch.round(data)", "data = data.round()"), (SYM, "torch.clamp(data, min=info.min, max=info.max)", "data.clamp(info.min, info.max)")]),
    M("c01-refactor-inline-info", "C01", "refactor", [(SYM, "        info = dtype_info(qtype.dtype)\n", ""), (SYM, "min=info.min, max=info.max", "min=dtype_info(qtype.dtype).min, max=dtype_info(qtype.dtype).max")]),
    M("c01-refactor-ifelse", "C01", "refactor", [(SYM, "        data = torch.nan_to_num(base / scale, nan=0.0)\n        if not qtype.is_floating_point:\n            data = torch.round(data)", "        if qtype.is_floating_point:\n            data = torch.nan_to_num(torch.div(base, scale), nan=0.0)\n        else:\n            data = torch.round(torch.nan_to_num(base / scale, nan=0.0))")]),
    M("c01-refactor-where-zero", "C01", "refactor", [(SYM, "data = torch.nan_to_num(base / scale, nan=0.0)", "data = torch.where(scale == 0, torch.zeros_like(base), base / scale)")]),
    # ---------------- C02
    M("c02-no-round", "C02", "break", [(AFF, "torch.clamp(torch.round(base / scale) + zeropoint, min=0, max=2**bits - 1)", "torch.clamp(base / scale + zeropoint, min=0, max=2**bits - 1)")], "C02.R1"),
    M("c02-clamp-max-bits", "C02", "break", [(AFF, "max=2**bits - 1", "max=2**bits")], "C02.R1"),
    M("c02-clamp-fixed-15", "C02", "break", [(AFF, "max=2**bits - 1", "max=15")], "C02.R1"),
    M("c02-zeropoint-subtracted", "C02", "break", [(AFF, "torch.round(base / scale) + zeropoint", "torch.round(base / scale) - zeropoint")], "C02.R1"),
    M("c02-size-after-group", "C02", "break", [(AFF, "        size = base.size()\n        stride = base.stride()\n        if group_size is not None:\n            base = group(base, axis=axis, group_size=group_size)\n", "        if group_size is not None:\n            base = group(base, axis=axis, group_size=group_size)\n        size = base.size()\n        stride = base.stride()\n")], "C02.R2"),
    M("c02-group-axis-fixed", "C02", "break", [(AFF, "base = group(base, axis=axis, group_size=group_size)", "base = group(base, axis=0, group_size=group_size)")], "C02.R1"),
    M("c02-dequant-uint8-sub", "C02", "break", [(QBITS, "shifted_data = unpacked.to(torch.int16) - t._zeropoint.to(torch.int16)", "shifted_data = unpacked - t._zeropoint.to(torch.uint8)")], "C02.R3"),
    M("c02-dequant-no-ungroup", "C02", "break", [(QBITS, "        return ungroup(dqt, axis=t.axis, orig_shape=t.shape)", "        return dqt.reshape(t.shape)")], "C02.R3"),
    M("c02-ungroup-wrong-perm", "C02", "break", [(GROUP, "    ungrouped = ungrouped.permute(2, 0, 1)", "    ungrouped = ungrouped.permute(2, 1, 0)")], "C02.R4"),
    M("c02-group-last-axis-like-first", "C02", "break", [(GROUP, "    grouped = grouped.permute(1, 2, 0)\n    return grouped.reshape(group_size, axis_dim * axis_groups)", "    grouped = grouped.permute(1, 0, 2)\n    return grouped.reshape(group_size, axis_dim * axis_groups)")], "C02.R4"),
    M("c02-refactor-clamp-method", "C02", "refactor", [(AFF, "data = torch.clamp(torch.round(base / scale) + zeropoint, min=0, max=2**bits - 1).to(torch.uint8)", "codes = torch.round(base / scale) + zeropoint\n        data = codes.clamp(0, 2**qtype.bits - 1).to(torch.uint8)")]),
    M("c02-fix-zero-inclusion", "C02", "refactor", [(MAXOPT, "        rmin = torch.amin(base, dim=dim, keepdim=True)\n        rmax = torch.amax(base, dim=dim, keepdim=True)", "        rmin = torch.amin(base, dim=dim, keepdim=True).clamp(max=0)\n        rmax = torch.amax(base, dim=dim, keepdim=True).clamp(min=0)")]),
    # ---------------- C03
    M("c03-absmax-wrong-dims-last", "C03", "break", [(ABSMAX, "dim = list(range(1, base.ndim)) if (axis == 0) else list(range(0, base.ndim - 1))", "dim = list(range(1, base.ndim))")], "C03.R1"),
    M("c03-absmax-no-abs", "C03", "break", [(ABSMAX, "        base = torch.abs(base)\n", ""), (ABSMAX, "rmax = torch.amax(torch.abs(base), dim=dim, keepdim=True)", "rmax = torch.amax(base, dim=dim, keepdim=True)")], "C03.R2"),
    M("c03-absmax-qmax-128", "C03", "break", [(ABSMAX, "qmax = 2 ** (bits - 1) - 1", "qmax = 2 ** (bits - 1)")], "C03.R3"),
    M("c03-max-dims", "C03", "break", [(MAXOPT, "dim = list(range(1, base.ndim)) if (axis == 0) else list(range(0, base.ndim - 1))", "dim = list(range(1, base.ndim)) if (axis == -1) else list(range(0, base.ndim - 1))")], "C03.R1"),
    M("c03-max-amin-other-dim", "C03", "break", [(MAXOPT, "rmin = torch.amin(base, dim=dim, keepdim=True)", "rmin = torch.amin(base, dim=-1, keepdim=True)")], "C03.R2"),
    M("c03-max-span", "C03", "break", [(MAXOPT, "scale = (rmax - rmin) / (qmax - qmin)", "scale = (rmax - rmin) / qmax")], "C03.R3"),
    M("c03-axis-to-dim-last", "C03", "break", [(CORE, "    if axis == -1:\n        dim = dim[:-1]\n    else:\n        dim.remove(axis)", "    if axis == -1:\n        dim = dim[1:]\n    else:\n        dim.remove(axis)")], "C03.R1"),
    M("c03-affine-opt-no-group", "C03", "break", [(AFFOPT, "        if group_size is not None:\n            base = group(base, axis, group_size)\n", "")], "C03.R5"),
    M("c03-qw-group-dropped", "C03", "break", [(QW, "    scale, zeropoint = optimizer(t, qtype.bits, axis, group_size)", "    scale, zeropoint = optimizer(t, qtype.bits, axis)")], "C03.R5"),
    M("c03-symmetric-float-cast", "C03", "break", [(ABSMAX, "        return rmax / qmax", "        return (rmax / qmax).float()")], None),
    M("c03-refactor-dim-comprehension", "C03", "refactor", [(ABSMAX, "dim = list(range(1, base.ndim)) if (axis == 0) else list(range(0, base.ndim - 1))", "dim = [d for d in range(base.ndim) if d != (0 if axis == 0 else base.ndim - 1)]")]),
    M("c03-fix-float8-qmax", "C03", "refactor", [(CAL, "    return qranges / info.max", "    qmax = info.max\n    return qranges / qmax")]),
    # ---------------- C04
    M("c04-pack-drops-tail", "C04", "break", [(PACKED, "    it = min(values_per_item, (original_shape[0] // row_dim) + 1)", "    it = min(values_per_item, max(1, original_shape[0] // row_dim))")], "C04.R2"),
    M("c04-pack-stores-unpacked", "C04", "break", [(PACKED, "    row_dim = (original_shape[0] + values_per_item - 1) // values_per_item", "    row_dim = original_shape[0]")], "C04.R3"),
    M("c04-pack-shift", "C04", "break", [(PACKED, "packed[: (end - start)] |= lshift(unpacked[start:end], bits * i)", "packed[: (end - start)] |= lshift(unpacked[start:end], bits * i + 1)")], "C04.R2"),
    M("c04-pack-mps-mult", "C04", "break", [(PACKED, "            return t * (2**bits)", "            return t * (2 * bits)")], "C04.R2"),
    M("c04-unpack-python-mask", "C04", "break", [(PYUNPACK, "        mask = 2 ** (bits * (i + 1)) - 1", "        mask = 2 ** (bits * i + bits - 1) - 1")], "C04.R1"),
    M("c04-unpack-python-order", "C04", "break", [(PYUNPACK, "    for i in range(values_per_item):", "    for i in reversed(range(values_per_item)):")], "C04.R1"),
    M("c04-cpp-mask", "C04", "break", [(CPP, "(t & 0x30).__rshift__(4)", "(t & 0x30).__rshift__(3)")], "C04.R1"),
    M("c04-cpp-swap", "C04", "break", [(CPP, "                      (t & 0x0F),\n                      (t & 0xF0).__rshift__(4)", "                      (t & 0xF0).__rshift__(4),\n                      (t & 0x0F)")], "C04.R1"),
    M("c04-cuda-slot", "C04", "break", [(CUDA, "output[i + n*2] = (input[i] & 0x30) >> 4;", "output[i + n*3] = (input[i] & 0x30) >> 4;")], "C04.R1"),
    M("c04-mps-mask", "C04", "break", [(MPS, "mask_and_shift(input, output2, 0x30, 4);", "mask_and_shift(input, output2, 0x38, 4);")], "C04.R1"),
    M("c04-cpp-routing", "C04", "break", [(CPP, "      case 4:\n        return unpack_4bit(t);\n      case 2:\n        return unpack_2bit(t);", "      case 4:\n        return unpack_2bit(t);\n      case 2:\n        return unpack_4bit(t);")], "C04.R1"),
    M("c04-unpack-no-slice", "C04", "break", [(PACKED, "        return unpacked_data[: self.shape[0]]", "        return unpacked_data")], "C04.R4"),
    M("c04-pack-no-stride", "C04", "break", [(PACKED, "return PackedTensor(data, bits, t.size(), t.stride())", "return PackedTensor(data, bits, data.size(), data.stride())")], "C04.R4"),
    M("c04-dispatch-args-only", "C04", "break", [(PACKED, "        args, kwargs = pytree.tree_map_only(PackedTensor, lambda x: x.unpack(), (args, kwargs or {}))\n        return op(*args, **kwargs)\n\n    def numpy(self):\n        return self.unpack().cpu().numpy()", "        args = pytree.tree_map_only(PackedTensor, lambda x: x.unpack(), args)\n        return op(*args, **(kwargs or {}))\n\n    def numpy(self):\n        return self.unpack().cpu().numpy()")], "C04.R5"),
    M("c04-router-no-fallback", "C04", "break", [(OPS, "        return getattr(torch.ops.quanto_py, name)(*args, **kwargs)", "        raise NotImplementedError(name)")], "C04.R6"),
    M("c04-cpp-registration-swapped", "C04", "break", [(CPPINIT, "    return ext.lib.unpack(t, bits)", "    return ext.lib.unpack(t, 4)")], "C04.R7"),
    M("c04-pack-loop-unbounded", "C04", "break", [(PACKED, "    it = min(values_per_item, (original_shape[0] // row_dim) + 1)\n    for i in range(it):", "    for i in range(values_per_item):")], "C04.R2"),
    M("c04-refactor-ceil-div", "C04", "refactor", [(PACKED, "    row_dim = (original_shape[0] + values_per_item - 1) // values_per_item", "    row_dim = -(-original_shape[0] // values_per_item)")]),
    M("c04-refactor-unpack-explicit-mask", "C04", "refactor", [(PYUNPACK, "        mask = 2 ** (bits * (i + 1)) - 1\n        unpacked.append(rshift(packed & mask, bits * i))", "        mask = (2**bits - 1) << (bits * i)\n        unpacked.append(rshift(packed & mask, bits * i))")]),
    # ---------------- C15
    M("c15-packv2-perm", "C15", "break", [(AWQP, "    packed = unpacked.reshape(N, K // 32, 4, 4, 2).permute(0, 1, 3, 2, 4)", "    packed = unpacked.reshape(N, K // 32, 4, 4, 2).permute(0, 1, 2, 3, 4)")], "C15.R3"),
    M("c15-packv2-shift", "C15", "break", [(AWQP, "(packed[..., 2] << 8)", "(packed[..., 2] << 6)")], "C15.R1"),
    M("c15-packv2-lane-order", "C15", "break", [(AWQP, "packed[..., 0] | (packed[..., 1] << 4) | (packed[..., 2] << 8) | (packed[..., 3] << 12)", "packed[..., 1] | (packed[..., 0] << 4) | (packed[..., 2] << 8) | (packed[..., 3] << 12)")], "C15.R2"),
    M("c15-packv2-no-interleave", "C15", "break", [(AWQP, "    packed = packed.permute(0, 2, 1, 3)\n    # reshape (N // I, K // S, I, S) -> (N // I, K // S, S, I)", "    # reshape (N // I, K // S, I, S) -> (N // I, K // S, S, I)")], None),
    M("c15-unpackv2-perm", "C15", "break", [(AWQP, "    unpacked = unpacked.reshape(N, K // 32, 4, 2, 4).permute(0, 1, 2, 4, 3)", "    unpacked = unpacked.reshape(N, K // 32, 4, 2, 4).permute(0, 1, 3, 2, 4)")], "C15.R2"),
    M("c15-unpackv2-mask", "C15", "break", [(AWQP, "((unpacked & 0xF00) >> 8)", "((unpacked & 0xF00) >> 4)")], "C15.R2"),
    M("c15-v1-order-table", "C15", "break", [(AWQP, "AWQ_REVERSE_ORDER = [0, 4, 1, 5, 2, 6, 3, 7]", "AWQ_REVERSE_ORDER = [0, 4, 1, 5, 2, 6, 7, 3]")], "C15.R4"),
    M("c15-v1-shift", "C15", "break", [(AWQP, "            packed[:, col] |= packed_col << (i * bits)", "            packed[:, col] |= packed_col << (i * pack_num)")], "C15.R4"),
    M("c15-v1-reorder-ignored", "C15", "break", [(AWQP, "    if reorder:\n        unpacked = reverse_awq_order(unpacked)\n", "")], "C15.R4"),
    M("c15-v1-mask", "C15", "break", [(AWQP, "    unpacked = torch.bitwise_and(unpacked, (2**bits) - 1)", "    unpacked = torch.bitwise_and(unpacked, 2**bits)")], "C15.R4"),
    M("c15-ctor-zp-sign", "C15", "break", [(AWQQ, "            zeropoint = (-zeropoint.to(scale.dtype) * scale).contiguous()", "            zeropoint = (zeropoint.to(scale.dtype) * scale).contiguous()")], None),
    M("c15-dequant-sub", "C15", "break", [(AWQQ, "        dqt = scale * unpacked + zeropoint", "        dqt = scale * (unpacked + zeropoint)")], "C15.R5"),
    M("c15-dequant-no-group", "C15", "break", [(AWQQ, "        unpacked = group(unpacked, axis=0, group_size=t._group_size)\n", "")], "C15.R5"),
    M("c15-create-any-group", "C15", "break", [(QBITS, "            and group_size == 128\n", "")], "C15.R7"),
    M("c15-tocopy-no-convert", "C15", "break", [(QBOPS, "    if type(t) != QBitsTensor and t.device.type != device.type:\n        # Before moving to another device type, convert back to a QBitsTensor\n        t = t.qbits_tensor()\n", "")], "C15.R7"),
    M("c15-save-no-convert", "C15", "break", [(QBITS, "            self.qbits_tensor().save_to_state_dict(destination, prefix, keep_vars)", "            super().save_to_state_dict(destination, prefix, keep_vars)")], "C15.R7"),
    M("c15-wrap-unpack-swapped", "C15", "break", [(AWQP, "        if self._packing == AWQPacking.V1:\n            return unpack(self._data, self._reorder)", "        if self._packing != AWQPacking.V1:\n            return unpack(self._data, self._reorder)")], "C15.R8"),
    M("c15-wrap-unpack-reorder-dropped", "C15", "break", [(AWQP, "            return unpack(self._data, self._reorder)", "            return unpack(self._data)")], "C15.R8"),
    M("c15-wrap-pack-reorder-dropped", "C15", "break", [(AWQP, "            data = pack(t, reorder=reorder)", "            data = pack(t)")], "C15.R8"),
    M("c15-wrap-pack-records-default", "C15", "break", [(AWQP, "        return AWQPackedTensor(data, packing, reorder, t.size(), t.stride())\n\n    def unpack", "        return AWQPackedTensor(data, packing, False, t.size(), t.stride())\n\n    def unpack")], "C15.R8"),
    M("c15-wrap-unpack-transposed", "C15", "break", [(AWQP, "        return unpack_v2(self._data)", "        return unpack_v2(self._data).t()")], "C15.R8"),
    M("c15-wrap-detach-flags", "C15", "break", [(AWQP, "            data = op(t._data)\n            return AWQPackedTensor(data, t._packing, t._reorder, t.size(), t.stride())", "            data = op(t._data)\n            return AWQPackedTensor(data, t._packing, False, t.size(), t.stride())")], "C15.R8"),
    M("c15-wrap-init-swapped", "C15", "break", [(AWQP, "        self._reorder = reorder", "        self._reorder = requires_grad")], "C15.R8"),
    M("c15-refactor-unpack-else", "C15", "refactor", [(AWQP, "            return unpack(self._data, self._reorder)\n        return unpack_v2(self._data)", "            out = unpack(self._data, reorder=self._reorder)\n        else:\n            out = unpack_v2(self._data)\n        return out.contiguous()")]),
    M("c15-refactor-split-permutes", "C15", "refactor", [(AWQP, "    packed = unpacked.reshape(N, K // 32, 4, 4, 2).permute(0, 1, 3, 2, 4)\n", "    packed = unpacked.reshape(N, K // 32, 4, 4, 2)\n    packed = packed.permute(0, 1, 3, 2, 4)\n")]),
    M("c15-refactor-merge-permutes", "C15", "refactor", [(AWQP, "    packed = unpacked.reshape(N, K // 32, 4, 4, 2).permute(0, 1, 3, 2, 4)\n\n    # Reorder each 8 weights for fast dequantization\n    # From: \"Who Says Elephants Can’t Run: Bringing Large Scale MoE Models into Cloud Scale Production\"\n    # https://arxiv.org/pdf/2211.10017\n    # [0, 1, 2, 3, 4, 5, 6, 7] => [0, 2, 4, 6, 1, 3, 5, 7]\n    packed = packed.permute(0, 1, 2, 4, 3)\n", "    packed = unpacked.reshape(N, K // 32, 4, 4, 2).permute(0, 1, 3, 4, 2)\n")]),
    # ---------------- C16
    M("c16-no-sanitiser", "C16", "break", [(SYM, "data = torch.nan_to_num(base / scale, nan=0.0)", "data = base / scale")], "C16.R1"),
    M("c16-sanitiser-after-cast", "C16", "break", [(SYM, "        data = torch.nan_to_num(base / scale, nan=0.0)\n", "        data = base / scale\n"), (SYM, "        return QBytesTensor(qtype, axis, size, stride, data, scale)", "        return QBytesTensor(qtype, axis, size, stride, data, torch.nan_to_num(scale, nan=0.0))")], "C16.R1"),
    M("c16-sanitiser-int-only", "C16", "break", [(SYM, "        data = torch.nan_to_num(base / scale, nan=0.0)\n        if not qtype.is_floating_point:\n            data = torch.round(data)", "        data = base / scale\n        if not qtype.is_floating_point:\n            data = torch.round(torch.nan_to_num(data, nan=0.0))")], "C16.R1"),
    M("c16-dequant-divides", "C16", "break", [(QB, "            dqt = t._scale * t._data\n", "            dqt = t._data / (1 / t._scale)\n")], "C16.R4"),
    M("c16-fix-lower-bound", "C16", "refactor", [(SYM, "data = torch.nan_to_num(base / scale, nan=0.0)", "data = base / scale"), (ABSMAX, "        return rmax / qmax", "        return (rmax / qmax).clamp(min=1e-12)"), (CAL, "    return qranges / info.max", "    return (qranges / info.max).clamp(min=1e-12)")]),
]
