"""Mutation corpus for C05, C06, C12, C13: (rel path, old text, new text).  'break' must be reported, 'refactor' must stay silent."""
OPS = "optimum/quanto/tensor/qbytes_ops.py"
QT = "optimum/quanto/tensor/qtensor.py"
QB = "optimum/quanto/tensor/qbytes.py"
QBITS = "optimum/quanto/tensor/qbits/qbits.py"
QBOPS = "optimum/quanto/tensor/qbits/qbits_ops.py"
PACKED = "optimum/quanto/tensor/qbits/packed.py"
CAL = "optimum/quanto/calibrate.py"
QMOD = "optimum/quanto/nn/qmodule.py"
LIBOPS = "optimum/quanto/library/ops.py"


def M(id, prop, kind, edits, rule=None):
    return {"id": id, "prop": prop, "kind": kind, "edits": edits, "rule": rule}


MUTANTS = [
    # ---------------- C05
    M("c05-stack-fallback-no-op", "C05", "break", [(OPS, "    return qfallback(op, inputs, dim)\n\n\n@register_qbytestensor_op([torch.ops.aten.split])", "    return qfallback(inputs, dim)\n\n\n@register_qbytestensor_op([torch.ops.aten.split])")], "C05.R3"),
    M("c05-cat-drop-equal-scale", "C05", "break", [(OPS, "            and torch.equal(t1._scale, t2._scale)\n            and t1.qtype == t2.qtype\n        ):\n            if t1.qtype.is_floating_point", "            and t1.qtype == t2.qtype\n        ):\n            if t1.qtype.is_floating_point")], "C05.R4"),
    M("c05-cat-drop-float-guard", "C05", "break", [(OPS, "            if t1.qtype.is_floating_point or t2.qtype.is_floating_point:\n                # Cat is not supported for float8\n                return qfallback(op, inputs, dim)\n", "")], "C05.R6"),
    M("c05-lt-drop-float-guard", "C05", "break", [(OPS, "        and not input.qtype.is_floating_point\n        and not other.qtype.is_floating_point\n", "")], "C05.R6"),
    M("c05-lt-drop-equal", "C05", "break", [(OPS, "        and torch.equal(input._scale, other._scale)\n", "")], "C05.R4"),
    M("c05-view-drop-axis-guard", "C05", "break", [(OPS, "    if input.axis is None:\n        # The view is transparent for QTensor with scalar scales\n        out_data = op(input._data, *shape)\n        return QBytesTensor(input.qtype, None, out_data.size(), out_data.stride(), out_data, input._scale)\n    return qfallback(op, input, *shape)", "    out_data = op(input._data, *shape)\n    return QBytesTensor(input.qtype, input.axis, out_data.size(), out_data.stride(), out_data, input._scale)")], "C05.R5"),
    M("c05-unary-drop-axis-guard", "C05", "break", [(OPS, "    if input.axis is not None:\n        return op(input.dequantize(), *args, **kwargs)\n    # When quantization is per-tensor", "    # When quantization is per-tensor")], "C05.R5"),
    M("c05-neg-drop-float-guard", "C05", "break", [(OPS, "    if input.qtype.is_floating_point:\n        # Neg is not supported for float8\n        return op(input.dequantize(), *args, **kwargs)\n", "")], "C05.R6"),
    M("c05-div-swap", "C05", "break", [(OPS, "input._data, op(input._scale, other))", "input._data, op(other, input._scale))")], "C05.R4"),
    M("c05-div-nonscalar-redispatch", "C05", "break", [(OPS, "        return qfallback(op, input, other, rounding_mode=rounding_mode)", "        return op(input.dequantize(), other, rounding_mode=rounding_mode)")], "C05.R2"),
    M("c05-mul-wrong-scale", "C05", "break", [(OPS, "other._data, input * other._scale)", "other._data, other._scale)")], "C05.R4"),
    M("c05-mul-scalar-guard-dropped", "C05", "break", [(OPS, "    if is_scalar(other) and other >= 0:\n        return QBytesTensor(input.qtype, input.axis, input.size(), input.stride(), input._data, other * input._scale)\n    return qfallback(op, input, other)", "    return QBytesTensor(input.qtype, input.axis, input.size(), input.stride(), input._data, other * input._scale)")], None),
    M("c05-relu-drop-float-guard", "C05", "break", [(OPS, "    if input.qtype.is_floating_point:\n        # Relu is not supported for float8 types\n        return qfallback(op, input)\n", "")], "C05.R6"),
    M("c05-softmax-fixed-127", "C05", "break", [(OPS, "1 / dtype_info(input.qtype.dtype).max", "1 / 127")], "C05.R10"),
    M("c05-softmax-scale-dtype", "C05", "break", [(OPS, "dtype=input._scale.dtype).to(input.device)", "dtype=torch.float32).to(input.device)")], "C05.R10"),
    M("c05-where-wrong-scale", "C05", "break", [(OPS, "return quantize_activation(float_data, qtype=input.qtype, scale=input._scale)", "return quantize_activation(float_data, qtype=input.qtype, scale=torch.ones_like(input._scale))")], "C05.R10"),
    M("c05-where-drop-axis-guard", "C05", "break", [(OPS, "    if input.axis is None:\n        # We requantize with the input scale\n        return quantize_activation(float_data, qtype=input.qtype, scale=input._scale)\n    return float_data", "    return quantize_activation(float_data, qtype=input.qtype, scale=input._scale)")], "C05.R10"),
    M("c05-where-raise-on-other", "C05", "break", [(OPS, "    if isinstance(condition, QTensor):\n        raise NotImplementedError", "    if isinstance(condition, QTensor) or isinstance(other, QTensor):\n        raise NotImplementedError")], "C05.R7"),
    M("c05-t-axis-not-flipped", "C05", "break", [(OPS, "        out_axis = 0 if out_axis == -1 else -1\n", "")], "C05.R4"),
    M("c05-t-scale-not-moved", "C05", "break", [(OPS, "        out_scale = op(out_scale)\n", "")], None),
    M("c05-t-no-rank-guard", "C05", "break", [(OPS, "    if input.ndim < 2:\n        # Transposing a scalar or a vector is a no-op\n        return QBytesTensor(input.qtype, input.axis, input.size(), input.stride(), out_data, input._scale)\n", "")], "C05.R11"),
    M("c05-copy-plain-dest", "C05", "break", [(OPS, "    if not isinstance(dest, QBytesTensor):\n        # Copying into a standard Tensor: use the dequantized values\n        return op(dest, src.dequantize(), non_blocking)\n", "")], "C05.R2"),
    M("c05-copy-scale-not-copied", "C05", "break", [(OPS, "    dest._scale = op(dest._scale, src._scale, non_blocking)\n", "")], "C05.R4"),
    M("c05-qfallback-args-only", "C05", "break", [(QT, "    args, kwargs = pytree.tree_map_only(QTensor, lambda x: x.dequantize(), (args, kwargs or {}))\n    return callable(*args, **kwargs)", "    args = pytree.tree_map_only(QTensor, lambda x: x.dequantize(), args)\n    return callable(*args, **(kwargs or {}))")], "C05.R9"),
    M("c05-dispatch-drops-kwargs", "C05", "break", [(QB, "            return qdispatch(*args, **kwargs)", "            return qdispatch(*args)")], "C05.R8"),
    M("c05-torchfunction-no-disable", "C05", "break", [(QT, "        with torch._C.DisableTorchFunctionSubclass():\n            return func(*args, **kwargs)", "        return func(*args, **kwargs)")], "C05.R8"),
    M("c05-neg-registers-abs-add", "C05", "break", [(OPS, "@register_qbytestensor_op([torch.ops.aten.neg])", "@register_qbytestensor_op([torch.ops.aten.neg, torch.ops.aten.add])")], None),
    M("c05-bmm-raw-qbits", "C05", "break", [(OPS, "    if input.qtype != qint8 or other.qtype != qint8 or cannot_mm(other):", "    if input.qtype != qint8 or cannot_mm(other):")], None),
    M("c05-split-fallback-reorder", "C05", "break", [(OPS, "        return qfallback(op, input, *args, **kwargs)\n    out_datas", "        return qfallback(op, *args, input, **kwargs)\n    out_datas")], "C05.R3"),
    M("c05-transpose-keeps-axis-noguard", "C05", "break", [(OPS, "    if input.axis is not None:\n        return op(input.dequantize(), *args)\n    out_data = op(input._data, *args)", "    out_data = op(input._data, *args)")], "C05.R5"),
    M("c05-refactor-lt-nested-if", "C05", "refactor", [(OPS, "    if (\n        isinstance(input, QBytesTensor)\n        and isinstance(other, QBytesTensor)\n        and not input.qtype.is_floating_point\n        and not other.qtype.is_floating_point\n        and torch.equal(input._scale, other._scale)\n        # The order of the values is the order of the integer data for positive scales only (a null scale maps all data to zero)\n        and bool((input._scale > 0).all())\n    ):\n        return op(input._data, other._data)", "    if isinstance(input, QBytesTensor) and isinstance(other, QBytesTensor):\n        if not input.qtype.is_floating_point and not other.qtype.is_floating_point:\n            if torch.equal(input._scale, other._scale) and bool((input._scale > 0).all()):\n                return op(input._data, other._data)")]),
    M("c05-refactor-view-early-return", "C05", "refactor", [(OPS, "    if input.axis is None:\n        # The view is transparent for QTensor with scalar scales\n        out_data = op(input._data, *shape)\n        return QBytesTensor(input.qtype, None, out_data.size(), out_data.stride(), out_data, input._scale)\n    return qfallback(op, input, *shape)", "    if input.axis is not None:\n        return qfallback(op, input, *shape)\n    data = op(input._data, *shape)\n    return QBytesTensor(input.qtype, input.axis, data.size(), data.stride(), data, input._scale)")]),
    M("c05-refactor-neg-locals", "C05", "refactor", [(OPS, "    out_data = op(data, *args, **kwargs)\n    return QBytesTensor(input.qtype, input.axis, input.size(), input.stride(), out_data, input._scale)\n\n\n@register_qbytestensor_op(\n    [\n        torch.ops.aten.expand,", "    negated = op(data, *args, **kwargs)\n    scale = input._scale\n    return QBytesTensor(qtype=input.qtype, axis=input.axis, size=input.size(), stride=input.stride(), data=negated, scale=scale)\n\n\n@register_qbytestensor_op(\n    [\n        torch.ops.aten.expand,")]),
    M("c05-refactor-register-squeeze", "C05", "refactor", [(OPS, "        torch.ops.aten.unsqueeze,\n", "        torch.ops.aten.unsqueeze,\n        torch.ops.aten.squeeze,\n")]),
    # ---------------- C06
    M("c06-split-stale-size", "C06", "break", [(OPS, "QBytesTensor(input.qtype, input.axis, out_data.size(), out_data.stride(), out_data, input._scale)\n        for out_data in out_datas", "QBytesTensor(input.qtype, input.axis, input.size(), input.stride(), out_data, input._scale)\n        for out_data in out_datas")], "C06.R1"),
    M("c06-view-stale-stride", "C06", "break", [(OPS, "return QBytesTensor(input.qtype, None, out_data.size(), out_data.stride(), out_data, input._scale)\n    return qfallback(op, input, *shape)", "return QBytesTensor(input.qtype, None, out_data.size(), input.stride(), out_data, input._scale)\n    return qfallback(op, input, *shape)")], "C06.R1"),
    M("c06-tocopy-data-dtype", "C06", "break", [(OPS, "out_data = op(t._data, dtype=t._data.dtype, **kwargs)", "out_data = op(t._data, dtype=dtype, **kwargs)")], "C06.R4"),
    M("c06-tocopy-scale-nodtype", "C06", "break", [(OPS, "out_scale = op(t._scale, dtype=dtype, **scale_kwargs)", "out_scale = op(t._scale, **scale_kwargs)")], "C06.R4"),
    M("c06-wrapper-dtype-fixed", "C06", "break", [(QB, "cls, size, strides=stride, dtype=scale.dtype, device=data.device", "cls, size, strides=stride, dtype=torch.float32, device=data.device")], "C06.R3"),
    M("c06-wrapper-device-scale", "C06", "break", [(QBITS, "cls, size, strides=stride, dtype=scale.dtype, device=data.device", "cls, size, strides=stride, dtype=scale.dtype, device=scale.device")], "C06.R3"),
    M("c06-unflatten-swap", "C06", "break", [(QB, 'data, scale = inner_tensors["_data"], inner_tensors["_scale"]', 'scale, data = inner_tensors["_data"], inner_tensors["_scale"]')], "C06.R5"),
    M("c06-flatten-stride-of-data", "C06", "break", [(QB, '"stride": str(list(self.stride())),', '"stride": str(list(self._data.stride())),')], "C06.R5"),
    M("c06-qbits-tocopy-zp-dtype", "C06", "break", [(QBOPS, "zeropoint = op(t._zeropoint, device=device, **scale_kwargs)", "zeropoint = op(t._zeropoint, dtype=dtype, device=device, **scale_kwargs)")], "C06.R4"),
    M("c06-qbits-detach-base-class", "C06", "break", [(QBOPS, "return t.__class__(t._qtype,", "return QBitsTensor(t._qtype,")], "C06.R4"),
    M("c06-cat-axis-from-t2", "C06", "break", [(OPS, "            return QBytesTensor(t1.qtype, t1.axis, out_data.size(), out_data.stride(), out_data, t1._scale)\n    return qfallback(op, inputs, dim)\n\n\n@register_qbytestensor_op([torch.ops.aten.lt])", "            return QBytesTensor(t1.qtype, 0, out_data.size(), out_data.stride(), out_data, t1._scale)\n    return qfallback(op, inputs, dim)\n\n\n@register_qbytestensor_op([torch.ops.aten.lt])")], "C06.R2"),
    M("c06-relu-payload-arith", "C06", "break", [(OPS, "    out_data = op(input._data)\n    return QBytesTensor(input.qtype, input.axis, input.size(), input.stride(), out_data, input._scale)\n\n\n@register_qbytestensor_op([torch.ops.aten._softmax])", "    out_data = op(input._data) + 0\n    return QBytesTensor(input.qtype, input.axis, input.size(), input.stride(), out_data, input._scale)\n\n\n@register_qbytestensor_op([torch.ops.aten._softmax])")], None),
    M("c06-refactor-detach-kw", "C06", "refactor", [(OPS, "    return QBytesTensor(t.qtype, t.axis, t.size(), t.stride(), out_data, out_scale)\n\n\n@register_qbytestensor_op([torch.ops.aten.cat])", "    return QBytesTensor(t.qtype, t.axis, size=t.size(), stride=t.stride(), data=out_data, scale=out_scale)\n\n\n@register_qbytestensor_op([torch.ops.aten.cat])")]),
    # ---------------- C12
    M("c12-input-momentum-literal", "C12", "break", [(CAL, "_updated_scale(module.input_scale, input_scale, self.momentum)", "_updated_scale(module.input_scale, input_scale, 0.9)")], "C12.R1"),
    M("c12-ema-swapped", "C12", "break", [(CAL, "return momentum * scale + new_scale * (1.0 - momentum)", "return momentum * new_scale + scale * (1.0 - momentum)")], "C12.R2"),
    M("c12-ema-not-normalised", "C12", "break", [(CAL, "return momentum * scale + new_scale * (1.0 - momentum)", "return momentum * scale + new_scale")], "C12.R2"),
    M("c12-first-batch-any", "C12", "break", [(CAL, "if torch.all(scale == 1):", "if torch.all(scale == 0):")], "C12.R2"),
    M("c12-output-from-quantized", "C12", "break", [(CAL, "            qoutput = module.qforward(input[0])\n", "            qoutput = output\n")], "C12.R4"),
    M("c12-output-per-axis", "C12", "break", [(CAL, "output_scale = absmax_scale(qoutput, module.activation_qtype, axis=None)", "output_scale = absmax_scale(qoutput, qint8, axis=None)")], "C12.R4"),
    M("c12-absmax-no-abs", "C12", "break", [(CAL, "    base = torch.abs(base)\n    if axis is None:\n        qranges = torch.max(base)", "    if axis is None:\n        qranges = torch.max(base)")], "C12.R5"),
    M("c12-absmax-iinfo", "C12", "break", [(CAL, "    return qranges / info.max", "    return qranges / 127")], "C12.R5"),
    M("c12-input-scale-into-output", "C12", "break", [(CAL, "module.input_scale = _updated_scale(module.input_scale, input_scale, self.momentum)", "module.input_scale = _updated_scale(module.output_scale, input_scale, self.momentum)")], "C12.R3"),
    M("c12-momentum-overwritten", "C12", "break", [(CAL, "        self.streamline = streamline\n", "        self.streamline = streamline\n        if streamline:\n            self.momentum = 0.9\n")], "C12.R1"),
    M("c12-hook-not-reforward", "C12", "break", [(CAL, "            output = module.forward(input[0])\n            if isinstance(output, QBytesTensor):", "            if isinstance(output, QBytesTensor):")], "C12.R4"),
    M("c12-refactor-ema-form", "C12", "refactor", [(CAL, "return momentum * scale + new_scale * (1.0 - momentum)", "return new_scale + momentum * (scale - new_scale)")]),
    M("c12-refactor-local-momentum", "C12", "refactor", [(CAL, "                module.input_scale = _updated_scale(module.input_scale, input_scale, self.momentum).detach()", "                m = self.momentum\n                module.input_scale = _updated_scale(module.input_scale, input_scale, m).detach()")]),
    # ---------------- C13
    M("c13-exit-skips-on-exception", "C13", "break", [(CAL, "        for handle in self.hook_handles.pop():\n            handle.remove()", "        if exc_type is None:\n            for handle in self.hook_handles.pop():\n                handle.remove()")], "C13.R1"),
    M("c13-exit-one-handle", "C13", "break", [(CAL, "        for handle in self.hook_handles.pop():\n            handle.remove()", "        self.hook_handles.pop()[0].remove()")], "C13.R1"),
    M("c13-exit-no-super", "C13", "break", [(CAL, "        super().__exit__(exc_type, exc_val, exc_tb)\n", "")], "C13.R1"),
    M("c13-enter-handle-dropped", "C13", "break", [(CAL, "        self.hook_handles.append(\n            (\n                register_module_forward_pre_hook(self.calibrate_input),\n                register_module_forward_hook(self.calibrate_output),\n            )\n        )", "        self.hook_handles.append((register_module_forward_pre_hook(self.calibrate_input),))\n        register_module_forward_hook(self.calibrate_output)")], "C13.R1"),
    M("c13-forward-writes-scale", "C13", "break", [(QMOD, "        output = self.qforward(input)\n", "        output = self.qforward(input)\n        if self.activation_qtype is not None and torch.all(self.output_scale == 1):\n            self.output_scale = output.abs().max() / 127\n")], "C13.R3"),
    M("c13-qweight-cached", "C13", "break", [(QMOD, "        # Quantize dynamically the weights per-axis\n        return quantize_weight(", "        # Quantize dynamically the weights per-axis\n        self._qweight_cache = None\n        return quantize_weight(")], "C13.R3"),
    M("c13-quantizer-inplace-base", "C13", "break", [("optimum/quanto/tensor/quantizers/symmetric.py", "        data = torch.nan_to_num(base / scale, nan=0.0)", "        data = torch.nan_to_num(base.div_(scale), nan=0.0)")], None),
    M("c13-disable-ext-no-finally", "C13", "break", [(LIBOPS, "    try:\n        global _ext_enabled\n        _ext_enabled = False\n        yield\n    finally:\n        _ext_enabled = True", "    global _ext_enabled\n    _ext_enabled = False\n    yield\n    _ext_enabled = True")], "C13.R5"),
    M("c13-hook-registered-elsewhere", "C13", "break", [(CAL, "    def __exit__(self, exc_type, exc_val, exc_tb):", "    def track(self):\n        self.extra = register_module_forward_hook(self.calibrate_output)\n\n    def __exit__(self, exc_type, exc_val, exc_tb):")], "C13.R2"),
    M("c13-absmax-inplace", "C13", "break", [("optimum/quanto/tensor/optimizers/absmax_optimizer.py", "        base = torch.abs(base)\n", "        base = base.abs_()\n")], "C13.R4"),
    M("c13-refactor-exit-try-finally", "C13", "refactor", [(CAL, "        super().__exit__(exc_type, exc_val, exc_tb)\n        for handle in self.hook_handles.pop():\n            handle.remove()", "        try:\n            super().__exit__(exc_type, exc_val, exc_tb)\n        finally:\n            for handle in self.hook_handles.pop():\n                handle.remove()")]),
    M("c13-refactor-forward-local", "C13", "refactor", [(QMOD, "        output = self.qforward(input)\n", "        result = self.qforward(input)\n        output = result\n")]),
]
