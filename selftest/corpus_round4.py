"""Mutation corpus for the rules added during the fourth round of seeded changes (C08.R9, C09.R8, C10.R11, C12 batch-skipped clause,
C13 shared handle container, C15.R11 / R12) and for finding F30 reintroduced."""
QMOD = "optimum/quanto/nn/qmodule.py"
CAL = "optimum/quanto/calibrate.py"
AWQ = "optimum/quanto/tensor/qbits/awq/packed.py"
OPS = "optimum/quanto/tensor/qbytes_ops.py"
QBOPS = "optimum/quanto/tensor/qbits/qbits_ops.py"
MM = "optimum/quanto/library/qbytes_mm.py"


def M(id, prop, kind, edits, rule=None):
    return {"id": id, "prop": prop, "kind": kind, "edits": edits, "rule": rule}


BUF_IN = '        self.register_buffer("input_scale", torch.ones((), dtype=scale_dtype, device=scale_device))'
BUF_OUT = '        self.register_buffer("output_scale", torch.ones((), dtype=scale_dtype, device=scale_device))'

MUTANTS = [
    # ---------------- C08.R9 (F30 reintroduced, wholly or for one buffer)
    M("c08-scales-default-dtype", "C08", "break", [(QMOD, BUF_IN, '        self.register_buffer("input_scale", torch.ones(()))'), (QMOD, BUF_OUT, '        self.register_buffer("output_scale", torch.ones(()))')], "C08.R9"),
    M("c08-output-scale-default-dtype", "C08", "break", [(QMOD, BUF_OUT, '        self.register_buffer("output_scale", torch.ones((), device=scale_device))')], "C08.R9"),
    M("c08-scales-float32-literal", "C08", "break", [(QMOD, BUF_IN, '        self.register_buffer("input_scale", torch.ones((), dtype=torch.float32, device=scale_device))')], "C08.R9"),
    M("c08-refactor-scales-subscript-free", "C08", "refactor", [(QMOD, '        scale_dtype, scale_device = kwargs.get("dtype"), kwargs.get("device")', '        scale_dtype = kwargs.get("dtype")\n        scale_device = kwargs.get("device")')]),
    M("c08-refactor-scales-inline", "C08", "refactor", [(QMOD, BUF_IN, '        self.register_buffer("input_scale", torch.ones((), dtype=kwargs.get("dtype"), device=kwargs.get("device")))')]),
    # ---------------- C10.R11 owned tensors
    M("c10-input-scale-by-reference", "C10", "break", [(CAL, "module.input_scale = torch.max(input._scale)", "module.input_scale = input._scale")], "C10.R11"),
    M("c10-input-scale-view", "C10", "break", [(CAL, "module.input_scale = torch.max(input._scale)", "module.input_scale = input._scale.reshape(())")], "C10.R11"),
    M("c10-input-scale-detach", "C10", "break", [(CAL, "module.input_scale = torch.max(input._scale)", "module.input_scale = input._scale.detach()")], "C10.R11"),
    M("c10-updated-scale-returns-other", "C10", "break", [(CAL, "            module.output_scale = _updated_scale(module.output_scale, output_scale, self.momentum)", "            module.output_scale = _updated_scale(module.output_scale, module.input_scale, self.momentum)")], "C10.R11"),
    M("c10-from-module-shares-weight", "C10", "break", [(QMOD, "            qmodule.weight.copy_(module.weight)", "            qmodule.weight = module.weight")], "C10.R11"),
    M("c10-refactor-input-scale-amax", "C10", "refactor", [(CAL, "module.input_scale = torch.max(input._scale)", "module.input_scale = torch.amax(input._scale)")]),
    M("c10-refactor-input-scale-clone", "C10", "refactor", [(CAL, "module.input_scale = torch.max(input._scale)", "module.input_scale = input._scale.max().clone()")]),
    # ---------------- C09.R8 qtype identity
    M("c09-requantize-identity", "C09", "break", [(QMOD, "            if t.qtype == self.activation_qtype and t.axis is None:", "            if t.qtype is self.activation_qtype and t.axis is None:")], "C09.R8"),
    M("c09-cat-qtype-identity", "C09", "break", [(OPS, "            and t1.qtype == t2.qtype", "            and t1.qtype is t2.qtype")], "C09.R8"),
    M("c09-refactor-qtype-none-test", "C09", "refactor", [(QMOD, "        if self.weight_qtype is None:\n            # QModule that does not quantize its weights", "        if None is self.weight_qtype:\n            # QModule that does not quantize its weights")]),
    # ---------------- C12 batch skipped
    M("c12-skip-zero-output", "C12", "break", [(CAL, "            output_scale = absmax_scale(qoutput, module.activation_qtype, axis=None)\n", "            output_scale = absmax_scale(qoutput, module.activation_qtype, axis=None)\n            if not torch.any(output_scale > 0):\n                return output\n")], "C12.R4"),
    # ---------------- C13 shared container of hook handles
    M("c13-class-level-handles", "C13", "break", [(CAL, "class Calibration(TorchFunctionMode):\n", "class Calibration(TorchFunctionMode):\n    _handles = []\n"),
                                                   (CAL, "        self.hook_handles.append(\n            (\n                register_module_forward_pre_hook(self.calibrate_input),\n                register_module_forward_hook(self.calibrate_output),\n            )\n        )", "        self._handles.append(register_module_forward_pre_hook(self.calibrate_input))\n        self._handles.append(register_module_forward_hook(self.calibrate_output))"),
                                                   (CAL, "        for handle in self.hook_handles.pop():\n            handle.remove()", "        while self._handles:\n            self._handles.pop().remove()")], "C13.R1"),
    # ---------------- C15.R11 / R12
    M("c15-pack-shift-unwidened", "C15", "break", [(AWQ, "            packed_col = unpacked[:, col * pack_num + order_map[i]].to(torch.int32)", "            packed_col = unpacked[:, col * pack_num + order_map[i]]")], "C15.R11"),
    M("c15-packv2-shift-unwidened", "C15", "break", [(AWQ, "    packed = packed.to(torch.int32)\n    packed = packed[..., 0] |", "    packed = packed[..., 0] |")], "C15.R11"),
    M("c15-refactor-pack-widen-int64", "C15", "refactor", [(AWQ, "            packed_col = unpacked[:, col * pack_num + order_map[i]].to(torch.int32)", "            packed_col = unpacked[:, col * pack_num + order_map[i]].to(torch.int64)")]),
    # ---------------- C12.R2 first-batch marker (finding F31 stays a known finding under re-spellings; a marker that is not the initial value is a break)
    M("c12-refactor-marker-method-form", "C12", "refactor", [(CAL, "    if torch.all(scale == 1):", "    if (scale == 1).all():")]),
    M("c12-marker-not-initial-value", "C12", "break", [(CAL, "    if torch.all(scale == 1):", "    if torch.all(scale == 0):")], "C12.R2"),
    M("c12-first-batch-flag-on-context", "C12", "break", [(CAL, "def _updated_scale(scale, new_scale, momentum):\n    if torch.all(scale == 1):", "def _updated_scale(scale, new_scale, momentum, first=False):\n    if first:"),
                                                          (CAL, "                module.input_scale = _updated_scale(module.input_scale, input_scale, self.momentum)", "                first = getattr(self, \"_seen_in\", None) is None\n                self._seen_in = True\n                module.input_scale = _updated_scale(module.input_scale, input_scale, self.momentum, first)")], "C12.R2"),
    # ---------------- C13.R1 re-entrancy (finding F32)
    M("c13-handles-in-plain-attributes-again", "C13", "break", [(CAL, "        self.hook_handles.append(\n            (\n                register_module_forward_pre_hook(self.calibrate_input),\n                register_module_forward_hook(self.calibrate_output),\n            )\n        )", "        self.pre_handle = register_module_forward_pre_hook(self.calibrate_input)\n        self.post_handle = register_module_forward_hook(self.calibrate_output)"),
                                                              (CAL, "        for handle in self.hook_handles.pop():\n            handle.remove()", "        self.pre_handle.remove()\n        self.post_handle.remove()")], "C13.R1"),
    M("c13-exit-drains-all-entries", "C13", "break", [(CAL, "        for handle in self.hook_handles.pop():\n            handle.remove()", "        while self.hook_handles:\n            for handle in self.hook_handles.pop():\n                handle.remove()")], "C13.R1"),
    M("c13-refactor-two-appends", "C13", "refactor", [(CAL, "        self.hook_handles.append(\n            (\n                register_module_forward_pre_hook(self.calibrate_input),\n                register_module_forward_hook(self.calibrate_output),\n            )\n        )", "        self.hook_handles.append(register_module_forward_pre_hook(self.calibrate_input))\n        self.hook_handles.append(register_module_forward_hook(self.calibrate_output))"),
                                                      (CAL, "        for handle in self.hook_handles.pop():\n            handle.remove()", "        self.hook_handles.pop().remove()\n        self.hook_handles.pop().remove()")]),
    M("c13-refactor-local-entry", "C13", "refactor", [(CAL, "        for handle in self.hook_handles.pop():\n            handle.remove()", "        handles = self.hook_handles.pop()\n        for handle in handles:\n            handle.remove()")]),
    # ---------------- C05.R17 (finding F33) and the per-axis operands of linear (finding F34)
    M("c05-neg-raw-payload-again", "C05", "break", [(OPS, "    data = torch.clamp(input._data, min=-torch.iinfo(input._data.dtype).max)\n    out_data = op(data, *args, **kwargs)", "    out_data = op(input._data, *args, **kwargs)")], "C05.R17"),
    M("c05-neg-clamp-wrong-bound", "C05", "break", [(OPS, "    data = torch.clamp(input._data, min=-torch.iinfo(input._data.dtype).max)", "    data = torch.clamp(input._data, min=torch.iinfo(input._data.dtype).min)")], "C05.R17"),
    M("c05-refactor-neg-clamp-method", "C05", "refactor", [(OPS, "    data = torch.clamp(input._data, min=-torch.iinfo(input._data.dtype).max)", "    data = input._data.clamp(min=-127)")]),
    M("c05-linear-weight-guard-dropped", "C05", "break", [("optimum/quanto/tensor/qtensor_func.py", "    if isinstance(other, QBytesTensor) and (other.ndim != 2 or other.axis not in (None, 0)):\n        other = other.dequantize()\n", "")], "C05.R14"),
    M("c07-linear-weight-guard-dropped", "C07", "break", [("optimum/quanto/tensor/qtensor_func.py", "    if isinstance(other, QBytesTensor) and (other.ndim != 2 or other.axis not in (None, 0)):\n        other = other.dequantize()\n", "")], "C07.R1"),
    M("c05-linear-input-guard-dropped", "C05", "break", [("optimum/quanto/tensor/qtensor_func.py", "    if isinstance(input, QBytesTensor) and input.axis is not None:\n        input = input.dequantize()\n", "")], "C05.R14"),
    M("c05-linear-weight-guard-wrong-axis", "C05", "break", [("optimum/quanto/tensor/qtensor_func.py", "(other.ndim != 2 or other.axis not in (None, 0))", "(other.ndim != 2 or other.axis in (None, 0))")], "C05.R14"),
    M("c05-refactor-linear-guards-merged", "C05", "refactor", [("optimum/quanto/tensor/qtensor_func.py", "    if isinstance(other, QBytesTensor) and (other.ndim != 2 or other.axis not in (None, 0)):\n        other = other.dequantize()\n", "    if isinstance(other, QBytesTensor) and not (other.ndim == 2 and other.axis in (None, 0)):\n        other = other.dequantize()\n")]),
    M("c11-refactor-linear-guards-merged", "C11", "refactor", [("optimum/quanto/tensor/qtensor_func.py", "    if isinstance(other, QBytesTensor) and (other.ndim != 2 or other.axis not in (None, 0)):\n        other = other.dequantize()\n", "    if isinstance(other, QBytesTensor) and not (other.ndim == 2 and other.axis in (None, 0)):\n        other = other.dequantize()\n")]),
    # ---------------- stride hazards (F35) and scale products (F36)
    M("c07-intmm-no-contiguous-again", "C07", "break", [("optimum/quanto/library/qbytes_mm.py", "    # torch._int_mm reads its operands as dense matrices: materialize expanded (stride 0) activations and weights\n    activations = activations.contiguous()\n", "")], "C07.R5"),
    M("c07-int8pack-no-contiguous-again", "C07", "break", [("optimum/quanto/library/qbytes_mm.py", "    # and contiguous activations and weights\n    activations = activations.contiguous()\n", "    # and contiguous activations and weights\n")], "C07.R5"),
    M("c07-mm-handler-no-contiguous-again", "C07", "break", [(OPS, "torch._int_mm(input._data.contiguous(), other._data.contiguous())", "torch._int_mm(input._data.contiguous(), other._data)")], "C07.R5"),
    M("c05-mm-handler-no-contiguous-again", "C05", "break", [(OPS, "torch._int_mm(input._data.contiguous(), other._data.contiguous())", "torch._int_mm(input._data, other._data.contiguous())")], "C05.R14"),
    M("c07-refactor-contiguous-after-reshape", "C07", "refactor", [("optimum/quanto/library/qbytes_mm.py", "    # torch._int_mm reads its operands as dense matrices: materialize expanded (stride 0) activations and weights\n    activations = activations.contiguous()\n", ""),
                                                                   ("optimum/quanto/library/qbytes_mm.py", "        out_data = torch._int_mm(activations, weights)\n", "        out_data = torch._int_mm(activations.contiguous(), weights)\n"),
                                                                   ("optimum/quanto/library/qbytes_mm.py", "        out_data = torch._int_mm(activations.reshape(-1, in_features), weights)\n", "        out_data = torch._int_mm(activations.reshape(-1, in_features).contiguous(), weights)\n")]),
    M("c07-linear-scale-product-fp16-again", "C07", "break", [("optimum/quanto/tensor/qtensor_func.py", "output_scales = input._scale.to(torch.float32) * other._scale.to(torch.float32)", "output_scales = input._scale * other._scale")], "C07.R10"),
    M("c07-bmm-scale-product-late-cast", "C07", "break", [(OPS, "    out_scale = input._scale.to(torch.float32) * other._scale.to(torch.float32)", "    out_scale = (input._scale * other._scale).to(torch.float32)")], "C07.R10"),
    M("c07-mm-one-factor-cast", "C07", "break", [(OPS, "fp32_output = input._scale.to(torch.float32) * other._scale.to(torch.float32) * out_data", "fp32_output = input._scale.to(torch.float32) * other._scale * out_data")], "C07.R10"),
    M("c07-refactor-scale-product-float", "C07", "refactor", [(OPS, "    out_scale = input._scale.to(torch.float32) * other._scale.to(torch.float32)", "    out_scale = torch.mul(input._scale.float(), other._scale.float())")]),
    # ---------------- C09.R9 (finding F37) and the rules written for the fifth round of seeded changes
    M("c09-output-scale-with-graph-again", "C09", "break", [(CAL, "            module.output_scale = _updated_scale(module.output_scale, output_scale, self.momentum).detach()", "            module.output_scale = _updated_scale(module.output_scale, output_scale, self.momentum)")], "C09.R9"),
    M("c09-refactor-scales-under-no-grad", "C09", "refactor", [(CAL, "            module.output_scale = _updated_scale(module.output_scale, output_scale, self.momentum).detach()", "            with torch.no_grad():\n                module.output_scale = _updated_scale(module.output_scale, output_scale, self.momentum)")]),
    M("c12-refactor-scales-under-no-grad", "C12", "refactor", [(CAL, "            module.output_scale = _updated_scale(module.output_scale, output_scale, self.momentum).detach()", "            module.output_scale = _updated_scale(module.output_scale, output_scale, self.momentum).detach().clone()")]),
    M("c03-ema-in-float32", "C03", "break", [(CAL, "    return momentum * scale + new_scale * (1.0 - momentum)", "    return momentum * scale.float() + new_scale.float() * (1.0 - momentum)")], "C03.R8"),
    M("c03-refactor-ema-cast-back", "C03", "refactor", [(CAL, "                module.input_scale = _updated_scale(module.input_scale, input_scale, self.momentum).detach()", "                module.input_scale = _updated_scale(module.input_scale, input_scale, self.momentum).detach().to(input.dtype)")]),
    M("c07-bmm-accumulates-in-half", "C07", "break", [(OPS, "    out_data = op(input._data.to(torch.float32), other._data.to(torch.float32))", "    out_data = op(input._data.to(torch.float16), other._data.to(torch.float16))")], "C07.R3"),
    M("c05-bmm-accumulates-in-bfloat16", "C05", "break", [(OPS, "    out_data = op(input._data.to(torch.float32), other._data.to(torch.float32))", "    out_data = op(input._data.to(torch.bfloat16), other._data.to(torch.bfloat16))")], "C05.R15"),
    M("c07-refactor-bmm-float-method", "C07", "refactor", [(OPS, "    out_data = op(input._data.to(torch.float32), other._data.to(torch.float32))", "    out_data = op(input._data.float(), other._data.float())")]),
    M("c04-unpack-memoised", "C04", "break", [("optimum/quanto/library/python/unpack.py", "@torch.library.impl(\"quanto_py::unpack\", \"default\")", "_CACHE = {}\n\n\n@torch.library.impl(\"quanto_py::unpack\", \"default\")"),
                                              ("optimum/quanto/library/python/unpack.py", "    return torch.cat(unpacked).to(torch.uint8)", "    return _CACHE.setdefault((tuple(packed.shape), bits), torch.cat(unpacked).to(torch.uint8))")], "C04.R7"),
    M("c04-pack-writes-into-source", "C04", "break", [("optimum/quanto/tensor/qbits/packed.py", "    unpacked = intweights.to(torch.uint8)\n", "    unpacked = intweights.to(torch.uint8)\n    intweights[row_dim:] |= 0\n")], "C04.R7"),
    # ---------------- rules of the fifth round: requantize (F40), frozen predicate, gradient mode, hook keywords, AWQ flatten, scale bound
    M("c10-requantize-activations-none-again", "C10", "break", [("optimum/quanto/quantize.py", "    activations = qint8\n", "    activations = None\n")], "C10.R7"),
    M("c10-requantize-all-modules-again", "C10", "break", [("optimum/quanto/quantize.py", "    quantize(model, modules=modules, activations=activations)", "    quantize(model, activations=activations)")], "C10.R7"),
    M("c10-refactor-requantize-modules-names", "C10", "refactor", [("optimum/quanto/quantize.py", "    modules = [m for name, m in model.named_modules() if f\"{name}.weight_qtype\" in state_dict]", "    modules = [submodule for n, submodule in model.named_modules() if (n + \".weight_qtype\") in state_dict]")]),
    M("c10-frozen-flag", "C10", "break", [(QMOD, "        return isinstance(self.weight, QTensor)\n", "        return getattr(self, \"_frozen\", False)\n")], "C10.R2"),
    M("c10-refactor-frozen-type-test", "C10", "refactor", [(QMOD, "        return isinstance(self.weight, QTensor)\n", "        return isinstance(self.weight, (QTensor,))\n")]),
    M("c11-hook-under-no-grad", "C11", "break", [(CAL, "    def calibrate_output(\n", "    @torch.no_grad()\n    def calibrate_output(\n")], "C11.R6"),
    M("c11-hook-output-detached", "C11", "break", [(CAL, "            output = module.forward(input[0])\n", "            output = module.forward(input[0]).detach()\n")], "C11.R6"),
    M("c11-from-module-requires-grad", "C11", "break", [(QMOD, "        return qmodule.to(module.weight.device)", "        qmodule.requires_grad_(module.weight.requires_grad)\n        return qmodule.to(module.weight.device)")], "C11.R9"),
    M("c13-hook-with-kwargs", "C13", "break", [(CAL, "register_module_forward_hook(self.calibrate_output),", "register_module_forward_hook(self.calibrate_output, with_kwargs=True),")], "C13.R1"),
    M("c15-awqbits-inherits-reader", "C15", "break", [("optimum/quanto/tensor/qbits/awq/qbits.py", "    @staticmethod\n    def __tensor_unflatten__(", "    @staticmethod\n    def _unused_tensor_unflatten(")], "C15.R13"),
    M("c15-packing-written-as-str-again", "C15", "break", [("optimum/quanto/tensor/qbits/awq/packed.py", "            \"packing\": self._packing.name,", "            \"packing\": str(self._packing),")], "C15.R13"),
    M("c06-packing-written-as-str-again", "C06", "break", [("optimum/quanto/tensor/qbits/awq/packed.py", "            \"packing\": self._packing.name,", "            \"packing\": str(self._packing),")], "C06.R5"),
    M("c15-refactor-packing-by-value", "C15", "refactor", [("optimum/quanto/tensor/qbits/awq/packed.py", "            \"packing\": self._packing.name,", "            \"packing\": str(self._packing.value),"),
                                                           ("optimum/quanto/tensor/qbits/awq/packed.py", "        packing = AWQPacking[meta[\"packing\"]]", "        packing = AWQPacking(ast.literal_eval(meta[\"packing\"]))")]),
    M("c16-refactor-scale-bounded", "C16", "refactor", [("optimum/quanto/tensor/optimizers/absmax_optimizer.py", "        return rmax / qmax", "        return torch.clamp(rmax / qmax, max=torch.finfo(base.dtype).max / qmax)")]),
    M("c09-maxopt-single-dim", "C09", "break", [("optimum/quanto/tensor/optimizers/max_optimizer.py", "        dim = list(range(1, base.ndim)) if (axis == 0) else list(range(0, base.ndim - 1))", "        dim = -1 if (axis == 0) else 0")], "C09.R7"),
    M("c14-activation-scale-numel", "C14", "break", [("optimum/quanto/tensor/quantizers/symmetric.py", "scale.ndim > 0", "scale.numel() != 1")], "C14.R5"),
    # ---- findings of the defect-hunting round (F41, F43, F44, F45) re-introduced, and behaviour-preserving variants of the repairs
    M("c02-dequant-int8-again", "C02", "break", [("optimum/quanto/tensor/qbits/qbits.py", "shifted_data = unpacked.to(torch.int16) - t._zeropoint.to(torch.int16)", "shifted_data = unpacked.to(torch.int8) - t._zeropoint.to(torch.int8)")], "C02.R3"),
    M("c02-refactor-dequant-int32", "C02", "refactor", [("optimum/quanto/tensor/qbits/qbits.py", "shifted_data = unpacked.to(torch.int16) - t._zeropoint.to(torch.int16)", "shifted_data = unpacked.to(torch.int32) - t._zeropoint.to(torch.int32)")]),
    M("c14-affine-extent-guard-dropped", "C14", "break", [("optimum/quanto/tensor/quantizers/affine.py", "scale.ndim != base.ndim or scale.shape[axis] != base.shape[axis] or scale.numel() != base.shape[axis]", "scale.ndim != base.ndim or scale.numel() != base.shape[axis]")], "C14.R1"),
    M("c14-affine-zeropoint-guard-dropped", "C14", "break", [("optimum/quanto/tensor/quantizers/affine.py", "            if zeropoint.shape != scale.shape:\n                raise ValueError(\"The zeropoint must have the same shape as the scale\")\n", "")], "C14.R1"),
    M("c14-affine-guard-raises-runtimeerror", "C14", "break", [("optimum/quanto/tensor/quantizers/affine.py", "                raise ValueError(\"The zeropoint must have the same shape as the scale\")", "                raise RuntimeError(\"The zeropoint must have the same shape as the scale\")")], "C14.R2"),
    M("c06-tocopy-int-dtype-to-scale-again", "C06", "break", [(OPS, "    if dtype is not None and (not dtype.is_floating_point or dtype.itemsize == 1):\n        # The scale cannot be converted to an integer or 8-bit float type: convert the dequantized values\n        return op(t.dequantize(), dtype=dtype, **kwargs)\n", "")], "C06.R4"),
    M("c06-tocopy-memory-format-to-scale-again", "C06", "break", [(OPS, "    out_scale = op(t._scale, dtype=dtype, **scale_kwargs)", "    out_scale = op(t._scale, dtype=dtype, **kwargs)")], "C06.R4"),
    M("c06-clone-memory-format-to-scale-again", "C06", "break", [(OPS, "    out_scale = op(t._scale)\n    return QBytesTensor(t.qtype, t.axis, t.size(), out_stride, out_data, out_scale)", "    out_scale = op(t._scale, memory_format=memory_format)\n    return QBytesTensor(t.qtype, t.axis, t.size(), out_stride, out_data, out_scale)")], "C06.R4"),
    M("c05-linear-rank1-weight-again", "C05", "break", [("optimum/quanto/tensor/qtensor_func.py", "(other.ndim != 2 or other.axis not in (None, 0))", "(other.axis is not None and (other.ndim != 2 or other.axis != 0))")], "C05.R14"),
    M("c07-intmm-weights-not-contiguous-again", "C07", "break", [("optimum/quanto/library/qbytes_mm.py", "    weights = weights.contiguous().t()", "    weights = weights.t()")], "C07.R5"),
    M("c07-int8pack-weights-not-contiguous-again", "C07", "break", [("optimum/quanto/library/qbytes_mm.py", "    activations = activations.contiguous()\n    weights = weights.contiguous()\n", "    activations = activations.contiguous()\n")], "C07.R5"),
    M("c07-cuda-route-asserts-rank-again", "C07", "break", [("optimum/quanto/library/qbytes_mm.py", "    in_features = activations.shape[-1]\n    # All the dimensions but the last one are batch dimensions", "    assert activations.ndim in (2, 3)\n    in_features = activations.shape[-1]\n    # All the dimensions but the last one are batch dimensions")], "C07.R5"),
    M("c05-div-rejects-rounding-mode-again", "C05", "break", [(OPS, "def div(op, input, other, rounding_mode=None):\n    if not is_scalar(other) or rounding_mode is not None:", "def div(op, input, other):\n    rounding_mode = None\n    if not is_scalar(other) or rounding_mode is not None:")], "C05.R19"),
    M("c05-refactor-div-kwargs", "C05", "refactor", [(OPS, "def div(op, input, other, rounding_mode=None):\n    if not is_scalar(other) or rounding_mode is not None:", "def div(op, input, other, **kwargs):\n    if not is_scalar(other) or kwargs.get(\"rounding_mode\") is not None:"),
                                                     (OPS, "        return qfallback(op, input, other, rounding_mode=rounding_mode)", "        return qfallback(op, input, other, **kwargs)")]),
    # ---- findings of the second defect hunt (F58-F62) re-introduced
    M("c05-view-dtype-on-codes-again", "C05", "break", [(OPS, "    if len(shape) == 1 and isinstance(shape[0], torch.dtype):\n        # view(dtype) reinterprets the bytes of a tensor: it cannot be applied to the codes\n        return qfallback(op, input, *shape)\n", "")], "C05.R20"),
    M("c05-copy-unbroadcast-source-again", "C05", "break", [(OPS, "SymmetricQuantizer.apply(src.expand(dest.size()), dest.qtype, dest.axis, dest._scale)", "SymmetricQuantizer.apply(src, dest.qtype, dest.axis, dest._scale)")], "C05.R18"),
    M("c05-refactor-copy-expand-as", "C05", "refactor", [(OPS, "SymmetricQuantizer.apply(src.expand(dest.size()), dest.qtype, dest.axis, dest._scale)", "SymmetricQuantizer.apply(src.expand(dest.shape), dest.qtype, dest.axis, dest._scale)")]),
    M("c06-tocopy-float8-to-scale-again", "C06", "break", [(OPS, "(not dtype.is_floating_point or dtype.itemsize == 1)", "(not dtype.is_floating_point)")], "C06.R4"),
    M("c06-qbits-tocopy-memory-format-to-scale-again", "C06", "break", [(QBOPS, "    scale = op(t._scale, dtype=dtype, device=device, **scale_kwargs)", "    scale = op(t._scale, dtype=dtype, device=device, **kwargs)")], "C06.R4"),
    M("c15-awq-zeropoint-narrow-again", "C15", "break", [("optimum/quanto/tensor/qbits/awq/qbits.py", "(-zeropoint.to(scale.dtype) * scale)", "(-zeropoint * scale)")], "C15.R5"),
    # ---- platform preconditions of the CPU routes (F19, F20, F63), re-introduced, and behaviour-preserving variants
    M("c07-int8pack-weights-unaligned-again", "C07", "break", [(MM, "    if weights.data_ptr() % 16 != 0:\n        weights = weights.clone()\n", "")], "C07.R5"),
    M("c07-int8pack-activations-unaligned-again", "C07", "break", [(MM, "    if activations.data_ptr() % 16 != 0:\n        activations = activations.clone()\n", "")], "C07.R5"),
    M("c07-int8pack-realign-with-contiguous", "C07", "break", [(MM, "    if weights.data_ptr() % 16 != 0:\n        weights = weights.clone()\n", "    if weights.data_ptr() % 16 != 0:\n        weights = weights.contiguous()\n")], "C07.R5"),
    M("c07-refactor-int8pack-align-64", "C07", "refactor", [(MM, "    if weights.data_ptr() % 16 != 0:\n        weights = weights.clone()\n", "    if weights.data_ptr() % 64 != 0:\n        weights = weights.clone()\n")]),
    M("c07-refactor-int8pack-always-clone", "C07", "refactor", [(MM, "    if weights.data_ptr() % 16 != 0:\n        weights = weights.clone()\n", "    weights = weights.clone()\n")]),
    M("c07-cpu-int8pack-mod4-again", "C07", "break", [(MM, "        and in_features % 16 == 0\n", "        and in_features % 4 == 0\n")], "C07.R5"),
    M("c08-cpu-int8pack-mod4-again", "C08", "break", [(MM, "        and in_features % 16 == 0\n", "        and in_features % 4 == 0\n")], "C08.R8"),
    M("c07-cpu-int-mm-inner-one-again", "C07", "break", [(MM, "        # torch._int_mm returns wrong sums on CPU when the inner dimension is one\n        and in_features > 1\n", "")], "C07.R5"),
    M("c07-refactor-cpu-int-mm-inner-ge2", "C07", "refactor", [(MM, "        and in_features > 1\n", "        and in_features >= 2\n")]),
    M("c07-refactor-cpu-int8pack-mod32", "C07", "refactor", [(MM, "        and in_features % 16 == 0\n", "        and in_features % 32 == 0\n")]),
    # ---- round 6: in-place stores of the calibrated scales through a setter procedure keep the VALUES (C12 / C03 / C09 silent) and break C11 / are the store
    M("c12-refactor-scales-stored-in-place", "C12", "refactor", [(CAL, "def absmax_scale(base", "def _set_scale(scale, new_scale):\n    with torch.no_grad():\n        scale.copy_(new_scale)\n\n\ndef absmax_scale(base"),
     (CAL, "                module.input_scale = torch.max(input._scale).detach()", "                _set_scale(module.input_scale, torch.max(input._scale))"),
     (CAL, "                module.input_scale = _updated_scale(module.input_scale, input_scale, self.momentum).detach()", "                _set_scale(module.input_scale, _updated_scale(module.input_scale, input_scale, self.momentum))"),
     (CAL, "            module.output_scale = _updated_scale(module.output_scale, output_scale, self.momentum).detach()", "            _set_scale(module.output_scale, _updated_scale(module.output_scale, output_scale, self.momentum))")]),
    M("c03-refactor-scales-stored-in-place", "C03", "refactor", [(CAL, "def absmax_scale(base", "def _set_scale(scale, new_scale):\n    with torch.no_grad():\n        scale.copy_(new_scale)\n\n\ndef absmax_scale(base"),
     (CAL, "                module.input_scale = torch.max(input._scale).detach()", "                _set_scale(module.input_scale, torch.max(input._scale))"),
     (CAL, "                module.input_scale = _updated_scale(module.input_scale, input_scale, self.momentum).detach()", "                _set_scale(module.input_scale, _updated_scale(module.input_scale, input_scale, self.momentum))"),
     (CAL, "            module.output_scale = _updated_scale(module.output_scale, output_scale, self.momentum).detach()", "            _set_scale(module.output_scale, _updated_scale(module.output_scale, output_scale, self.momentum))")]),
    M("c09-refactor-scales-stored-in-place", "C09", "refactor", [(CAL, "def absmax_scale(base", "def _set_scale(scale, new_scale):\n    with torch.no_grad():\n        scale.copy_(new_scale)\n\n\ndef absmax_scale(base"),
     (CAL, "                module.input_scale = torch.max(input._scale).detach()", "                _set_scale(module.input_scale, torch.max(input._scale))"),
     (CAL, "                module.input_scale = _updated_scale(module.input_scale, input_scale, self.momentum).detach()", "                _set_scale(module.input_scale, _updated_scale(module.input_scale, input_scale, self.momentum))"),
     (CAL, "            module.output_scale = _updated_scale(module.output_scale, output_scale, self.momentum).detach()", "            _set_scale(module.output_scale, _updated_scale(module.output_scale, output_scale, self.momentum))")]),
    M("c11-scales-stored-in-place", "C11", "break", [(CAL, "def absmax_scale(base", "def _set_scale(scale, new_scale):\n    with torch.no_grad():\n        scale.copy_(new_scale)\n\n\ndef absmax_scale(base"),
     (CAL, "                module.input_scale = torch.max(input._scale).detach()", "                _set_scale(module.input_scale, torch.max(input._scale))"),
     (CAL, "                module.input_scale = _updated_scale(module.input_scale, input_scale, self.momentum).detach()", "                _set_scale(module.input_scale, _updated_scale(module.input_scale, input_scale, self.momentum))"),
     (CAL, "            module.output_scale = _updated_scale(module.output_scale, output_scale, self.momentum).detach()", "            _set_scale(module.output_scale, _updated_scale(module.output_scale, output_scale, self.momentum))")], "C11.R10"),
    M("c11-scale-buffer-mul-in-place", "C11", "break", [(CAL, "                module.input_scale = torch.max(input._scale).detach()", "                module.input_scale.mul_(0).add_(torch.max(input._scale).detach())")], "C11.R10"),
    M("c06-refactor-optimize-keywords", "C06", "refactor", [("optimum/quanto/tensor/qbits/qbits.py", "            self.size(),\n            self.stride(),\n            data,\n            self._scale,\n            self._zeropoint,\n            self.requires_grad,", "            size=self.size(),\n            stride=self.stride(),\n            data=data,\n            scale=self._scale,\n            zeropoint=self._zeropoint,\n            requires_grad=self.requires_grad,")]),
    M("c06-optimize-size-from-payload", "C06", "break", [("optimum/quanto/tensor/qbits/qbits.py", "            self.size(),\n            self.stride(),\n            data,", "            data.size(),\n            self.stride(),\n            data,")], "C06.R10"),
    M("c14-refactor-affine-size-one-remapped", "C14", "refactor", [("optimum/quanto/tensor/qweight.py", "    scale, zeropoint = optimizer(t, qtype.bits, axis, group_size)\n", "    if t.shape[axis] == 1:\n        # a single index along the axis: one group spanning the tensor is the same quantization\n        pass\n    scale, zeropoint = optimizer(t, qtype.bits, axis, group_size)\n")]),
]
