"""Mutation corpus for C07, C08, C09, C11."""
MM = "optimum/quanto/library/qbytes_mm.py"
FUNC = "optimum/quanto/tensor/qtensor_func.py"
OPS = "optimum/quanto/tensor/qbytes_ops.py"
QMOD = "optimum/quanto/nn/qmodule.py"
QLIN = "optimum/quanto/nn/qlinear.py"
QCONV = "optimum/quanto/nn/qconv2d.py"
QLN = "optimum/quanto/nn/qlayernorm.py"
QUANT = "optimum/quanto/quantize.py"
QBITS = "optimum/quanto/tensor/qbits/qbits.py"
QB = "optimum/quanto/tensor/qbytes.py"
SYM = "optimum/quanto/tensor/quantizers/symmetric.py"
AFF = "optimum/quanto/tensor/quantizers/affine.py"


def M(id, prop, kind, edits, rule=None):
    return {"id": id, "prop": prop, "kind": kind, "edits": edits, "rule": rule}


MUTANTS = [
    # ---------------- C07
    M("c07-scale-not-transposed", "C07", "break", [(MM, "torch.matmul(activations, weights.t()) * output_scales.flatten()", "torch.matmul(activations, weights.t()) * output_scales")], "C07.R1"),
    M("c07-weights-not-transposed", "C07", "break", [(MM, "torch.matmul(activations, weights.t())", "torch.matmul(activations, weights)")], "C07.R1"),
    M("c07-intmm-view", "C07", "break", [(MM, "out_data = torch._int_mm(activations.reshape(-1, in_features), weights)", "out_data = torch._int_mm(activations.reshape(-1, out_features), weights)")], "C07.R1"),
    M("c07-intmm-scale", "C07", "break", [(MM, "out_data.to(torch.float32) * output_scales.flatten()", "out_data.to(torch.float32) * output_scales")], "C07.R1"),
    M("c07-intmm-no-scale", "C07", "break", [(MM, "    fp32_output = out_data.to(torch.float32) * output_scales.flatten()\n", "    fp32_output = out_data.to(torch.float32)\n")], "C07.R2"),
    M("c07-int8pack-output-shape", "C07", "break", [(MM, "        output_shape = activations.shape[:-1] + (out_features,)\n        out_data = torch._weight_int8pack_mm", "        output_shape = activations.shape[:-1] + (in_features,)\n        out_data = torch._weight_int8pack_mm")], "C07.R1"),
    M("c07-linear-drops-act-scale", "C07", "break", [(FUNC, "torch.ops.quanto.qbytes_mm(input._data, other._data, output_scales).to(input._scale.dtype)", "torch.ops.quanto.qbytes_mm(input._data, other._data, other._scale)")], "C07.R2"),
    M("c07-linear-double-scale", "C07", "break", [(FUNC, "output = torch.ops.quanto.qbytes_mm(input, other._data, other._scale)", "output = torch.ops.quanto.qbytes_mm(input, other._data, other._scale) * other._scale.t()")], "C07.R2"),
    M("c07-linear-bias-before-scale", "C07", "break", [(FUNC, "                output = torch.ops.quanto.qbytes_mm(input, other._data, other._scale)\n", "                output = torch.matmul(input, other._data.to(input.dtype).t())\n                if bias is not None:\n                    output = output + bias\n                output = output * other._scale.t()\n                bias = None\n")], None),
    M("c07-linear-plain-no-t", "C07", "break", [(FUNC, "            output = torch.matmul(input, other.t())", "            output = torch.matmul(input, other)")], None),
    M("c07-mm-drop-axis-guard", "C07", "break", [(OPS, "            and input.axis in (None, 0)\n            and other.axis in (None, -1)\n", "")], "C07.R1"),
    M("c07-mm-rows-guard", "C07", "break", [(OPS, "            and n > 16\n", "")], "C07.R5"),
    M("c07-mm-scale-one", "C07", "break", [(OPS, "fp32_output = input._scale.to(torch.float32) * other._scale.to(torch.float32) * out_data", "fp32_output = input._scale.to(torch.float32) * out_data")], "C07.R2"),
    M("c07-bmm-axis-guard", "C07", "break", [(OPS, "    if not isinstance(other, QTensor) or input.axis is not None:", "    if not isinstance(other, QTensor):")], "C07.R1"),
    M("c07-cuda-threshold", "C07", "break", [(MM, "        and tokens > 16\n", "")], "C07.R5"),
    M("c07-cuda-mult", "C07", "break", [(MM, "        and in_features % 8 == 0\n", "")], "C07.R5"),
    M("c07-cpu-int-any-dtype", "C07", "break", [(MM, "        and activations.dtype == torch.int8\n        and weights.dtype == torch.int8\n        # torch._int_mm returns wrong sums on CPU", "        and weights.dtype == torch.int8\n        # torch._int_mm returns wrong sums on CPU")], "C07.R5"),
    M("c07-cpu-pack-quantized-act", "C07", "break", [(MM, "        if type(activations) != torch.Tensor:\n            activations = activations.dequantize()\n        return qbytes_int8pack_mm(activations, weights, output_scales)\n    return qbytes_mm(activations, weights, output_scales)\n\n\n@torch.library.impl(\"quanto_py::qbytes_mm\", \"MPS\")", "        return qbytes_int8pack_mm(activations, weights, output_scales)\n    return qbytes_mm(activations, weights, output_scales)\n\n\n@torch.library.impl(\"quanto_py::qbytes_mm\", \"MPS\")")], "C07.R5"),
    M("c07-default-no-promotion", "C07", "break", [(MM, "    if activations.dtype == torch.int8 or weights.dtype == torch.int8:\n        # If one of the terms is an int the matmul might overflow\n        mm_dtype = torch.float32\n", "")], "C07.R3"),
    M("c07-default-result-dtype", "C07", "break", [(MM, "    return outputs.to(output_scales.dtype)", "    return outputs")], "C07.R4"),
    M("c07-pertensor-pack-guard", "C07", "break", [(MM, "        # torch._weight_int8pack_mm expects one scale per output feature\n        and output_scales.numel() == weights.shape[0]\n", "")], "C07.R1"),
    M("c07-refactor-matmul-operator", "C07", "refactor", [(MM, "    outputs = torch.matmul(activations, weights.t()) * output_scales.flatten()", "    outputs = (activations @ weights.t()) * output_scales.flatten()")]),
    M("c07-refactor-scale-var", "C07", "refactor", [(FUNC, "                output_scales = input._scale.to(torch.float32) * other._scale.to(torch.float32)\n                output = torch.ops.quanto.qbytes_mm(input._data, other._data, output_scales).to(input._scale.dtype)", "                scales = input._scale.to(torch.float32) * other._scale.to(torch.float32)\n                output = torch.ops.quanto.qbytes_mm(input._data, other._data, scales).to(input._scale.dtype)")]),
    M("c07-fix-float8-promotion", "C07", "refactor", [(MM, "    if activations.dtype == torch.int8 or weights.dtype == torch.int8:\n        # If one of the terms is an int the matmul might overflow\n        mm_dtype = torch.float32\n", "    mm_dtype = torch.float32\n")]),
    # ---------------- C08
    M("c08-conv-dilation-dropped", "C08", "break", [(QCONV, "            dilation=module.dilation,\n", "")], "C08.R2"),
    M("c08-conv-groups-const", "C08", "break", [(QCONV, "            groups=module.groups,", "            groups=1,")], "C08.R2"),
    M("c08-conv-padding-mode", "C08", "break", [(QCONV, "            padding_mode=module.padding_mode,\n", "")], "C08.R2"),
    M("c08-linear-bias-true", "C08", "break", [(QLIN, "            module.bias is not None,", "            True,")], "C08.R2"),
    M("c08-ln-eps", "C08", "break", [(QLN, "            module.eps,", "            1e-5,")], "C08.R2"),
    M("c08-ln-swapped-args", "C08", "break", [(QLN, "return torch.nn.functional.layer_norm(input, self.normalized_shape, self.weight, self.bias, self.eps)", "return torch.nn.functional.layer_norm(input, self.normalized_shape, self.bias, self.weight, self.eps)")], "C08.R6"),
    M("c08-ln-created-without-acts", "C08", "break", [(QLN, "        if activations is None:\n            return None\n", "")], "C08.R1"),
    M("c08-linear-activations-dropped", "C08", "break", [(QLIN, "            activations=activations,\n", "")], "C08.R2"),
    M("c08-from-module-no-bias-copy", "C08", "break", [(QMOD, "            if module.bias is not None:\n                qmodule.bias.copy_(module.bias)\n", "")], "C08.R4"),
    M("c08-from-module-no-device", "C08", "break", [(QMOD, "        return qmodule.to(module.weight.device)", "        return qmodule")], "C08.R4"),
    M("c08-from-module-swapped", "C08", "break", [(QMOD, "        qmodule = cls.qcreate(module, weights, activations, optimizer)", "        qmodule = cls.qcreate(module, activations, weights, optimizer)")], "C08.R4"),
    M("c08-quantize-filter-inverted", "C08", "break", [(QUANT, "        if modules is not None and m not in modules:", "        if modules is not None and m in modules:")], "C08.R5"),
    M("c08-set-module-parent", "C08", "break", [(QUANT, '        parent_module_name = name[: name.rindex(".")]', '        parent_module_name = name[: name.index(".")]')], "C08.R5"),
    M("c08-forward-input-scale-swap", "C08", "break", [(QMOD, "            input = maybe_requantize(input, self.input_scale)", "            input = maybe_requantize(input, self.output_scale)")], "C08.R6"),
    M("c08-forward-output-not-quantized", "C08", "break", [(QMOD, "            else:\n                output = quantize_activation(output, qtype=self.activation_qtype, scale=self.output_scale)\n", "")], "C08.R6"),
    M("c08-requantize-ignores-axis", "C08", "break", [(QMOD, "            if t.qtype == self.activation_qtype and t.axis is None:", "            if t.qtype == self.activation_qtype:")], "C08.R6"),
    M("c08-qlinear-float-weight", "C08", "break", [(QLIN, "        return torch.nn.functional.linear(input, self.qweight, bias=self.bias)", "        return torch.nn.functional.linear(input, self.weight, bias=self.bias)")], "C08.R6"),
    M("c08-qconv-no-input-quant", "C08", "break", [(QCONV, "        if self.activation_qtype is not None and not isinstance(input, QBytesTensor):\n            # Quantize tensor to be able to take advantage of accelerated conv2d\n            input = quantize_activation(input, qtype=self.activation_qtype, scale=self.input_scale)\n", "")], "C08.R6"),
    M("c08-save-bias-unguarded", "C08", "break", [(QMOD, '        if self.bias is not None:\n            destination[prefix + "bias"] = self.bias if keep_vars else self.bias.detach()', '        destination[prefix + "bias"] = self.bias if keep_vars else self.bias.detach()')], "C08.R3"),
    M("c08-refactor-qcreate-keywords", "C08", "refactor", [(QLIN, "            module.in_features,\n            module.out_features,\n            module.bias is not None,", "            in_features=module.in_features,\n            out_features=module.out_features,\n            bias=module.bias is not None,")]),
    # ---------------- C09
    M("c09-freeze-requantize", "C09", "break", [(QMOD, "        qweight = self.qweight\n        if qweight is not None:\n            # Replace float weights by quantized weights\n            self.weight = torch.nn.Parameter(qweight, requires_grad=False)", "        if self.weight_qtype is not None:\n            # Replace float weights by quantized weights\n            self.weight = torch.nn.Parameter(quantize_weight(self.weight, qtype=self.weight_qtype, axis=0), requires_grad=False)")], None),
    M("c09-freeze-touches-bias", "C09", "break", [(QMOD, "            self.weight = torch.nn.Parameter(qweight, requires_grad=False)\n", "            self.weight = torch.nn.Parameter(qweight, requires_grad=False)\n            self.bias = None\n")], "C09.R1"),
    M("c09-qweight-requantize-frozen", "C09", "break", [(QMOD, "        if isinstance(self.weight, QTensor):\n            # Frozen QModule\n            return self.weight\n", "")], None),
    M("c09-qweight-group-size-none", "C09", "break", [(QMOD, "            group_size=self.weight_group_size,\n            optimizer=self.optimizer,", "            optimizer=self.optimizer,")], "C09.R3"),
    M("c09-qweight-axis", "C09", "break", [(QMOD, "            qtype=self.weight_qtype,\n            axis=0,", "            qtype=self.weight_qtype,\n            axis=-1,")], "C09.R3"),
    M("c09-module-freeze-only-linear", "C09", "break", [(QUANT, "        if isinstance(m, QModuleMixin):\n            m.freeze()", "        if isinstance(m, QModuleMixin) and m.weight_qtype is not None and m.activation_qtype is None:\n            m.freeze()")], "C09.R1"),
    M("c09-qbits-unpacked", "C09", "break", [(QBITS, "        if type(data) == torch.Tensor:\n            data = PackedTensor.pack(data, qtype.bits)\n", "")], "C09.R4"),
    M("c09-qbits-pack-4", "C09", "break", [(QBITS, "            data = PackedTensor.pack(data, qtype.bits)", "            data = PackedTensor.pack(data, 4)")], "C09.R4"),
    M("c09-create-swapped", "C09", "break", [(QBITS, "        return QBitsTensor(qtype, axis, group_size, size, stride, data, scale, zeropoint, requires_grad)", "        return QBitsTensor(qtype, axis, group_size, stride, size, data, scale, zeropoint, requires_grad)")], "C09.R4"),
    M("c09-qbytes-no-clone", "C09", "break", [(OPS, "@register_qbytestensor_op([torch.ops.aten.clone])\ndef clone(op, t, memory_format=torch.preserve_format):", "def clone(op, t, memory_format=torch.preserve_format):")], "C09.R5"),
    M("c09-refactor-freeze-inline", "C09", "refactor", [(QMOD, "        qweight = self.qweight\n        if qweight is not None:", "        if self.qweight is not None:\n            qweight = self.qweight")]),
    # ---------------- C11
    M("c11-quantizer-backward-scaled", "C11", "break", [(SYM, "        return gO, None, None, None, None", "        return gO * 1.0, None, None, None, None")], "C11.R1"),
    M("c11-dequantizer-backward-none", "C11", "break", [(QB, "        # For autograd, dequantization is a no-op\n        return gO", "        # For autograd, dequantization is a no-op\n        return None")], "C11.R1"),
    M("c11-affine-backward-arity", "C11", "break", [(AFF, "        return gO, None, None, None, None, None", "        return gO, None, None")], "C11.R1"),
    M("c11-dequantize-direct", "C11", "break", [(QB, "        return QBytesDequantizer.apply(self)", "        return QBytesDequantizer.forward(None, self)")], "C11.R1"),
    M("c11-bias-sum0", "C11", "break", [(FUNC, "            dim = tuple(range(gO.ndim - 1))", "            dim = (0,)")], "C11.R2"),
    M("c11-weight-grad-no-t", "C11", "break", [(FUNC, "gO.reshape(-1, out_features).t()", "gO.reshape(-1, out_features)")], "C11.R2"),
    M("c11-input-grad-t", "C11", "break", [(FUNC, "            input_gO = torch.matmul(gO, other)", "            input_gO = torch.matmul(gO, other.t())")], "C11.R2"),
    M("c11-needs-grad-swapped", "C11", "break", [(FUNC, "        if ctx.needs_input_grad[1]:", "        if ctx.needs_input_grad[2]:")], "C11.R2"),
    M("c11-return-order", "C11", "break", [(FUNC, "        return input_gO, other_gO, bias_gO", "        return other_gO, input_gO, bias_gO")], "C11.R2"),
    M("c11-saved-order", "C11", "break", [(FUNC, "        ctx.save_for_backward(input if ctx.needs_input_grad[1] else None, other)", "        ctx.save_for_backward(other, input if ctx.needs_input_grad[1] else None)")], "C11.R2"),
    M("c11-grad-factor", "C11", "break", [(FUNC, "            bias_gO = gO.sum(dim)", "            bias_gO = gO.sum(dim) * 2")], "C11.R2"),
    M("c11-qweight-cached", "C11", "break", [(QMOD, "    @property\n    def qweight(self):", "    @functools.cached_property\n    def qweight(self):")], "C11.R3"),
    M("c11-freeze-requires-grad", "C11", "break", [(QMOD, "            self.weight = torch.nn.Parameter(qweight, requires_grad=False)", "            self.weight = torch.nn.Parameter(qweight)")], "C11.R4"),
    M("c11-linear-dispatch-swapped", "C11", "break", [(FUNC, "    return QTensorLinear.apply(input, other, bias)", "    return QTensorLinear.apply(other, input, bias)")], "C11.R5"),
    M("c11-refactor-bias-dims", "C11", "refactor", [(FUNC, "            dim = tuple(range(gO.ndim - 1))\n            bias_gO = gO.sum(dim)", "            bias_gO = gO.sum(tuple(range(gO.ndim - 1)))")]),
    M("c11-refactor-weight-grad", "C11", "refactor", [(FUNC, "other_gO = torch.matmul(gO.reshape(-1, out_features).t(), input.reshape(-1, in_features))", "g2 = gO.reshape(-1, out_features)\n            i2 = input.reshape(-1, in_features)\n            other_gO = torch.matmul(g2.t(), i2)")]),
]
