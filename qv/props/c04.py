"""C04 - sub-byte packing is lossless, dense and identical across unpack kernels (structural clauses)."""
import ast
import os

from .. import native, rows
from ..core import AnalysisError, U, bind_call, path_facts, paths_of, positional_params
from ..registries import library
from ..rows import RT, RowError, RowInterp, RowUnknown

TITLE = "Sub-byte packing is lossless, dense, and identical across unpack kernels"

RULES = {
    "C04.R1": "sibling kernels: the field tables (mask, shift, output slot) of the Python fallback and of the C++/CUDA/MPS kernels are the bit fields [b*m, b*(m+1)) concatenated along dim 0 in the same order; switch(bits) routes 4->4-bit, 2->2-bit",
    "C04.R2": "pack layout (row mode, every row count R in the domain): every source row is stored exactly once, no lane is written twice, and unpack(pack(x))[:R] is the identity",
    "C04.R3": "density: the packed allocation has ceil(R / (8/bits)) rows, dtype uint8, and is the object returned",
    "C04.R4": "PackedTensor.pack records t.size(), t.stride(); unpack slices to self.shape[0]",
    "C04.R5": "dispatch: every path of PackedTensor.__torch_dispatch__ re-wraps op(t._data, ...) with unchanged bits/size/stride (detach, _to_copy/to with the dtype refusal) or maps unpack over args and kwargs before calling op",
    "C04.R7": "packing and unpacking are functions of their arguments: neither the packer nor the python unpack fallback (nor anything they call) writes or consults module-level mutable state, and the packer never writes into its argument (a cached output buffer makes two live results share memory; an in-place OR into a slice of the source destroys the tensor being packed)",
    "C04.R6": "router: define().impl forwards *args, **kwargs to quanto_ext then quanto_py",
    "C04.R7": "every unpack registration passes (t, bits) in order",
}


def run(chk):
    for k, v in RULES.items():
        chk.rule(k, v)
    repo = chk.repo
    mp, pw = repo.func("pack_weights")
    up_mi = next((m for m in repo.modules.values() if m.rel.endswith("library/python/unpack.py")), None)
    if up_mi is None or not isinstance(up_mi.defs.get("unpack"), ast.FunctionDef):
        raise AnalysisError("python unpack fallback not found")
    up = up_mi.defs["unpack"]
    tparam, bparam = positional_params(pw)[:2]
    uparam, ubits = positional_params(up)[:2]
    pure_packing(chk, [(mp, pw, "pack_weights"), (up_mi, up, "unpack (python)")])
    # ---- R1 field tables
    tables = {}
    for bits in (2, 4):
        n = 8 // bits
        packed = RT([frozenset({(bits * m, bits, m) for m in range(n)})])
        for mps in (False, True):
            try:
                res = RowInterp(up, {uparam: packed, ubits: bits}, mps).run()
            except RowError as e:
                chk.bad("C04.R1", f"{up_mi.rel}:{up.lineno}", "unpack (python)", f"python unpack bits={bits}", f"python unpack ({'mps' if mps else 'default'} branch, bits={bits}): {e}", f"every packed byte (bits={bits})")
                continue
            except RowUnknown as e:
                chk.unknown("C04.R1", f"{up_mi.rel}:{up.lineno}", f"python unpack: {e}")
                continue
            want = [frozenset({(0, bits, m)}) for m in range(n)]
            ok = isinstance(res, RT) and res.cells == want
            chk.require("C04.R1", f"{up_mi.rel}:{up.lineno}", ok, f"python unpack ({'mps' if mps else 'default'} branch, bits={bits}): output block m holds bits [{bits}m, {bits}(m+1)) shifted to bit 0, blocks concatenated along dim 0", "unpack (python)", f"python unpack field table bits={bits}{' mps' if mps else ''}",
                        f"every packed byte whose lane differs (bits={bits}): values restored to the wrong rows or with stray high bits")
        tables[("python", bits)] = [(((1 << bits) - 1) << (bits * m), bits * m, m) for m in range(n)]
    ext_dir = os.path.join(repo.root, "optimum/quanto/library/ext")
    n_native = 0
    for rel in ("cpp/unpack.cpp", "cuda/unpack.cu", "mps/unpack.mm"):
        path = os.path.join(ext_dir, rel)
        if not os.path.exists(path):
            chk.unknown("C04.R1", f"optimum/quanto/library/ext/{rel}", "native kernel source vanished")
            continue
        site = f"optimum/quanto/library/ext/{rel}"
        n_native += 1
        try:
            res, checks = native.analyse_file(path)
        except AnalysisError as e:
            chk.unknown("C04.R1", site, f"{rel}: {e}")
            res, checks = None, None
        if res is None:
            _contiguity_guard(chk, path, rel, site)
            continue
        chk.require("C04.R1", site, set(res) == {2, 4}, f"{rel}: switch(bits) routes {sorted(res)}", rel, "native routing", "unpack(t, bits) for an unrouted width")
        for bits, (fname, fl) in res.items():
            ok_name = str(bits) in fname
            chk.require("C04.R1", site, ok_name, f"{rel}: case {bits} -> {fname}", rel, f"native routing case {bits}", f"bits={bits} unpacked with the other width's kernel")
            want = tables.get(("python", bits))
            ok = want is not None and sorted(fl, key=lambda t: t[2]) == want
            chk.require("C04.R1", site, ok, f"{rel} {fname}: fields {[(hex(m), s, k) for m, s, k in fl]} == python fallback {[(hex(m), s, k) for m, s, k in (want or [])]}", rel, f"native field table {bits}-bit",
                        f"every byte on the device using this kernel (bits={bits}): the compiled route disagrees with the fallback")
        chk.require("C04.R1", site, checks["uint8_check"] and checks["default_throws"], f"{rel}: input dtype checked (uint8) and unknown widths rejected", rel, "native input checks", "a non-uint8 tensor or bits=8")
        _contiguity_guard(chk, path, rel, site)
    chk.floor("C04.R1", n_native, 3, "native kernel sources analysed")
    # ---- R2 / R3 row mode
    Rmax = 64 if chk.tier == "quick" else 1024
    n_inst = 0
    first_bad = {}
    for bits in (2, 4):
        per = 8 // bits
        for R in range(1, Rmax + 1):
            for mps in ((False, True) if R <= 16 else (False,)):
                src = RT.source(R, bits)
                tag = f"bits={bits}{' mps' if mps else ''}"
                try:
                    ri = RowInterp(pw, {tparam: src, bparam: bits}, mps)
                    packed = ri.run()
                    if not isinstance(packed, RT):
                        raise RowUnknown("pack_weights did not return a tensor")
                    rows_ = len(packed.cells)
                    want_rows = -(-R // per)
                    if rows_ != want_rows or packed.dtype != "uint8" or ri.alloc is not packed:
                        first_bad.setdefault(("C04.R3", tag), (R, f"pack_weights({tag}, R={R}) returns {rows_} rows of dtype {packed.dtype} (allocated object returned: {ri.alloc is packed}); dense storage needs {want_rows} uint8 rows"))
                    stored = sorted(r for c in packed.cells for _, _, r in c)
                    if stored != list(range(R)):
                        missing = sorted(set(range(R)) - set(stored))
                        first_bad.setdefault(("C04.R2", tag), (R, f"pack_weights({tag}, R={R}): rows {missing[:6]} are not stored (stored {len(stored)} of {R})"))
                        continue
                    un = RowInterp(up, {uparam: packed, ubits: bits}, mps).run()
                    un = un.slice(0, R)
                    if un.key() != src.key():
                        wrong = [i for i, (x, y) in enumerate(zip(un.cells, src.cells)) if x != y][:4]
                        first_bad.setdefault(("C04.R2", tag), (R, f"unpack(pack(x))[:R] differs from x for {tag}, R={R} at rows {wrong}"))
                        continue
                    n_inst += 1
                except RowError as e:
                    first_bad.setdefault(("C04.R2", tag), (R, f"pack/unpack ({tag}, R={R}): {e}"))
                except RowUnknown as e:
                    chk.unknown("C04.R2", f"{mp.rel}:{pw.lineno}", f"row-mode interpretation ({tag}, R={R}): {e}")
                    return
    for (rule, tag), (R, msg) in sorted(first_bad.items()):
        chk.bad(rule, f"{mp.rel}:{pw.lineno}", "pack_weights", f"{rule} {tag}", msg + f" (smallest failing row count in 1..{Rmax})", f"a tensor with {R} rows ({tag}); row counts with the same residue mod {8 // int(tag.split('=')[1].split()[0])} likewise")
    if not first_bad:
        chk.ok("C04.R2", f"{mp.rel}:{pw.lineno}", f"pack_weights/unpack: identity, every row stored once, no lane overlap for bits in (2,4), R in 1..{Rmax} ({n_inst} instances; trailing dims and contents symbolic)")
        chk.ok("C04.R3", f"{mp.rel}:{pw.lineno}", f"pack_weights allocates and returns ceil(R/(8/bits)) uint8 rows for every R in 1..{Rmax}")
    chk.extra["row_mode_instances"] = n_inst
    chk.extra["exhaustive"] = False
    # trailing shape of the allocation
    ok_shape = True
    detail = []
    for rest in ("rest", None):
        try:
            src = RT.source(5, 4)
            src.rest = rest
            ri = RowInterp(pw, {tparam: src, bparam: 4})
            out = ri.run()
            shp = getattr(out, "alloc_shape", None)
            want = (3, "rest") if rest is not None else (3,)
            detail.append(f"{'N-D' if rest else '1-D'} source -> allocation {shp}")
            if shp is None:
                ok_shape = None
                detail.append("the packer's result is not a fresh allocation (shape not tracked)")
            elif tuple(shp) != want:
                ok_shape = False
        except (RowError, RowUnknown) as e:
            ok_shape = None
            detail.append(str(e))
    if ok_shape is None:
        chk.unknown("C04.R3", f"{mp.rel}:{pw.lineno}", f"pack_weights allocation shape: {detail}")
    else:
        chk.require("C04.R3", f"{mp.rel}:{pw.lineno}", ok_shape, f"pack_weights keeps the trailing dims of the source in the allocation ({'; '.join(detail)})", "pack_weights", "trailing shape", "tensors of rank >= 2 (or vectors): payload allocated with another trailing shape")
    packed_tensor_rules(chk)
    router_rules(chk)
    chk.assume("a compiled kernel matches its source (sources are matched, not compiled)", "torch's bit operators on uint8 and slicing/cat along dim 0", "values fit in `bits` bits (precondition of the packer, established by the clamp of the affine quantizer: C02.R1)")


def _contiguity_guard(chk, path, rel, site):
    """A kernel that walks raw storage must refuse (or normalise) a strided input: tensor-level operators follow the strides by themselves."""
    import re as _re
    src_ = _re.sub(r"//[^\n]*|/\*.*?\*/", "", open(path, encoding="utf-8", errors="replace").read(), flags=_re.S)
    raw = bool(_re.search(r"\bdata_ptr\b|\bcontents\]|getMTLBufferStorage|\.storage\(\)", src_))
    guarded = bool(_re.search(r"is_contiguous\s*\(|\.contiguous\s*\(", src_))
    chk.require("C04.R1", site, (not raw) or guarded, f"{rel}: raw storage access = {raw}, contiguity checked or enforced = {guarded}", rel, "raw storage read without a contiguity guard",
                "a non-contiguous byte tensor (x.t(), x[:, 2:7], x[::3]) given to the compiled kernel: bytes are read in storage order, the result differs from the python fallback")


def pure_packing(chk, targets):
    from ..core import U
    from ..effects import EffectGraph
    g = EffectGraph(chk.repo)
    n = 0
    for mi, fn, name in targets:
        if id(fn) not in g.fns:
            chk.unknown("C04.R7", f"{mi.rel}:{fn.lineno}", f"{name}: not in the effect graph")
            continue
        n += 1
        root = g.info(fn)
        ext = list(g.external_effects(root, set()))
        writes = [(e, f) for e, f, chain in ext if any(r.startswith("global:") for r in e.roots)]
        params = {a.arg for a in fn.args.args}
        arg_writes = [(e, f) for e, f, chain in ext if f.fn is fn and any(r.startswith("param:") for r in e.roots) and e.kind in ("inplace", "substore", "augstore")] if ext and hasattr(ext[0][0], "kind") else []
        reads_state = []
        for f in g.reachable(root):
            for nd in ast.walk(f.fn):
                if isinstance(nd, ast.Name) and isinstance(nd.ctx, ast.Load):
                    v = f.mi.defs.get(nd.id)
                    if isinstance(v, (ast.Dict,)) or (isinstance(v, ast.Call) and U(v.func) in ("dict", "list", "set", "defaultdict", "OrderedDict")) or (isinstance(v, ast.List) and not v.elts):
                        reads_state.append(nd.id)
        bad = sorted({e.text for e, _ in writes} | set(reads_state))
        chk.require("C04.R7", f"{mi.rel}:{fn.lineno}", not bad, f"{name}: no module-level mutable state involved ({bad})", name, "packing function uses module-level state",
                    "two unpack results alive at once (one op on two packed tensors of the same shape): both are the same buffer, so `p2 - p1` is zero")
        chk.require("C04.R7", f"{mi.rel}:{fn.lineno}", not arg_writes, f"{name}: never writes into its argument ({[e.text for e, _ in arg_writes][:3]})", name, "packing function writes into its argument",
                    "bits=4 and an odd number of rows: the last incomplete block is OR-ed in place into a slice of the source, which no longer holds the values that were packed")
    chk.floor("C04.R7", n, 2, "packing functions checked for purity")


def packed_tensor_rules(chk):
    repo = chk.repo
    ci = repo.cls("PackedTensor")
    mi = ci.mod
    pack = ci.own("pack")
    t = positional_params(pack)[1]
    for p in paths_of(pack):
        if p.end[0] == "return":
            e = U(p.end[1])
            ok = e == f"PackedTensor(pack_weights({t}, bits), bits, {t}.size(), {t}.stride())"
            chk.require("C04.R4", f"{mi.rel}:{p.end[2]}", ok, f"PackedTensor.pack -> `{e}`", "PackedTensor.pack", "pack records geometry", "any packed tensor: unpack cannot restore the shape")
    # assert conditions as the path engine sees them (private module constants resolved, canonical spelling)
    asserts = [U(ef[1]) for p_ in paths_of(pack) for ef in p_.effects if ef[0] == "assert"] + [U(a.test) for a in ast.walk(pack) if isinstance(a, ast.Assert)]
    chk.require("C04.R4", f"{mi.rel}:{pack.lineno}", "bits in (2, 4)" in asserts and f"{t}.dtype == torch.uint8" in asserts, f"PackedTensor.pack asserts bits in (2, 4) and a uint8 source ({asserts})", "PackedTensor.pack", "pack preconditions", "bits=8 or a signed source")
    unp = ci.own("unpack")
    for p in paths_of(unp):
        if p.end[0] == "return":
            e = U(p.end[1])
            ok = e == "torch.ops.quanto.unpack(self._data, self._bits)[:self.shape[0]]"
            chk.require("C04.R4", f"{mi.rel}:{p.end[2]}", ok, f"PackedTensor.unpack -> `{e}`", "PackedTensor.unpack", "unpack slices the padding rows", "a row count that is not a multiple of 8/bits: extra rows appear")
    # dispatch
    disp = ci.own("__torch_dispatch__")
    ps_ = positional_params(disp)
    op, args, kwargs = ps_[1], ps_[3], ps_[4]
    n = 0
    for p in paths_of(disp):
        site = f"{mi.rel}:{p.end[2]}"
        f = path_facts(p)
        if p.end[0] == "raise":
            # "any tensor operation applied to a packed tensor acts on its unpacked values": a conversion to another dtype is such an operation
            # (it leaves the packed form: the generic route below serves it), so the dispatch refuses nothing
            chk.bad("C04.R5", site, "PackedTensor.__torch_dispatch__", "dispatch refusal", f"NOT: PackedTensor.__torch_dispatch__ raises `{U(p.end[1])[:50]}` on the path [{' & '.join(p.cond_texts())[:70]}] instead of applying the operation to the unpacked values",
                    "p.float(), p.long(), p.to(torch.int32), p.type_as(x) or torch.arange(16)[p.long()] on a packed tensor: ValueError, while p + 0.0 returns the unpacked values")
            continue
        if p.end[0] != "return":
            continue
        n += 1
        e = p.end[1]
        from ..core import CanonStr
        et = CanonStr(U(e).replace("torch.utils._pytree.", "pytree."))
        if et.startswith("PackedTensor("):
            b_ = bind_call(repo.method(ci, "__init__")[1], e, skip_first=1)
            a = [U(b_[k_]) for k_ in ("data", "bits", "size", "stride")] if b_ else [U(x) for x in e.args]
            t0 = f"{args}[0]"
            # the ops this path serves: `op.overloadpacket is X` / `op.overloadpacket in (X, Y)`; an op that copies or aliases the values without
            # options that concern the packed data (detach; clone, whose memory_format describes the unpacked tensor) may drop the keywords,
            # a move may not (the device travels in them)
            served = set()
            for a_, v_ in f.items():
                if v_ is True and a_.startswith(f"{op}.overloadpacket is "):
                    served.add(a_.split(" is ", 1)[1])
                elif v_ is True and a_.startswith(f"{op}.overloadpacket in "):
                    served.update(x_.strip() for x_ in a_.split(" in ", 1)[1].strip("()[] ").split(","))
                elif v_ is True and a_.startswith(f"{op}.overloadpacket == "):
                    served.add(a_.split(" == ", 1)[1])
            is_detach = bool(served) and served <= {"torch.ops.aten.detach", "torch.ops.aten.clone", "torch.ops.aten.alias"}
            ok = a[1:] == [f"{t0}._bits", f"{t0}.size()", f"{t0}.stride()"] and (a[0] == f"{op}({t0}._data, **{kwargs})" or (is_detach and a[0] == f"{op}({t0}._data)"))
            chk.require("C04.R5", site, ok, f"PackedTensor dispatch ({'detach' if is_detach else 'move'}): re-wraps `{a[0] if a else ''}` with unchanged bits/size/stride", "PackedTensor.__torch_dispatch__", "dispatch re-wrap", "detach / device move of a packed tensor changes its bit width or geometry")
        else:
            # an op that writes into its operand (zero_, fill_, copy_, out=) run on the unpacked temporary is silently lost
            refuses_mut = any(("is_mutable" in U(c_) or "endswith('_')" in U(c_) or 'endswith("_")' in U(c_)) for c_, t_, _ in p.conds) or any("is_mutable" in U(x_) for x_ in ast.walk(disp) if isinstance(x_, ast.Attribute))
            chk.require("C04.R5", site, refuses_mut, "PackedTensor dispatch (other ops): mutating ops are refused or written back (they would act on the unpacked temporary only)", "PackedTensor.__torch_dispatch__", "mutating ops act on a temporary",
                        "p.zero_(), p.fill_(3), p.copy_(t), p[0] = 0 or torch.add(a, b, out=p) on a PackedTensor: they return p without error and p.unpack() is unchanged")
            wm = f"pytree.tree_map_only(PackedTensor, lambda x: x.unpack(), ({args}, {kwargs} or {{}}))"
            ok = et == f"{op}(*{wm}[0], **{wm}[1])"
            chk.require("C04.R5", site, ok, f"PackedTensor dispatch (other ops): unpack mapped over args and kwargs, then op called: `{et[:100]}`", "PackedTensor.__torch_dispatch__", "dispatch unpacks args and kwargs", "an op receiving a packed tensor by keyword (or in a list) acts on the packed bytes")
    chk.floor("C04.R5", n, 3, "PackedTensor dispatch paths")


def router_rules(chk):
    repo = chk.repo
    mi, define = repo.func("define")
    name = positional_params(define)[0]
    impl = next((n for n in ast.walk(define) if isinstance(n, ast.FunctionDef) and n is not define), None)
    if impl is None:
        chk.unknown("C04.R6", f"{mi.rel}:{define.lineno}", "router implementation not found")
        return
    va, kw = impl.args.vararg, impl.args.kwarg
    ok_sig = va is not None and kw is not None
    deco = [U(d) for d in impl.decorator_list]
    ok_deco = deco == [f"torch.library.impl(f'quanto::{{{name}}}', 'default')"]
    want_ext = f"getattr(torch.ops.quanto_ext, {name})(*{va.arg}, **{kw.arg})" if ok_sig else ""
    want_py = f"getattr(torch.ops.quanto_py, {name})(*{va.arg}, **{kw.arg})" if ok_sig else ""
    # path view: ext call exactly when extensions are enabled and nothing was raised; python call on every other path; no path re-raises
    ps = paths_of(impl)
    texts = []
    ok = ok_sig and bool(ps)
    n_ext = n_rec = n_off = 0
    for p in ps:
        if p.end[0] != "return" or p.end[1] is None:
            ok = False
            continue
        t = U(p.end[1])
        texts.append(str(t))
        en = path_facts(p).get("_ext_enabled")
        raised = any(U(c).startswith("__raised__(") and tr for c, tr, _ in p.conds)
        caught_all = any(U(c).startswith("__raised__('Exception'") or U(c).startswith("__raised__('BaseException'") for c, tr, _ in p.conds if tr)
        if en is True and not raised:
            n_ext += 1
            ok = ok and t == want_ext
        elif en is True and raised:
            n_rec += 1
            ok = ok and t == want_py and caught_all
        elif en is False:
            n_off += 1
            ok = ok and t == want_py
        else:
            ok = False
    ok_try = n_rec >= 1
    guard = [1] if (n_ext >= 1 and n_off >= 1) else []
    texts = sorted(set(texts))
    chk.require("C04.R6", f"{mi.rel}:{impl.lineno}", ok and ok_try and len(guard) == 1 and ok_deco, f"router: quanto::<op> tries quanto_ext::<op>(*args, **kwargs) when extensions are enabled, falls back to quanto_py::<op>(*args, **kwargs) (returns {texts})", "define.impl", "router forwarding", "any torch.ops.quanto call: arguments dropped, or an extension failure is not recovered by the python implementation")
    libs = [n for n in ast.walk(define) if isinstance(n, ast.For)]
    it = libs[0].iter if libs else None
    if isinstance(it, ast.Name):
        from ..core import module_lookup
        it = module_lookup(define, it.id) or it
    ok_libs = isinstance(it, (ast.List, ast.Tuple)) and sorted(x.value for x in it.elts if isinstance(x, ast.Constant)) == ["quanto", "quanto_ext", "quanto_py"]
    if not libs:
        # the loop over a literal is unrolled at load time: one torch.library.define per library name
        import re
        names = []
        for n in ast.walk(define):
            if isinstance(n, ast.Call) and U(n.func) == "torch.library.define" and n.args:
                m_ = re.match(r"^f?['\"](quanto(?:_py|_ext)?)::", U(n.args[0]))
                if m_:
                    names.append(m_.group(1))
        ok_libs = sorted(names) == ["quanto", "quanto_ext", "quanto_py"]
    chk.require("C04.R6", f"{mi.rel}:{define.lineno}", ok_libs, "define() declares the op in quanto, quanto_py and quanto_ext", "define", "three libraries", "an op without a python or extension slot")
    _, impls = library(repo)
    n = 0
    for li in impls:
        if not li.qualname.endswith("::unpack"):
            continue
        n += 1
        ps_ = positional_params(li.fn)
        ok_sig = len(ps_) == 2
        if li.qualname.startswith("quanto_ext::"):
            rets = [U(r.value) for r in ast.walk(li.fn) if isinstance(r, ast.Return)]
            ok = ok_sig and rets == [f"ext.lib.unpack({ps_[0]}, {ps_[1]})"]
            chk.require("C04.R7", f"{li.mi.rel}:{li.fn.lineno}", ok, f"{li.fn.name} [{'/'.join(li.keys)}] -> {rets}", li.fn.name, f"unpack registration {li.fn.name}", "unpack on that device: bits and tensor swapped or a constant width")
        else:
            chk.require("C04.R7", f"{li.mi.rel}:{li.fn.lineno}", ok_sig and li.keys == ["default"], f"python unpack registered for quanto_py::unpack [default] with (packed, bits)", li.fn.name, "python unpack registration", "extensions disabled / unavailable: no fallback")
    chk.floor("C04.R7", n, 4, "unpack registrations")
