"""C02 - int2/int4 affine quantization error is at most half a step per group (structural clauses)."""
import ast

from .. import quant, scales
from ..core import strip_noop_calls, AnalysisError, U, bind_call, fold_int, inline, path_facts, paths_of, positional_params

TITLE = "int2/int4 affine quantization error is at most half a step per group"

RULES = {
    "C02.R1": "pipeline typestate: payload = CAST(uint8) . CLAMP(0, 2**qtype.bits - 1) . ADD(ROUND(DIV(base', scale)), zeropoint), base' = group(base, axis, group_size) exactly when group_size is not None",
    "C02.R2": "size/stride are captured before grouping (the result has the original shape)",
    "C02.R3": "dequantizer: scale * (int8(unpack(data)) - int8(zeropoint)), then ungroup(., axis=t.axis, orig_shape=t.shape) on every per-axis path",
    "C02.R4": "group / ungroup are inverse layouts for axis 0 and -1 (digit-layout interpretation, symbolic sizes)",
    "C02.R5": "narrowing casts: the zero-point cast to int8 and the int8 subtraction stay in range, which needs zeropoint in [0, 2**bits - 1]",
    "C02.R10": "every weight shape is quantized: a quantization axis of size one (a single row, a single output channel) is not refused on the way from quantize_weight to the affine quantizer (rule C14.R6 re-checked)",
    "C02.R9": "quantizing and dequantizing are functions of their arguments alone: nothing reachable from dequantize() / the forward of a module writes state that a later call reads (rule C13.R3 re-checked: a memoised dequantization hands out a tensor its first caller may have modified)",
    "C02.R8": "no intermediate of the affine range / zero-point exceeds the extrema by construction (rule C16.R6): a float16 group with |min| of a few thousand must not overflow on the way to its zero-point",
    "C02.R7": "the codes survive storage: packing then unpacking the low-bit payload is lossless for every row count (rules C04.R1-R3, re-checked here)",
    "C02.R6": "zero inclusion: the range [rmin, rmax] used for scale and zero-point satisfies rmin <= 0 <= rmax",
}


def run(chk):
    for k, v in RULES.items():
        chk.rule(k, v)
    repo = chk.repo
    ci = repo.cls("AffineQuantizer")
    mi = ci.mod
    fwd = ci.own("forward")
    ps_ = positional_params(fwd)
    base, qt, axis, gs, scale, zp = ps_[1:7]
    fn = "AffineQuantizer.forward"
    n = 0
    for p in paths_of(fwd):
        if p.end[0] != "return":
            continue
        e = p.end[1]
        site = f"{mi.rel}:{p.end[2]}"
        if not (isinstance(e, ast.Call) and U(e.func) == "QBitsTensor.create"):
            chk.unknown("C02.R1", site, f"{fn} returns `{U(e)[:60]}`")
            continue
        f = bind_call(repo.cls("QBitsTensor").own("create"), e)
        n += 1
        facts = path_facts(p)
        grouped = facts.get(f"{gs} is None") is False
        stages = quant.peel(f["data"])
        names = quant.stage_names(stages)
        ok = True

        def bad(tag, detail, witness):
            nonlocal ok
            ok = False
            chk.bad("C02.R1", site, fn, tag, f"{fn} [{'grouped' if grouped else 'per-axis'}] payload `{U(f['data'])[:120]}`: {detail}", witness)

        want = ["cast", "clamp", "add", "round:nearest", "div"]
        if names[:5] != want:
            if "cast" not in names[:1]:
                bad("no final cast", f"stages {names}", "any input")
            elif "clamp" not in names:
                bad("no clamp", f"stages {names}: codes are not saturated to [0, 2**bits-1] before the cast", "values outside the group's range wrap around in uint8")
            elif names[1] != "clamp":
                bad("cast before clamp", f"stages {names}", "out-of-range values wrap instead of saturating")
            elif not any(nm.startswith("round") for nm in names):
                bad("no rounding", f"stages {names}: the cast truncates", "any fractional quotient >= .5")
            elif any(nm.startswith("round:") and nm != "round:nearest" for nm in names):
                bad("rounding mode", f"stages {names}", "any fractional quotient")
            elif "add" not in names:
                bad("zero-point not added", f"stages {names}", "any group that does not start at zero")
            elif names.index("add") > names.index("round:nearest"):
                bad("zero-point added before rounding", f"stages {names}: round(x/scale + zp) differs from round(x/scale) + zp only by ties, but the codes no longer match the dequantizer's integer subtraction at mid-points", "mid-point quotients")
            else:
                bad("stage order", f"stages {names}, expected {want}", "any input")
            continue
        cast, clamp, add, rnd, div = stages[:5]
        if U(cast[1]) != "torch.uint8":
            bad("cast target", f"cast to {U(cast[1])}", "any input")
        lo, hi = clamp[1], clamp[2]
        hi_v = {b: fold_int(hi, {f"{qt}.bits": b, "bits": b}) if hi is not None else None for b in (2, 4)}
        lo_ok = isinstance(lo, ast.Constant) and lo.value == 0
        hi_ok = hi is not None and all(hi_v[b] == 2 ** b - 1 for b in (2, 4)) and f"{qt}.bits" in U(hi)
        if not (lo_ok and hi_ok):
            bad("clamp bounds", f"clamp bounds (`{U(lo) if lo is not None else None}`, `{U(hi) if hi is not None else None}`) are not (0, 2**{qt}.bits - 1) [folded: {hi_v}]", "values at the top of the group's range: saturate one code early / overflow the bit width")
        if U(add[1]) != zp:
            bad("added term", f"`{U(add[1])}` is added instead of the zero-point `{zp}`", "any input")
        num, den = div[1], div[2]
        want_num = f"group({base}, axis={axis}, group_size={gs})" if grouped else base
        alt_num = f"group({base}, {axis}, {gs})" if grouped else base
        if U(num) not in (want_num, alt_num) or U(den) != scale:
            bad("division operands", f"divides `{U(num)[:60]}` by `{U(den)}`, expected {want_num} / {scale}", "grouped quantization: scale and values do not line up" if grouped else "any input")
        if ok:
            chk.ok("C02.R1", site, f"{fn} [{'grouped' if grouped else 'per-axis'}]: stages {names}, numerator `{U(num)[:50]}`")
        src = {k: U(v) for k, v in f.items()}
        chk.require("C02.R2", site, src["size"] in (f"{base}.size()", f"{base}.shape") and src["stride"] == f"{base}.stride()", f"{fn}: size/stride are those of the un-grouped source ({src['size']}, {src['stride']})", fn, "geometry before grouping", "grouped quantization: the tensor reports the grouped shape")
        okf = src["qtype"] == qt and src["axis"] == axis and src["group_size"] == gs and src["scale"] == scale and src["zeropoint"] == zp
        chk.require("C02.R2", site, okf, f"{fn}: qtype, axis, group_size, scale and zero-point are stored as given", fn, "stored fields", "any input: dequantization uses other parameters than quantization")
    chk.floor("C02.R1", n, 2, "affine quantizer return paths (grouped / per-axis)")
    dequantizer(chk)
    requested_config(chk, "C02.R1")
    optimizer_range(chk, "C02")
    if chk.pid == "C02":
        from ..report import AliasedCheck
        from . import c04, c16
        c16.overflow_rule(AliasedCheck(chk, {"C16.R6": "C02.R8"}))
        c04.run(AliasedCheck(chk, {"C04.R1": "C02.R7", "C04.R2": "C02.R7", "C04.R3": "C02.R7"}))
        # the bound holds for EVERY dequantization: the dequantizer is a function of the tensor alone (no cached result, no state written)
        from ..effects import EffectGraph
        from . import c13
        c13.inference_effects(AliasedCheck(chk, {"C13.R3": "C02.R9"}), EffectGraph(chk.repo))
        from . import c14
        c14.size_one_axis(AliasedCheck(chk, {"C14.R6": "C02.R10"}))
    from . import c04_layout
    c04_layout.group_ungroup(chk, "C02.R4")
    chk.assume("torch.round / clamp / to semantics; unpacked codes lie in [0, 2**bits - 1] (C04)")


def requested_config(chk, rule):
    """quantize_weight hands the caller's tensor, axis and group size unmodified to the affine optimizer and quantizer."""
    repo = chk.repo
    mi_q, qw = repo.func("quantize_weight")
    t, qt, ax, gs, opt = positional_params(qw)[:5]
    n = 0
    for p in paths_of(qw):
        if p.end[0] != "return" or path_facts(p).get(f"{qt}.bits == 8") is not False:
            continue
        n += 1
        e = strip_noop_calls(p.end[1]) if p.end[1] is not None else None  # detach / clone / contiguous of the scale do not change what is quantized
        site = f"{mi_q.rel}:{p.end[2]}"
        a = [U(x) for x in e.args] if isinstance(e, ast.Call) else []
        ok = U(e.func) == "AffineQuantizer.apply" and a[:4] == [t, qt, ax, gs] if isinstance(e, ast.Call) else False
        optcall = e.args[4].value if ok and isinstance(e.args[4], ast.Subscript) else None
        ok = ok and isinstance(optcall, ast.Call) and [U(x) for x in optcall.args] == [t, f"{qt}.bits", ax, gs]
        chk.require(rule, site, bool(ok), f"quantize_weight (low-bit) passes the requested (tensor, axis, group_size) unmodified to the optimizer and the quantizer: `{U(e)[:110]}`", "quantize_weight", "requested group size / axis honoured",
                    "a requested group size that the code rewrites (e.g. group_size equal to the last dimension of a rank-3 weight treated as per-axis): groups of different magnitude share one scale")
    chk.floor(rule, n, 1, "low-bit quantize_weight paths")


def dequantizer(chk):
    repo = chk.repo
    dq = repo.cls("QBitsDequantizer")
    fw = dq.own("forward")
    t = positional_params(fw)[1]
    n = 0
    for p in paths_of(fw):
        if p.end[0] != "return":
            continue
        n += 1
        facts = path_facts(p)
        e = p.end[1]
        site = f"{dq.mod.rel}:{p.end[2]}"
        per_tensor = facts.get(f"{t}.axis is None")
        core = e
        if per_tensor is False:
            ok = isinstance(e, ast.Call) and U(e.func) == "ungroup"
            b = None
            if ok:
                mi_u, ung = repo.func("ungroup")
                b = bind_call(ung, e)
                ok = b is not None and U(b["axis"]) == f"{t}.axis" and U(b["orig_shape"]) in (f"{t}.shape", f"{t}.size()")
                core = b["grouped"] if b else e
            chk.require("C02.R3", site, ok, f"dequantize (per-axis): result restored with ungroup(., axis={t}.axis, orig_shape={t}.shape)", "QBitsDequantizer.forward", "ungroup on per-axis path", "grouped tensors dequantize to the grouped shape / wrong axis")
        # a cast of the whole product to the dtype of the scale it already contains is the identity (float scale x integer codes)
        if isinstance(core, ast.Call) and isinstance(core.func, ast.Attribute) and core.func.attr == "to" and [U(a) for a in core.args] == [f"{t}._scale.dtype"] and not core.keywords \
                and isinstance(core.func.value, ast.BinOp) and isinstance(core.func.value.op, ast.Mult) and f"{t}._scale" in (U(core.func.value.left), U(core.func.value.right)):
            core = core.func.value
        txt = U(core)
        fpath = facts.get(f"{t}.qtype.is_floating_point")
        # codes lie in [0, 2**bits - 1] and the zero-point is an int8: the difference ranges over [-127, 143] and needs a signed type
        # wider than 8 bits (or the float dtype of the scale); uint8 wraps below zero, int8 wraps above 127 (zero-points below -112)
        WIDE = ("torch.int16", "torch.int32", "torch.int64", f"{t}._scale.dtype", "torch.float32")
        forms = {}
        for d_ in WIDE + ("torch.int8", "torch.uint8"):
            diff_ = f"{t}._data.unpack().to({d_}) - {t}._zeropoint.to({d_})"
            for w_ in (f"{t}._scale * ({diff_})", f"({diff_}) * {t}._scale", f"{t}._scale * ({diff_}).to({t}._scale.dtype)", f"({diff_}).to({t}._scale.dtype) * {t}._scale"):
                forms[w_] = d_
        d_used = forms.get(txt)
        if d_used is None and (txt.startswith(("torch.empty(", "torch.zeros(", "torch.empty_like(")) or (isinstance(core, ast.Call) and isinstance(core.func, ast.Name) and core.func.id.startswith("_"))):
            # an alternative route: the product is assembled by a helper into a buffer it allocated (slice by slice), next to the at-once route judged on
            # its own path - the loop is not followed
            chk.unknown("C02.R3", site, f"dequantize term: on the path [{' & '.join(p.cond_texts())[:70]}] the result is assembled into `{txt[:40]}` by an alternative (sliced) route: not followed")
            continue
        chk.require("C02.R3", site, d_used is not None, f"dequantize term: `{txt[:110]}` is scale * (codes - zeropoint)", "QBitsDequantizer.forward", "dequantize term", "any low-bit tensor: zero-point not subtracted, or the scale applied to the codes alone")
        if d_used is not None:
            chk.require("C02.R3", site, d_used in WIDE, f"dequantize: codes - zeropoint is formed in {d_used} (holds [-127, 143])", "QBitsDequantizer.forward", "zero-point subtracted in an 8-bit type",
                        "a group confined to [1.0, 1.125] (qint4): zero-point -120, codes 8..15 give code - zeropoint in 128..135, which wraps in int8: dequantized -1.05 instead of 1.1 (error 256 x scale)")
        if False:
            chk.require("C02.R3", site, True, "", "", "", "any low-bit tensor: zero-point not subtracted / subtracted in an unsigned type (wrap-around) / scale not applied")
    chk.floor("C02.R3", n, 2, "QBits dequantizer paths")


def optimizer_range(chk, pid):
    """R5/R6 (and C16.R2/R3): the affine optimizer's range includes zero, which bounds the zero-point."""
    repo = chk.repo
    mi_q, qw = repo.func("quantize_weight")
    default = mi_q.defs.get("default_affine_optimizer")
    if not (isinstance(default, ast.Call) and isinstance(default.func, ast.Name)):
        chk.unknown(f"{pid}.R6" if pid == "C02" else "C16.R2", mi_q.rel, "default affine optimizer not found")
        return
    oc = repo.cls(default.func.id, mi_q)
    m = repo.method(oc, "optimize")
    if m is None:
        chk.unknown(f"{pid}.R6" if pid == "C02" else "C16.R2", oc.mod.rel, "optimize not found")
        return
    oci, opt = m
    b, bits, ax = positional_params(opt)[1:4]
    r6 = "C02.R6" if pid == "C02" else "C16.R2"
    r5 = "C02.R5" if pid == "C02" else "C16.R3"
    qn = f"{oci.name}.optimize"
    for p in paths_of(opt):
        if p.end[0] != "return":
            continue
        e = p.end[1]
        site = f"{oci.mod.rel}:{p.end[2]}"
        if not (isinstance(e, ast.Tuple) and len(e.elts) == 2):
            chk.unknown(r6, site, f"{qn} does not return (scale, zeropoint)")
            continue
        sc, z = e.elts
        sc, floors = scales.peel_floor(sc)
        if floors:
            chk.bad(r6, site, qn, "scale has a lower bound", f"{qn}: the affine scale is floored ({floors}): a group whose range is below (2**bits - 1) x floor gets a step larger than (hi - lo)/(2**bits - 1)",
                    "half-precision weights with small-range groups (e.g. float16 weights around 1e-3 with an eps floor): errors of several half-steps")
        # scale = (rmax - rmin) / span
        if isinstance(sc, ast.BinOp) and isinstance(sc.op, ast.Sub) and all(isinstance(x, ast.BinOp) and isinstance(x.op, ast.Div) for x in (sc.left, sc.right)) and U(sc.left.right) == U(sc.right.right):
            # rmax / span - rmin / span: the same scale, each extremum divided first (no overflow of the width)
            rmax, rmin, span = sc.left.left, sc.right.left, sc.left.right
        elif isinstance(sc, ast.BinOp) and isinstance(sc.op, ast.Div) and isinstance(sc.left, ast.BinOp) and isinstance(sc.left.op, ast.Sub):
            rmax, rmin, span = sc.left.left, sc.left.right, sc.right
        else:
            chk.unknown(r6, site, f"{qn}: scale `{U(sc)[:70]}` is not (rmax - rmin) / span")
            continue
        incl = {}
        for nm, term, red, bound in (("rmin", rmin, "amin", "max"), ("rmax", rmax, "amax", "min")):
            t = term
            includes = False
            # clamp(max=0) / clamp(min=0) / minimum(., 0) / maximum(., 0)
            m_ = quant._torch_or_method(t, {"clamp", "clip"})
            if m_:
                kw = m_[3]
                v = kw.get(bound)
                if v is not None and isinstance(v, ast.Constant) and v.value in (0, 0.0) and len(kw) == 1 and not m_[2]:
                    includes = True
                    t = m_[1]
            m_ = quant._torch_or_method(t, {"minimum" if nm == "rmin" else "maximum"}) if not includes else None
            if m_ and len(m_[2]) == 1 and ("zeros" in U(m_[2][0]) or U(m_[2][0]) in ("0", "0.0")):
                includes = True
                t = m_[1]
            r = scales.reduction(t)
            ok_red = r is not None and r.reduce == red and r.source == b
            incl[nm] = (includes, ok_red, U(term))
        both = incl["rmin"][0] and incl["rmax"][0]
        red_ok = incl["rmin"][1] and incl["rmax"][1]
        if not red_ok:
            chk.unknown(r6, site, f"{qn}: range terms `{incl['rmin'][2][:50]}` / `{incl['rmax'][2][:50]}` are not amin/amax reductions of `{b}`")
            continue
        if both:
            chk.ok(r6, site, f"{qn}: rmin <= 0 <= rmax by construction")
        else:
            chk.bad(r6, site, qn, "range excludes zero", f"{qn}: rmin = `{incl['rmin'][2][:60]}`, rmax = `{incl['rmax'][2][:60]}` are the raw minimum/maximum of the group: the range does not include zero when the group is one-sided",
                    "a group whose values are strictly positive and narrow (e.g. rows in 10 +/- 0.1): zeropoint = round(-rmin/scale) is far outside int8, error ~ |rmin| instead of half a step; a constant non-zero group gets scale 0 and dequantizes to 0")
        # zero-point term: round(-rmin / scale).to(int8)
        zs = quant.peel(z)
        zn = quant.stage_names(zs)
        clamped = None
        if zn[:4] == ["cast", "clamp", "round:nearest", "div"]:
            clamped = zs[1]
            zs = [zs[0]] + zs[2:]
            zn = quant.stage_names(zs)
        okz = zn[:3] == ["cast", "round:nearest", "div"] and U(zs[0][1]) == "torch.int8"
        if okz:
            num, den = zs[2][1], zs[2][2]
            okz = U(num) == f"-{U(rmin)}" and (U(den) == U(sc) or U(scales.peel_floor(den)[0]) == U(sc))
        if okz and clamped is not None and not both:
            chk.bad(r5, site, qn, "zero-point clamped although the range excludes zero", f"{qn}: the zero-point is clamped to [`{U(clamped[1]) if clamped[1] is not None else None}`, `{U(clamped[2]) if clamped[2] is not None else None}`] but -rmin/scale lies outside the code range for every one-sided group (rmin > 0 or rmax < 0): the codes of such a group saturate",
                    "a group whose values all have the same sign, e.g. values in [0.5, 1.5]: error ~ |rmin| instead of half a step")
            continue
        half_trunc = zn[:3] == ["cast", "add", "div"] and isinstance(zs[1][1], ast.Constant) and zs[1][1].value == 0.5
        if not okz and half_trunc and not both:
            chk.bad(r5, site, qn, "zero-point rounded by truncation", f"{qn}: the zero-point is `(q + 0.5).to(int8)`: the cast truncates toward zero, which rounds to nearest only for q >= 0, but -rmin/scale is negative for every group whose minimum is positive (the range does not include zero)",
                    "an all-positive group with its minimum above half a step (gains, softmax kernels): the zero-point is one too high, every code shifts up by one and the top bin saturates")
        elif not okz:
            chk.unknown(r5, site, f"{qn}: zero-point `{U(z)[:80]}` is not round(-rmin / scale).to(int8) (stages {zn})")
        elif both:
            chk.ok(r5, site, f"{qn}: 0 <= -rmin/scale <= 2**bits - 1 since rmin <= 0 <= rmax (lemma L2): the int8 cast and the int8 subtraction stay in range")
        else:
            chk.bad(r5, site, qn, "zero-point unbounded", f"{qn}: zeropoint = round(-rmin / scale).to(int8) with rmin of unknown sign: -rmin/scale is unbounded, the cast to int8 overflows",
                    "a group offset from zero by more than 127 steps (rows in 10 +/- 0.1 with int4: -rmin/scale ~ -750)")
        # span folds to 2**bits - 1
        vals = {}
        for nb in (2, 4):
            env = {bits: nb}
            vals[nb] = fold_int(span, env)
        chk.require("C02.R6" if pid == "C02" else "C16.R2", site, all(vals[nb] == 2 ** nb - 1 for nb in (2, 4)), f"{qn}: scale divides the range by `{U(span)}` = 2**bits - 1 (folded {vals})", qn, "scale span", "every group: the step is not (hi - lo)/(2**bits - 1)")
