"""C06 - a quantized tensor's reported metadata matches what it holds (structural clauses)."""
import ast

from .. import handrules, serial
from ..core import AnalysisError, path_facts, U, bind_call, paths_of, positional_params
from ..registries import handlers

TITLE = "A quantized tensor's reported metadata always matches what it holds"

RULES = {
    "C06.R1": "size/stride provenance: reshaping handlers take both from the payload actually passed; preserving handlers reuse the operand's geometry (for the packed payload of sub-byte tensors: the re-wrap clause of C04.R5)",
    "C06.R2": "field carry: qtype, axis (group_size, zeropoint) of a re-wrapped tensor come from the source tensor",
    "C06.R3": "wrapper construction: every _make_wrapper_subclass call passes size, strides=stride, dtype=scale.dtype (uint8 for payload classes), device=data.device; device asserts present",
    "C06.R4": "moves: QBytes _to_copy keeps the payload dtype and converts the scale only; QBits _to_copy refuses dtype changes, moves payload/zero-point without dtype and rebuilds through create(); detach keeps the class",
    "C06.R5": "flatten/unflatten agreement: key sets, length assertions, constructor argument mapping",
    "C06.R6": "in move/copy handlers the payload never meets arithmetic",
    "C06.R12": "the fields of an existing quantized tensor are never rebound: the wrapper's size, stride and dtype are fixed when it is constructed, so outside the constructors a store into `_data` / `_scale` / `_zeropoint` is an in-place write that returns the same tensor (`x._f = op(x._f, ...)` in a handler registered for in-place ops only, `x._f.<op>_(...)`, an augmented assignment); a rebinding of the scale in the copy_ handler is judged by C06.R8",
    "C06.R11": "the number of groups per index of the axis is (numel // shape[axis]) // group_size wherever it is computed (rule C14.R8 re-checked): a sub-byte tensor rebuilt from selected groups holds one code per element",
    "C06.R10": "sub-byte tensors: the payload of a QBitsTensor is grouped (and packed), so its shape is not the tensor's - no constructor or factory call of the QBits classes takes its size or stride argument from the payload it passes",
    "C06.R9": "freshly quantized tensors: the quantizers only accept a scale laid out along the axis they record (per-axis: one extent, equal to the base's, on that axis; per-tensor: a 0-dim scale, so the payload keeps the base's shape) - the acceptance guards of C14.R1, plus the 0-dim clause",
    "C06.R8": "scale/axis agreement: a handler that changes the payload geometry keeps the scale only when it is 0-dim (per-tensor); scalar rescaling only for operands that do not broadcast (is_scalar definition)",
    "C06.R7": "quantizers capture size()/stride() of the source before any rebinding and pass them to the constructor",
}


def run(chk):
    for k, v in RULES.items():
        chk.rule(k, v)
    repo = chk.repo
    recs = handrules.analyse(repo, chk.tier)
    handrules.emit(chk, recs, "C06")
    chk.floor("C06.R1", sum(1 for r in recs if r.pid == "C06" and r.rule == "C06.R1"), 15, "constructor sites with size/stride checked")
    wrapper_rule(chk)
    moves_rule(chk)
    n = 0
    for ci in serial.flatten_classes(repo):
        for suffix, verdict, line, tag, detail, witness in serial.analyse_class(repo, ci):
            if suffix not in ("R5", "R5w", "R4"):
                continue
            n += 1
            site = f"{ci.mod.rel}:{line}"
            if verdict == "ok":
                chk.ok("C06.R5", site, detail)
            elif verdict == "bad":
                chk.bad("C06.R5", site, ci.name, tag, detail, witness)
            else:
                chk.unknown("C06.R5", site, detail)
    chk.floor("C06.R5", len(serial.flatten_classes(repo)), 5, "classes with __tensor_flatten__")
    for ci_, base_, line_, names_ in serial.inherited_readers(repo):
        chk.bad("C06.R5", f"{ci_.mod.rel}:{line_}", ci_.name, "reader inherited from a base that rebuilds the base class", f"{ci_.name} has its own constructor but inherits __tensor_unflatten__ from {base_.name}, which builds {names_}: a flattened {ci_.name} comes back as a {base_.name} wrapping the subclass's fields",
                "any tensor of that class taken through __tensor_flatten__ / __tensor_unflatten__ (torch.compile, FakeTensor tracing, state_dict helpers)")
    quantizer_geometry(chk)
    qbits_geometry(chk)
    field_rebinding_rule(chk)
    if chk.pid == "C06":
        # "exactly one code per element": a sub-byte tensor rebuilt from a selection of its groups holds as many groups per index as the grouping made
        from . import c14 as _c14
        from ..report import AliasedCheck as _AC
        _c14.group_count_rule(_AC(chk, {"C14.R8": "C06.R11"}), "C14.R8")
    if chk.pid == "C06":
        from ..report import AliasedCheck
        from . import c14
        c14.run(AliasedCheck(chk, {"C14.R1": "C06.R9"}))
    if chk.pid == "C06":
        # "moves and copies never alter codes", "one code per element": the detach / clone / move re-wraps of the packed payload of a sub-byte
        # tensor keep its bits, size and stride (the re-wrap clause of C04.R5; seed C09-51 changed the size a clone reports)
        from ..report import TagFilteredAlias
        from . import c04
        c04.run(TagFilteredAlias(chk, {"C04.R5": "C06.R1"}, {"dispatch re-wrap"}, " - the payload of a copied QBitsTensor unpacks to a different number of codes than the tensor has elements"))
    scalar_scale_clause(chk)
    chk.assume("torch's wrapper-subclass contract: outer size/stride/dtype/device are exactly what _make_wrapper_subclass is given")


FIELDS = ("_data", "_scale", "_zeropoint")


def field_rebinding_rule(chk, rule="C06.R12"):
    """No function outside the constructors rebinds a payload / scale field of a quantized tensor to another tensor."""
    from ..registries import handlers
    repo = chk.repo
    hs = handlers(repo)
    inplace_only = {}
    copy_handlers = set()
    for t in ("qbytes", "qbits"):
        for h in hs[t]:
            ops = [o.split(".")[1] for o in h.ops]
            if ops and all(o.endswith("_") for o in ops):
                inplace_only[id(h.fn)] = positional_params(h.fn)[0]
            if "aten.copy_" in h.ops:
                copy_handlers.add(id(h.fn))
    n = 0
    for mi in repo.modules.values():
        if not mi.rel.startswith("optimum/quanto/"):
            continue
        # methods that only the constructor of their class calls are part of the construction
        ctor_helpers = set()
        for cls in [x for x in ast.walk(mi.tree) if isinstance(x, ast.ClassDef)]:
            meths = {m.name: m for m in cls.body if isinstance(m, ast.FunctionDef)}
            for mname, m in meths.items():
                callers = [c.name for c in meths.values() for x in ast.walk(c) if isinstance(x, ast.Call) and isinstance(x.func, ast.Attribute) and x.func.attr == mname and U(x.func.value) in ("self", "cls")]
                if callers and all(c in ("__init__", "__new__") for c in callers) and not mname.startswith("__"):
                    ctor_helpers.add(id(m))
        for fn in [x for x in ast.walk(mi.tree) if isinstance(x, ast.FunctionDef)]:
            if fn.name in ("__init__", "__new__") or id(fn) in ctor_helpers:
                continue
            for st in ast.walk(fn):
                pairs = []
                if isinstance(st, ast.Assign):
                    for tg in st.targets:
                        if isinstance(tg, (ast.Tuple, ast.List)) and isinstance(st.value, (ast.Tuple, ast.List)) and len(tg.elts) == len(st.value.elts):
                            pairs += list(zip(tg.elts, st.value.elts))
                        elif isinstance(tg, (ast.Tuple, ast.List)):
                            pairs += [(e, None) for e in tg.elts]
                        else:
                            pairs.append((tg, st.value))
                elif isinstance(st, ast.AnnAssign) and st.value is not None:
                    pairs.append((st.target, st.value))
                elif isinstance(st, ast.Call) and isinstance(st.func, ast.Name) and st.func.id == "setattr" and len(st.args) == 3 and isinstance(st.args[1], ast.Constant) and st.args[1].value in FIELDS:
                    pairs.append((ast.Attribute(value=st.args[0], attr=st.args[1].value, ctx=ast.Store()), st.args[2]))
                for tg, val in pairs:
                    if not (isinstance(tg, ast.Attribute) and tg.attr in FIELDS):
                        continue
                    n += 1
                    site = f"{mi.rel}:{st.lineno}"
                    fld = U(tg)
                    in_place = False
                    if isinstance(val, ast.Call):
                        f = val.func
                        if isinstance(f, ast.Name) and inplace_only.get(id(fn)) == f.id and val.args and U(val.args[0]) == fld:
                            in_place = True  # the in-place aten op of a handler registered for in-place ops only: returns its first argument
                        if isinstance(f, ast.Attribute) and f.attr.endswith("_") and not f.attr.startswith("_") and U(f.value) == fld:
                            in_place = True
                    if in_place:
                        chk.ok(rule, site, f"{fn.name}: `{fld} = {U(val)[:60]}` is an in-place write returning the same tensor")
                    elif id(fn) in copy_handlers and tg.attr == "_scale":
                        chk.ok(rule, site, f"{fn.name}: `{fld} = {U(val)[:60] if val is not None else '...'}` (the scale, in the copy_ handler): judged by C06.R8")
                    else:
                        chk.bad(rule, site, fn.name, f"field {tg.attr} rebound", f"NOT: {fn.name} rebinds `{fld}` to `{U(val)[:70] if val is not None else 'an unpacked value'}`: the wrapper keeps the size, stride and dtype it was constructed with, the new tensor need not have them",
                                "q.mul_(torch.tensor(2.0)) on a float16 tensor rebinding the scale to a float32 product: q reports float16 and dequantizes to float32; q.unsqueeze_(0) adopting the reshaped codes: q reports (4, 6) and holds (1, 4, 6)")
    chk.floor(rule, n, 2, "stores into the fields of an existing quantized tensor (the copy_ handler has two)")


def wrapper_rule(chk):
    repo = chk.repo
    n = 0
    for lst in repo.classes.values():
        for ci in lst:
            new = ci.own("__new__")
            if new is None:
                continue
            calls = [c for c in ast.walk(new) if isinstance(c, ast.Call) and U(c.func).endswith("_make_wrapper_subclass")]
            if not calls:
                continue
            n += 1
            c = calls[0]
            site = f"{ci.mod.rel}:{c.lineno}"
            params = positional_params(new)
            args = [U(a) for a in c.args]
            kw = {k.arg: U(k.value) for k in c.keywords}
            has_scale = "scale" in params
            ok_cls = args[:1] == [params[0]]
            ok_size = (args[1:2] == ["size"]) or kw.get("size") == "size"
            ok_stride = kw.get("strides") == "stride" or args[2:3] == ["stride"]
            want_dtype = "scale.dtype" if has_scale else "torch.uint8"
            ok_dtype = kw.get("dtype") == want_dtype
            ok_dev = kw.get("device") == "data.device"
            ok_rg = kw.get("requires_grad") == "requires_grad"
            fn = f"{ci.name}.__new__"
            chk.require("C06.R3", site, ok_cls and ok_size and ok_stride, f"{fn}: wrapper built with (cls, size, strides=stride): {args} {kw.get('strides')}", fn, "wrapper size/stride", "any tensor: reported shape/stride differ from the constructor arguments")
            chk.require("C06.R3", site, ok_dtype, f"{fn}: wrapper dtype is `{kw.get('dtype')}` (expected {want_dtype})", fn, "wrapper dtype", "any tensor whose scale dtype is not the hard-coded one: reported dtype differs from dequantize().dtype")
            chk.require("C06.R3", site, ok_dev, f"{fn}: wrapper device is `{kw.get('device')}` (expected data.device)", fn, "wrapper device", "a tensor on a non-default device")
            chk.require("C06.R3", site, ok_rg, f"{fn}: requires_grad forwarded", fn, "wrapper requires_grad", "a tensor constructed with requires_grad=True")
            asserts = [U(a.test) for a in ast.walk(new) if isinstance(a, ast.Assert)]
            for other in ("scale", "zeropoint"):
                if other in params:
                    # (one assert per tensor, a conjunction, or a comparison chain: what matters is that the equality is asserted)
                    eqs = set()
                    for a_ in [x_ for x_ in ast.walk(new) if isinstance(x_, ast.Assert)]:
                        for c_ in ([a_.test] if not (isinstance(a_.test, ast.BoolOp) and isinstance(a_.test.op, ast.And)) else a_.test.values):
                            if isinstance(c_, ast.Compare) and all(isinstance(o_, ast.Eq) for o_ in c_.ops):
                                chain = [U(c_.left)] + [U(x_) for x_ in c_.comparators]
                                eqs.update(frozenset((chain[i_], chain[j_])) for i_ in range(len(chain)) for j_ in range(i_ + 1, len(chain)))
                    ok = frozenset(("data.device", f"{other}.device")) in eqs or (other == "zeropoint" and frozenset(("scale.device", "zeropoint.device")) in eqs and frozenset(("data.device", "scale.device")) in eqs)
                    chk.require("C06.R3", site, ok, f"{fn}: asserts data.device == {other}.device", fn, f"device assert {other}", f"payload and {other} on different devices: the wrapper reports one device while holding two")
    chk.floor("C06.R3", n, 5, "wrapper subclasses with __new__")
    # constructor fields: what the wrapper reports (qtype, axis, group size) and holds (scale, zero-point) is what the constructor was given
    from ..core import paths_of
    n_f = 0
    for cname in ("QTensor", "QBytesTensor", "QBitsTensor"):
        if not repo.has_cls(cname):
            continue
        ci = repo.cls(cname)
        init = ci.own("__init__")
        if init is None:
            continue
        params = positional_params(init)[1:]
        fn = f"{cname}.__init__"
        for p in paths_of(init, inline_helpers=False):
            if p.end[0] == "raise":
                continue
            site = f"{ci.mod.rel}:{init.lineno}"
            for ef in p.effects:
                if ef[0] == "store" and U(ef[1]) == "self" and ef[2].startswith("_") and ef[2][1:] in params and ef[2] != "_data":
                    n_f += 1
                    chk.require("C06.R3", f"{ci.mod.rel}:{ef[4]}", U(ef[3]) == ef[2][1:], f"{fn}: self.{ef[2]} = `{U(ef[3])[:50]}` (the constructor argument, unchanged)", fn, f"field {ef[2]} stored as given",
                                f"a tensor built with a {ef[2][1:]} that the constructor rewrites: the wrapper reports another {ef[2][1:]} than the one its inner tensors were laid out for (e.g. an axis of size 1 turned into None while scale and payload stay grouped)")
                if ef[0] == "expr" and isinstance(ef[1], ast.Call) and U(ef[1].func) == "super().__init__":
                    n_f += 1
                    chk.require("C06.R3", f"{ci.mod.rel}:{ef[2]}", [U(a) for a in ef[1].args] == ["qtype", "axis"] and not ef[1].keywords, f"{fn}: base constructor receives (qtype, axis) unchanged (`{U(ef[1])[:60]}`)", fn, "base constructor arguments",
                                "any tensor: qtype / axis swapped or rewritten on the way to the base class")
    chk.floor("C06.R3", n_f, 6, "constructor field stores")


def _norm_src(t: str) -> str:
    from ..core import CanonStr
    return CanonStr(t.replace("t.qbits_tensor()", "t"))


def _payload_classes(repo):
    out = []
    for name in ("PackedTensor", "AWQPackedTensor"):
        try:
            ci = repo.cls(name)
        except AnalysisError:
            ci = None
        if ci is not None and ci.own("__torch_dispatch__") is not None:
            out.append(ci)
    return out


def _served_ops(ci):
    """the aten packets a payload class re-wraps: what its dispatch compares `op.overloadpacket` with (`is X` / `== X` / `in (X, Y)`), read from the
    path conditions so that a local alias (`packet = op.overloadpacket`) is seen through"""
    from ..core import atoms
    disp = ci.own("__torch_dispatch__")
    served = set()
    for p in paths_of(disp):
        for c, t, _ in p.conds:
            for a, pol in atoms(c, t):
                for sep in (".overloadpacket is ", ".overloadpacket == ", ".overloadpacket in "):
                    if sep in a and " not " not in a.split(sep)[0][-5:]:
                        rhs = a.split(sep, 1)[1]
                        if sep.endswith(" in "):
                            served.update(x_.strip() for x_ in rhs.strip("()[]{} ").split(",") if x_.strip())
                        else:
                            served.add(rhs.strip())
    for n in ast.walk(disp):  # (and the plain syntactic form, for a dispatch whose paths are not enumerated)
        if isinstance(n, ast.Compare) and len(n.ops) == 1 and U(n.left).endswith(".overloadpacket"):
            c = n.comparators[0]
            if isinstance(n.ops[0], (ast.Is, ast.Eq)):
                served.add(U(c))
            elif isinstance(n.ops[0], ast.In) and isinstance(c, (ast.Tuple, ast.List, ast.Set)):
                served.update(U(e) for e in c.elts)
    return served


def moves_rule(chk, r2="C06.R2", r4="C06.R4"):
    """The move handlers are judged by WHAT each inner tensor receives (keyword profiles, qv/kwprof.py) and by what the guards of a path IMPLY
    about the requested dtype (propositional entailment over the leaf conditions), not by the spelling of either."""
    from ..kwprof import entails, profiles
    repo = chk.repo
    hs = handlers(repo)
    found = 0
    PRESERVE = (None, "torch.preserve_format", "torch.contiguous_format")  # neither asks a 0-dim / grouped tensor for a rank-4 layout

    def helper_of(mi):
        def res(name):
            r = repo.resolve(mi, name)
            return r[1] if r is not None and isinstance(r[1], ast.FunctionDef) and r[0].rel.startswith("optimum/") else None
        return res

    def profs(e, kwn, p_, mi, fn_=None):
        named = [a.arg for a in (fn_.args.args + fn_.args.kwonlyargs)] if fn_ is not None else ()
        return profiles(e, kwn, p_, helper_of(mi), named) if isinstance(e, ast.Call) else []

    A, F, I = "dtype is None", "dtype.is_floating_point", "dtype.itemsize == 1"
    # platform table: the 8-bit floating point dtypes of torch (a scale cannot be stored in any of them)
    ALL_FLOAT8 = {"torch.float8_e4m3fn", "torch.float8_e5m2", "torch.float8_e4m3fnuz", "torch.float8_e5m2fnuz", "torch.float8_e8m0fnu"}

    def dtype_set(expr, mi, depth=3):
        """the dtypes a membership test names: a literal collection of torch dtypes, a module constant holding one, or the storage dtypes of the registered
        qtypes (`tuple({qt.dtype for qt in qtypes.values() if qt.is_floating_point})`); None when not evaluated"""
        from ..registries import qtype_table
        if isinstance(expr, (ast.Tuple, ast.List, ast.Set)):
            out = set()
            for e_ in expr.elts:
                t_ = U(e_)
                if t_.startswith("torch."):
                    out.add(str(t_))
                elif t_.endswith(".dtype") and t_[:-6] in qtype_table(repo):
                    out.add(qtype_table(repo)[t_[:-6]]["dtype"])
                else:
                    return None
            return out
        if isinstance(expr, ast.Name) and depth > 0:
            r = repo.resolve(mi, expr.id)
            if r is not None and isinstance(r[1], ast.expr):
                return dtype_set(r[1], r[0], depth - 1)
            return None
        if isinstance(expr, ast.Call) and U(expr.func) in ("tuple", "list", "set", "frozenset") and len(expr.args) == 1:
            return dtype_set(expr.args[0], mi, depth)
        if isinstance(expr, (ast.SetComp, ast.ListComp, ast.GeneratorExp)) and len(expr.generators) == 1:
            g = expr.generators[0]
            if U(g.iter) in ("qtypes.values()",) and isinstance(g.target, ast.Name) and U(expr.elt) == f"{g.target.id}.dtype":
                recs = list({id(v): v for v in qtype_table(repo).values()}.values())
                for t_ in g.ifs:
                    if U(t_) == f"{g.target.id}.is_floating_point":
                        recs = [r_ for r_ in recs if r_["is_floating_point"]]
                    elif U(t_) == f"not {g.target.id}.is_floating_point":
                        recs = [r_ for r_ in recs if not r_["is_floating_point"]]
                    else:
                        return None
                return {r_["dtype"] for r_ in recs}
        return None

    def membership_knowledge(conds, mi):
        """For each leaf `dtype in X` whose X evaluates: (extra conditions that hold for every dtype, missing 8-bit float dtypes).  A test against a collection
        that holds every 8-bit float dtype is true of each of them; one that misses some is refuted by the missing ones."""
        from ..kwprof import _leaves
        extra, missing, seen = [], set(), set()
        leaves = []
        for c_, _t in conds:
            _leaves(c_, leaves)
        for l_ in leaves:
            if isinstance(l_, ast.Compare) and len(l_.ops) == 1 and isinstance(l_.ops[0], (ast.In, ast.NotIn)) and U(l_.left) == "dtype":
                S = dtype_set(l_.comparators[0], mi)
                key = U(l_.comparators[0])
                if S is None or key in seen:
                    continue
                seen.add(key)
                atom = f"dtype in {key}"
                if ALL_FLOAT8 <= S:
                    extra.append((ast.parse(f"(not (dtype.is_floating_point and dtype.itemsize == 1)) or ({atom})", mode="eval").body, True))
                else:
                    missing |= ALL_FLOAT8 - S
                if S <= ALL_FLOAT8:
                    extra.append((ast.parse(f"(not ({atom})) or (dtype.is_floating_point and dtype.itemsize == 1)", mode="eval").body, True))
        return extra, missing
    for h in hs["qbytes"]:
        if set(h.ops) & {"aten._to_copy", "aten.to"}:
            found += 1
            fn = h.fn
            site = f"{h.mi.rel}:{fn.lineno}"
            x = positional_params(fn)[1]
            kwn = fn.args.kwarg.arg if fn.args.kwarg else None
            for p in paths_of(fn, inline_helpers="methods"):
                if p.end[0] != "return":
                    continue
                f = handrules.ctor_fields(repo, "QBytesTensor", p.end[1]) if handrules.is_ctor(p.end[1]) else None
                conds = [(c, t) for c, t, _ in p.conds]
                psite = f"{h.mi.rel}:{p.end[2]}"
                if f is None:
                    # a move to a dtype the scale cannot take (integer, 8-bit float) cannot keep the tensor quantized: it converts the dequantized values
                    e_ = p.end[1]
                    prs = profs(e_, kwn, p, h.mi, fn) if handrules.is_op_call(e_) else []
                    fallback = bool(prs) and all(pr.first == f"{x}.dequantize()" and pr.passes("dtype") == "dtype" and pr.forwards_rest() and not pr.override for pr in prs)
                    given, _ = entails(conds, lambda v: not v[A], [A])
                    va = fn.args.vararg.arg if fn.args.vararg else None
                    positional = va is not None and any(p.holds(t_) is True for t_ in (f"len({va}) > 0", f"len({va}) != 0", f"len({va}) >= 1")) and handrules.is_op_call(e_) \
                        and any(isinstance(a_, ast.Starred) and U(a_.value) == va for a_ in e_.args)
                    if positional and prs and all(pr.first == f"{x}.dequantize()" and pr.forwards_rest() and not pr.override and (pr.passes("dtype") == "dtype" or p.holds("dtype is None") is True) for pr in prs):
                        # the positional overloads of aten.to (seen undecomposed in inference mode): everything is forwarded to the op on the dequantized values
                        chk.ok(r4, psite, f"QBytes {h.name}: the positional overloads of the move are applied to the dequantized values (`{U(e_)[:60]}`)")
                        continue
                    if fallback and given:
                        chk.ok(r4, psite, f"QBytes {h.name}: a move to a dtype the scale cannot take converts the dequantized values (`{U(e_)[:60]}`)")
                    else:
                        chk.unknown(r4, site, "QBytes _to_copy does not return a constructor call")
                    continue
                extra_k, missing_f8 = membership_knowledge(conds, h.mi)
                wide, foreign_w = entails(conds + extra_k, lambda v: v[A] or not v[I], [A, F, I])
                flt, foreign_f = entails(conds + extra_k, lambda v: v[A] or v[F], [A, F, I])
                if missing_f8:
                    # the guard names some 8-bit float dtypes only: the others reach the scale
                    foreign_w = [a_ for a_ in foreign_w if not a_.startswith("dtype in ")]
                for verdict, foreign, text, tag, wit in (
                        (wide, foreign_w, "an 8-bit float dtype never reaches the scale", "scale cast to an 8-bit float dtype",
                         "q.to(torch.float8_e4m3fn) on a qint8 tensor (or model.to(torch.float8_e4m3fn) on a frozen model): a QBytesTensor whose scale is float8; dequantize() and every fallback raise `Promotion for Float8 Types is not supported`"),
                        (flt, foreign_f, "the requested dtype reaches the scale only when it is None or floating point", "scale cast to a non-floating dtype",
                         "q.to(torch.int32): the scale 0.79 becomes 0, the result reports int32, dequantizes to int8 and is all zeros where the float program gives trunc(x)")):
                    if verdict is True:
                        chk.ok(r4, psite, f"QBytes {h.name}: {text} (implied by the guards of the path: {' & '.join(p.cond_texts())[:70]})")
                    elif verdict is False and not [a_ for a_ in foreign if "dtype" in a_]:
                        more = f"; the guard's collection misses {sorted(missing_f8)}" if missing_f8 and "8-bit" in tag else ""
                        chk.bad(r4, psite, h.name, tag, f"NOT: QBytes {h.name}: {text} (path: {' & '.join(p.cond_texts())[:70] or 'unconditional'}){more}", wit)
                    else:
                        chk.unknown(r4, psite, f"QBytes {h.name}: whether {text} is not decided (conditions on the dtype this rule does not read: {foreign[:3]})")
                d, s_ = f["data"], f["scale"]
                dps, sps = profs(d, kwn, p, h.mi, fn), profs(s_, kwn, p, h.mi, fn)
                ok_d = bool(dps) and handrules.is_op_call(d) and all(pr.first == f"{x}._data" and pr.passes("dtype") == f"{x}._data.dtype" and pr.forwards_rest() and not pr.override for pr in dps)
                mf_ok = bool(sps) and all(pr.passes("memory_format") in PRESERVE for pr in sps)
                ok_s = bool(sps) and all(pr.first == f"{x}._scale" and pr.passes("dtype") == "dtype" and pr.forwards_rest(but={"memory_format"}) and set(pr.override) <= {"memory_format"} for pr in sps)
                chk.require(r4, psite, mf_ok, f"QBytes {h.name}: the memory format is not forwarded to the scale (the scale receives memory_format={[pr.passes('memory_format') for pr in sps]})", h.name, "memory_format forwarded to the scale",
                            "q.to(memory_format=torch.channels_last) on a rank-4 per-tensor quantized tensor: RuntimeError `required rank 4 tensor` from the 0-dim scale (the float program is valid)")
                chk.require(r4, psite, ok_d, f"QBytes {h.name}: payload moved as `{U(d)[:70]}` keeping its own dtype, other arguments forwarded", h.name, "payload keeps dtype on move", "q.to(torch.float16): the codes are cast to float16 and re-read as codes")
                chk.require(r4, psite, ok_s, f"QBytes {h.name}: scale moved as `{U(s_)[:70]}` with the requested dtype, other arguments forwarded", h.name, "scale takes requested dtype", "q.to(dtype) / q.to(device): dtype or device of the scale differs from the request")
    for h in hs["qbytes"]:
        if "aten.clone" in h.ops:
            x = positional_params(h.fn)[1]
            for p in paths_of(h.fn, inline_helpers="methods"):
                if p.end[0] == "return" and handrules.is_ctor(p.end[1]):
                    f = handrules.ctor_fields(repo, "QBytesTensor", p.end[1])
                    s_ = f["scale"] if f else None
                    sps = profs(s_, None, p, h.mi)
                    ok = all(pr.passes("memory_format") in PRESERVE for pr in sps)
                    chk.require(r4, f"{h.mi.rel}:{p.end[2]}", ok, f"QBytes {h.name}: the memory format is not forwarded to the clone of the scale (`{U(s_)[:50]}`)", h.name, "memory_format forwarded to the scale",
                                "q.clone(memory_format=torch.channels_last) on a rank-4 per-tensor quantized tensor: RuntimeError from the 0-dim scale")
    for h in hs["qbits"]:
        fn = h.fn
        x = positional_params(fn)[1]
        if "aten._to_copy" in h.ops:
            found += 1
            ps = paths_of(fn)
            refusals = [p for p in ps if p.end[0] == "raise"]
            SAME, NONE = f"dtype == {x}.dtype", "dtype is None"
            ok_ref = len(refusals) >= 1 and all("ValueError" in U(p.end[1]) and entails([(c, t) for c, t, _ in p.conds], lambda v: not v[SAME] and not v[NONE], [SAME, NONE])[0] is True for p in refusals)
            chk.require(r4, f"{h.mi.rel}:{fn.lineno}", ok_ref, f"QBits {h.name}: a dtype change is refused with ValueError (and nothing else is)", h.name, "dtype refusal", "q4.to(torch.float16) on a float32 low-bit tensor")
            for p in ps:
                if p.end[0] != "return":
                    continue
                e = p.end[1]
                site = f"{h.mi.rel}:{p.end[2]}"
                if not (isinstance(e, ast.Call) and U(e.func) == "QBitsTensor.create"):
                    chk.bad(r4, site, h.name, "rebuild through create", f"QBits {h.name} returns `{U(e)[:60]}` instead of QBitsTensor.create(...)", "moving an optimised tensor to/from CUDA")
                    continue
                create = repo.cls("QBitsTensor").own("create")
                f = bind_call(create, e)
                src = {k: _norm_src(U(v)) for k, v in f.items()}
                want = {"qtype": f"{x}._qtype", "axis": f"{x}._axis", "group_size": f"{x}._group_size", "size": f"{x}.size()", "stride": f"{x}.stride()"}
                okf = all(src.get(k) in (v, v.replace("._", ".")) for k, v in want.items())
                chk.require(r2, site, okf, f"QBits {h.name}: qtype/axis/group_size/size/stride carried from the source: { {k: src.get(k) for k in want} }", h.name, "QBits fields carried", "any low-bit tensor moved between devices")
                kwn = fn.args.kwarg.arg if fn.args.kwarg else None
                d, s_, z = f["data"], f["scale"], f["zeropoint"]
                dps, sps, zps = profs(d, kwn, p, h.mi, fn), profs(s_, kwn, p, h.mi, fn), profs(z, kwn, p, h.mi, fn)

                def moved(prs, inner, dtype_ok):
                    return bool(prs) and all(_norm_src(pr.first or "") == f"{x}.{inner}" and dtype_ok(_norm_src(pr.passes("dtype")) if pr.passes("dtype") is not None else None) and pr.passes("device") == "device"
                                             and pr.forwards_rest(but={"memory_format"}) and set(pr.override) <= {"memory_format"} for pr in prs)
                # the memory format describes the layout of the data, so the (grouped, 2-D) scale and zero-point must not receive the caller's
                # (they get none, or preserve_format), and neither may a payload that no longer has the shape of the tensor
                mf_ok = bool(sps) and bool(zps) and all(pr.passes("memory_format") in PRESERVE for pr in sps + zps)
                ok_d = handrules.is_op_call(d) and moved(dps, "_data", lambda t_: t_ in (None, f"{x}._data.dtype"))
                ok_z = handrules.is_op_call(z) and moved(zps, "_zeropoint", lambda t_: t_ in (None, f"{x}._zeropoint.dtype"))
                # (the requested dtype, or the scale's own when none is requested: the refusal above leaves no other case)
                ok_s = handrules.is_op_call(s_) and moved(sps, "_scale", lambda t_: t_ == "dtype" or (t_ == f"{x}._scale.dtype" and p.holds("dtype is None") is True))
                chk.require(r4, site, mf_ok, f"QBits {h.name}: the memory format is not forwarded to the scale / zero-point (they receive {sorted({str(pr.passes('memory_format')) for pr in sps + zps})})", h.name, "memory_format forwarded to the scale",
                            "a group-wise qint4 Conv2d weight (rank 4) moved with .to(memory_format=torch.channels_last) - what nn.Module.to(memory_format=...) does to every 4-D parameter: RuntimeError `required rank 4 tensor` from the 2-D grouped scale")
                chk.require(r4, site, ok_d and ok_z, f"QBits {h.name}: payload and zero-point moved with device only (no dtype but their own)", h.name, "payload/zeropoint moved without dtype", "q4.to(device, dtype=q4.dtype): integer payload cast to a float dtype")
                chk.require(r4, site, ok_s, f"QBits {h.name}: scale moved with dtype and device", h.name, "scale moved", "q4.to(device)")
        # the payload of a QBitsTensor is a tensor subclass of its own (PackedTensor, AWQPackedTensor) whose dispatch re-wraps the result of a few ops only
        # and runs every other op on an UNPACKED temporary: a handler that applies its op to `t._data` relies on that op being one of the few
        if any(isinstance(c_, ast.Call) and handrules.is_op_call(c_) and c_.args and _norm_src(U(c_.args[0])) == f"{x}._data" for c_ in ast.walk(fn)):
            for pc in _payload_classes(repo):
                served = _served_ops(pc)
                missing = sorted(o for o in h.ops if "torch.ops." + o not in served)
                chk.require(r2, f"{h.mi.rel}:{fn.lineno}", not missing, f"QBits {h.name} applies {sorted(h.ops)} to the payload, and {pc.name}.__torch_dispatch__ re-wraps the result of each of them (it serves {sorted(served)})", h.name,
                            f"payload op not served by {pc.name}", f"{sorted(h.ops)[0].split('.')[-1]} of a low-bit tensor: the payload comes back as a plain tensor of unpacked codes inside a QBitsTensor that expects packed data "
                            "(copy.deepcopy of a frozen int4 model: the copy's weight dequantizes to garbage or raises)")
        if {"aten.detach", "aten.clone"} & set(h.ops):
            found += 1
            for p in paths_of(fn):
                if p.end[0] != "return":
                    continue
                e = p.end[1]
                site = f"{h.mi.rel}:{p.end[2]}"
                keeps = isinstance(e, ast.Call) and U(e.func) in (f"{x}.__class__", f"type({x})")
                chk.require(r4, site, keeps, f"QBits {h.name}: detach / clone rebuilds with the operand's own class ({U(e.func) if isinstance(e, ast.Call) else '?'})", h.name, "detach keeps class", "detach (Parameter construction) of an optimised subclass")
                if keeps:
                    init = repo.method(repo.cls("QBitsTensor"), "__init__")[1]
                    f = bind_call(init, e, skip_first=1)
                    want = {"qtype": f"{x}._qtype", "axis": f"{x}._axis", "group_size": f"{x}._group_size", "size": f"{x}.size()", "stride": f"{x}.stride()", "data": f"op({x}._data)", "scale": f"op({x}._scale)", "zeropoint": f"op({x}._zeropoint)"}
                    okf = f is not None and all(U(f[k]) in (v, v.replace("._q", ".q").replace("._a", ".a")) for k, v in want.items())
                    chk.require(r2, site, okf, f"QBits {h.name}: all fields carried, payload/scale/zero-point through op only", h.name, "QBits detach fields", "Parameter(q4) / q4.detach()")
    chk.floor(r4, found, 3, "move/detach handlers")


def quantizer_geometry(chk):
    """C06.R7 (= C01.R5 / C02.R2): size and stride are read from the source before it is rebound."""
    repo = chk.repo
    n = 0
    for cname, ctor, factory in (("SymmetricQuantizer", "QBytesTensor", None), ("AffineQuantizer", "QBitsTensor", "QBitsTensor.create")):
        ci = repo.cls(cname)
        fwd = ci.own("forward")
        base = positional_params(fwd)[1]
        for p in paths_of(fwd):
            if p.end[0] != "return":
                continue
            e = p.end[1]
            site = f"{ci.mod.rel}:{p.end[2]}"
            if not isinstance(e, ast.Call):
                chk.unknown("C06.R7", site, f"{cname}.forward returns a non-call")
                continue
            if U(e.func) == ctor:
                f = handrules.ctor_fields(repo, ctor, e)
            elif factory and U(e.func) == factory:
                f = bind_call(repo.cls("QBitsTensor").own("create"), e)
            else:
                chk.unknown("C06.R7", site, f"{cname}.forward returns `{U(e.func)}`")
                continue
            n += 1
            sz, st = U(f["size"]), U(f["stride"])
            chk.require("C06.R7", site, sz in (f"{base}.size()", f"{base}.shape") and st == f"{base}.stride()", f"{cname}.forward passes size `{sz}` and stride `{st}` of the un-rebound source `{base}`", f"{cname}.forward", "quantizer geometry", "grouped quantization (the source is reshaped before the payload is computed): the result reports the grouped shape")
    chk.floor("C06.R7", n, 2, "quantizer return paths")


def qbits_geometry(chk, rule="C06.R10"):
    """Every call that builds a QBitsTensor / AWQBitsTensor (constructor, `create` factory) binds (size, stride, data): the size and stride expressions,
    with local names expanded along the path, must not be taken from the data expression."""
    from ..core import bind_call
    repo = chk.repo
    qb = repo.cls("QBitsTensor")
    classes = {c.name: c for c in [qb] + repo.subclasses(qb)}
    create = qb.own("create")
    n = 0
    for mi in repo.modules.values():
        if not mi.rel.startswith("optimum/"):
            continue
        for fn in [x for x in ast.walk(mi.tree) if isinstance(x, ast.FunctionDef)]:
            def _dyn(c):
                # `t.__class__(...)` / `type(t)(...)` in the modules of the sub-byte tensors: the class of a QBits operand
                f_ = c.func
                return "/qbits/" in mi.rel and len(c.args) >= 8 and ((isinstance(f_, ast.Attribute) and f_.attr == "__class__") or (isinstance(f_, ast.Call) and U(f_.func) == "type" and len(f_.args) == 1))
            if not any(isinstance(c, ast.Call) and (U(c.func) in classes or U(c.func) in tuple(f"{k}.create" for k in classes) or _dyn(c)) for c in ast.walk(fn)):
                continue
            seen = set()
            try:
                ps = paths_of(fn)
            except AnalysisError as e:
                chk.unknown(rule, f"{mi.rel}:{fn.lineno}", f"{fn.name}: paths not enumerated ({e})")
                continue
            for p in ps:
                exprs = [ef[1] for ef in p.effects if ef[0] == "expr"] + [ef[3] for ef in p.effects if ef[0] == "store"] + ([p.end[1]] if p.end[0] == "return" and p.end[1] is not None else [])
                for e in exprs:
                    for c in [x for x in ast.walk(e) if isinstance(x, ast.Call)]:
                        name = U(c.func)
                        target = None
                        if name in classes:
                            init = classes[name].own("__init__") or qb.own("__init__")
                            target, skip = init, 1
                        elif _dyn(c):
                            target, skip = qb.own("__init__"), 1
                        elif name.endswith(".create") and name[:-7] in classes and create is not None:
                            target, skip = create, 0
                        if target is None:
                            continue
                        b = bind_call(target, c, skip_first=skip)
                        if b is None or not all(k in b for k in ("size", "stride", "data")):
                            continue
                        key = (c.lineno, U(b["size"]), U(b["stride"]), U(b["data"]))
                        if key in seen:
                            continue
                        seen.add(key)
                        n += 1
                        d = U(b["data"])
                        bad = [k for k in ("size", "stride") if d and d not in ("data", "None") and (U(b[k]).startswith(d + ".") or U(b[k]).startswith(d + "["))]
                        inner = [k for k in ("size", "stride") if "._data" in U(b[k])]
                        chk.require(rule, f"{mi.rel}:{c.lineno}", not bad and not inner, f"{fn.name}: {name}(size={U(b['size'])[:40]}, stride={U(b['stride'])[:40]}, data={d[:40]}) takes its geometry from the tensor, not from the payload",
                                    fn.name, f"{'/'.join(bad or inner)} taken from the grouped payload", "a group-wise quantized qint4 Linear weight reloaded from a state_dict (optimize() rebuilds it): it reports stride (group_size, 1), the state_dict "
                                    "saved again differs (`weight.stride`), and a group-wise Conv2d weight cannot be rebuilt at all (4 sizes, 2 strides)")
    chk.floor(rule, n, 5, "QBits constructor / factory call sites")


def scalar_scale_clause(chk):
    """C06.R9: on the per-tensor path of the symmetric quantizer the scale is 0-dim (a one-element scale WITH dims makes base / scale
    take the broadcast shape while the wrapper keeps base.size())."""
    from ..core import path_facts, paths_of
    repo = chk.repo
    ci = repo.cls("SymmetricQuantizer")
    fwd = ci.own("forward")
    ps_ = positional_params(fwd)
    axis, scale = ps_[3], ps_[4]
    n = 0
    for p in paths_of(fwd):
        if p.end[0] != "return":
            continue
        f = path_facts(p)
        if f.get(f"{axis} is None") is not True:
            continue
        n += 1
        zero_dim = f.get(f"{scale}.ndim > 0") is False or f.get(f"{scale}.ndim == 0") is True or f.get(f"{scale}.shape == ()") is True or f.get(f"len({scale}.shape) == 0") is True
        reshaped = any(isinstance(nd, ast.Call) and isinstance(nd.func, ast.Attribute) and nd.func.attr in ("reshape", "view", "squeeze", "item") and U(nd.func.value) == scale for v in [p.end[1]] + [x for ef in p.effects for x in ef if isinstance(x, ast.AST)] for nd in ast.walk(v))
        chk.require("C06.R9", f"{ci.mod.rel}:{p.end[2]}", zero_dim or reshaped, f"SymmetricQuantizer.forward (per-tensor): the scale is known to be 0-dim on this accepting path (or is reshaped to it)", "SymmetricQuantizer.forward", "per-tensor scale is 0-dim",
                    "a one-element scale that has dims (computed with keepdim=True): payload and dequantized value take the broadcast shape (1, n) while the tensor reports (n,)")
    chk.floor("C06.R9", n, 1, "per-tensor accepting paths of the symmetric quantizer")
