"""C06 - a quantized tensor's reported metadata matches what it holds (structural clauses)."""
import ast

from .. import handrules, serial
from ..core import AnalysisError, path_facts, U, bind_call, paths_of, positional_params
from ..registries import handlers

TITLE = "A quantized tensor's reported metadata always matches what it holds"

RULES = {
    "C06.R1": "size/stride provenance: reshaping handlers take both from the payload actually passed; preserving handlers reuse the operand's geometry",
    "C06.R2": "field carry: qtype, axis (group_size, zeropoint) of a re-wrapped tensor come from the source tensor",
    "C06.R3": "wrapper construction: every _make_wrapper_subclass call passes size, strides=stride, dtype=scale.dtype (uint8 for payload classes), device=data.device; device asserts present",
    "C06.R4": "moves: QBytes _to_copy keeps the payload dtype and converts the scale only; QBits _to_copy refuses dtype changes, moves payload/zero-point without dtype and rebuilds through create(); detach keeps the class",
    "C06.R5": "flatten/unflatten agreement: key sets, length assertions, constructor argument mapping",
    "C06.R6": "in move/copy handlers the payload never meets arithmetic",
    "C06.R10": "sub-byte tensors: the payload of a QBitsTensor is grouped (and packed), so its shape is not the tensor's - no constructor or factory call of the QBits classes takes its size or stride argument from the payload it passes",
    "C06.R9": "freshly quantized tensors: the quantizers only accept a scale laid out along the axis they record (per-axis: one extent, equal to the base's, on that axis; per-tensor: a 0-dim scale, so the payload keeps the base's shape) - the acceptance guards of C14.R1, plus the 0-dim clause",
    "C06.R8": "scale/axis agreement: a handler that changes the payload geometry keeps the scale only when it is 0-dim (per-tensor); scalar rescaling only for operands that do not broadcast (is_scalar definition)",
    "C06.R7": "quantizers capture size()/stride() of the source before any rebinding and pass them to the constructor",
}


def run(chk):
    for k, v in RULES.items():
        chk.rule(k, v)
    repo = chk.repo
    recs = handrules.analyse(repo, chk.tier)
    handrules.emit(chk, recs, "C06")
    chk.floor("C06.R1", sum(1 for r in recs if r.pid == "C06" and r.rule == "C06.R1"), 15, "constructor sites with size/stride checked")
    wrapper_rule(chk)
    moves_rule(chk)
    n = 0
    for ci in serial.flatten_classes(repo):
        for suffix, verdict, line, tag, detail, witness in serial.analyse_class(repo, ci):
            if suffix not in ("R5", "R5w", "R4"):
                continue
            n += 1
            site = f"{ci.mod.rel}:{line}"
            if verdict == "ok":
                chk.ok("C06.R5", site, detail)
            elif verdict == "bad":
                chk.bad("C06.R5", site, ci.name, tag, detail, witness)
            else:
                chk.unknown("C06.R5", site, detail)
    chk.floor("C06.R5", len(serial.flatten_classes(repo)), 5, "classes with __tensor_flatten__")
    for ci_, base_, line_, names_ in serial.inherited_readers(repo):
        chk.bad("C06.R5", f"{ci_.mod.rel}:{line_}", ci_.name, "reader inherited from a base that rebuilds the base class", f"{ci_.name} has its own constructor but inherits __tensor_unflatten__ from {base_.name}, which builds {names_}: a flattened {ci_.name} comes back as a {base_.name} wrapping the subclass's fields",
                "any tensor of that class taken through __tensor_flatten__ / __tensor_unflatten__ (torch.compile, FakeTensor tracing, state_dict helpers)")
    quantizer_geometry(chk)
    qbits_geometry(chk)
    if chk.pid == "C06":
        from ..report import AliasedCheck
        from . import c14
        c14.run(AliasedCheck(chk, {"C14.R1": "C06.R9"}))
    scalar_scale_clause(chk)
    chk.assume("torch's wrapper-subclass contract: outer size/stride/dtype/device are exactly what _make_wrapper_subclass is given")


def wrapper_rule(chk):
    repo = chk.repo
    n = 0
    for lst in repo.classes.values():
        for ci in lst:
            new = ci.own("__new__")
            if new is None:
                continue
            calls = [c for c in ast.walk(new) if isinstance(c, ast.Call) and U(c.func).endswith("_make_wrapper_subclass")]
            if not calls:
                continue
            n += 1
            c = calls[0]
            site = f"{ci.mod.rel}:{c.lineno}"
            params = positional_params(new)
            args = [U(a) for a in c.args]
            kw = {k.arg: U(k.value) for k in c.keywords}
            has_scale = "scale" in params
            ok_cls = args[:1] == [params[0]]
            ok_size = (args[1:2] == ["size"]) or kw.get("size") == "size"
            ok_stride = kw.get("strides") == "stride" or args[2:3] == ["stride"]
            want_dtype = "scale.dtype" if has_scale else "torch.uint8"
            ok_dtype = kw.get("dtype") == want_dtype
            ok_dev = kw.get("device") == "data.device"
            ok_rg = kw.get("requires_grad") == "requires_grad"
            fn = f"{ci.name}.__new__"
            chk.require("C06.R3", site, ok_cls and ok_size and ok_stride, f"{fn}: wrapper built with (cls, size, strides=stride): {args} {kw.get('strides')}", fn, "wrapper size/stride", "any tensor: reported shape/stride differ from the constructor arguments")
            chk.require("C06.R3", site, ok_dtype, f"{fn}: wrapper dtype is `{kw.get('dtype')}` (expected {want_dtype})", fn, "wrapper dtype", "any tensor whose scale dtype is not the hard-coded one: reported dtype differs from dequantize().dtype")
            chk.require("C06.R3", site, ok_dev, f"{fn}: wrapper device is `{kw.get('device')}` (expected data.device)", fn, "wrapper device", "a tensor on a non-default device")
            chk.require("C06.R3", site, ok_rg, f"{fn}: requires_grad forwarded", fn, "wrapper requires_grad", "a tensor constructed with requires_grad=True")
            asserts = [U(a.test) for a in ast.walk(new) if isinstance(a, ast.Assert)]
            for other in ("scale", "zeropoint"):
                if other in params:
                    ok = f"data.device == {other}.device" in asserts or f"{other}.device == data.device" in asserts
                    chk.require("C06.R3", site, ok, f"{fn}: asserts data.device == {other}.device", fn, f"device assert {other}", f"payload and {other} on different devices: the wrapper reports one device while holding two")
    chk.floor("C06.R3", n, 5, "wrapper subclasses with __new__")
    # constructor fields: what the wrapper reports (qtype, axis, group size) and holds (scale, zero-point) is what the constructor was given
    from ..core import paths_of
    n_f = 0
    for cname in ("QTensor", "QBytesTensor", "QBitsTensor"):
        if not repo.has_cls(cname):
            continue
        ci = repo.cls(cname)
        init = ci.own("__init__")
        if init is None:
            continue
        params = positional_params(init)[1:]
        fn = f"{cname}.__init__"
        for p in paths_of(init, inline_helpers=False):
            if p.end[0] == "raise":
                continue
            site = f"{ci.mod.rel}:{init.lineno}"
            for ef in p.effects:
                if ef[0] == "store" and U(ef[1]) == "self" and ef[2].startswith("_") and ef[2][1:] in params and ef[2] != "_data":
                    n_f += 1
                    chk.require("C06.R3", f"{ci.mod.rel}:{ef[4]}", U(ef[3]) == ef[2][1:], f"{fn}: self.{ef[2]} = `{U(ef[3])[:50]}` (the constructor argument, unchanged)", fn, f"field {ef[2]} stored as given",
                                f"a tensor built with a {ef[2][1:]} that the constructor rewrites: the wrapper reports another {ef[2][1:]} than the one its inner tensors were laid out for (e.g. an axis of size 1 turned into None while scale and payload stay grouped)")
                if ef[0] == "expr" and isinstance(ef[1], ast.Call) and U(ef[1].func) == "super().__init__":
                    n_f += 1
                    chk.require("C06.R3", f"{ci.mod.rel}:{ef[2]}", [U(a) for a in ef[1].args] == ["qtype", "axis"] and not ef[1].keywords, f"{fn}: base constructor receives (qtype, axis) unchanged (`{U(ef[1])[:60]}`)", fn, "base constructor arguments",
                                "any tensor: qtype / axis swapped or rewritten on the way to the base class")
    chk.floor("C06.R3", n_f, 6, "constructor field stores")


def _norm_src(t: str) -> str:
    from ..core import CanonStr
    return CanonStr(t.replace("t.qbits_tensor()", "t"))


def moves_rule(chk, r2="C06.R2", r4="C06.R4"):
    repo = chk.repo
    hs = handlers(repo)
    found = 0
    for h in hs["qbytes"]:
        if set(h.ops) & {"aten._to_copy", "aten.to"}:
            found += 1
            fn = h.fn
            site = f"{h.mi.rel}:{fn.lineno}"
            x = positional_params(fn)[1]
            kwn = fn.args.kwarg.arg if fn.args.kwarg else None
            for p in paths_of(fn):
                if p.end[0] != "return":
                    continue
                f = handrules.ctor_fields(repo, "QBytesTensor", p.end[1]) if handrules.is_ctor(p.end[1]) else None
                pf = path_facts(p)
                wide_only = any("dtype.itemsize" in k for k in pf)  # the guard also keeps 8-bit float dtypes away from the scale
                chk.require(r4, f"{h.mi.rel}:{p.end[2]}", wide_only, f"QBytes {h.name}: an 8-bit float dtype never reaches the scale (guard on dtype.itemsize on the path: {wide_only})", h.name, "scale cast to an 8-bit float dtype",
                            "q.to(torch.float8_e4m3fn) on a qint8 tensor (or model.to(torch.float8_e4m3fn) on a frozen model): a QBytesTensor whose scale is float8; dequantize() and every fallback raise `Promotion for Float8 Types is not supported`")
                float_dtype = pf.get("dtype is None") is True or pf.get("dtype.is_floating_point") is True or any(
                    v is False and "dtype is not None" in k and "dtype.is_floating_point" in k for k, v in pf.items()) or any(
                    v is False and "dtype is not None" in k and "not dtype.is_floating_point" in k and " or " not in k for k, v in pf.items()) or any(
                    v is True and "dtype is None" in k and " or dtype.is_floating_point" in k and " and " not in k for k, v in pf.items())
                if f is None:
                    # a move to a non-floating dtype cannot keep the tensor quantized (the scale would be cast to an integer): it converts the dequantized values
                    e_ = p.end[1]
                    fallback = handrules.is_op_call(e_) and [U(a) for a in e_.args] == [f"{x}.dequantize()"] and {k.arg: U(k.value) for k in e_.keywords} == {"dtype": "dtype", None: kwn}
                    if fallback and pf.get("dtype is None") is False and (pf.get("dtype.is_floating_point") is False or any("dtype.is_floating_point" in k and v is True and " or " in k for k, v in pf.items())):
                        chk.ok(r4, f"{h.mi.rel}:{p.end[2]}", f"QBytes {h.name}: a move to a non-floating dtype converts the dequantized values (`{U(e_)[:60]}`)")
                    else:
                        chk.unknown(r4, site, "QBytes _to_copy does not return a constructor call")
                    continue
                d, s = f["data"], f["scale"]
                dkw = {k.arg: U(k.value) for k in d.keywords} if isinstance(d, ast.Call) else {}
                skw = {k.arg: U(k.value) for k in s.keywords} if isinstance(s, ast.Call) else {}
                ok_d = handrules.is_op_call(d) and [U(a) for a in d.args] == [f"{x}._data"] and dkw.get("dtype") == f"{x}._data.dtype" and dkw.get(None) == kwn
                # the scale takes the other arguments too, except the memory format (it describes the layout of the data; a 0-dim scale cannot be channels_last)
                no_mf = (f"{{k: v for (k, v) in {kwn}.items() if k != 'memory_format'}}", f"{{k: v for k, v in {kwn}.items() if k != 'memory_format'}}")
                ok_s = handrules.is_op_call(s) and [U(a) for a in s.args] == [f"{x}._scale"] and skw.get("dtype") == "dtype" and skw.get(None) in (kwn,) + no_mf
                chk.require(r4, f"{h.mi.rel}:{p.end[2]}", skw.get(None) in no_mf or "memory_format" in skw and False, f"QBytes {h.name}: the memory format is not forwarded to the scale (`**{skw.get(None)}`)", h.name, "memory_format forwarded to the scale",
                            "q.to(memory_format=torch.channels_last) on a rank-4 per-tensor quantized tensor: RuntimeError `required rank 4 tensor` from the 0-dim scale (the float program is valid)")
                chk.require(r4, f"{h.mi.rel}:{p.end[2]}", float_dtype, f"QBytes {h.name}: the requested dtype reaches the scale only when it is None or floating point (path: {' & '.join(p.cond_texts())[:60]})", h.name, "scale cast to a non-floating dtype",
                            "q.to(torch.int32): the scale 0.79 becomes 0, the result reports int32, dequantizes to int8 and is all zeros where the float program gives trunc(x)")
                chk.require(r4, f"{h.mi.rel}:{p.end[2]}", ok_d, f"QBytes {h.name}: payload moved as `{U(d)[:70]}` keeping its own dtype, other arguments forwarded", h.name, "payload keeps dtype on move", "q.to(torch.float16): the codes are cast to float16 and no longer match the qtype")
                chk.require(r4, f"{h.mi.rel}:{p.end[2]}", ok_s, f"QBytes {h.name}: scale moved as `{U(s)[:70]}` with the requested dtype, other arguments forwarded", h.name, "scale takes requested dtype", "q.to(dtype) / q.to(device): dtype or device of the scale not updated")
    for h in hs["qbytes"]:
        if "aten.clone" in h.ops:
            x = positional_params(h.fn)[1]
            for p in paths_of(h.fn):
                if p.end[0] == "return" and handrules.is_ctor(p.end[1]):
                    f = handrules.ctor_fields(repo, "QBytesTensor", p.end[1])
                    s_ = f["scale"] if f else None
                    kws = [k.arg for k in s_.keywords] if isinstance(s_, ast.Call) else []
                    chk.require(r4, f"{h.mi.rel}:{p.end[2]}", "memory_format" not in kws, f"QBytes {h.name}: the memory format is not forwarded to the clone of the scale (`{U(s_)[:50]}`)", h.name, "memory_format forwarded to the scale",
                                "q.clone(memory_format=torch.channels_last) on a rank-4 per-tensor quantized tensor: RuntimeError from the 0-dim scale")
    for h in hs["qbits"]:
        fn = h.fn
        x = positional_params(fn)[1]
        if "aten._to_copy" in h.ops:
            found += 1
            ps = paths_of(fn)
            refusals = [p for p in ps if p.end[0] == "raise"]
            ok_ref = len(refusals) >= 1 and all("ValueError" in U(p.end[1]) and p.holds(f"dtype == {x}.dtype") is False and p.holds("dtype is None") is False for p in refusals)
            chk.require(r4, f"{h.mi.rel}:{fn.lineno}", ok_ref, f"QBits {h.name}: a dtype change is refused with ValueError (and nothing else is)", h.name, "dtype refusal", "q4.to(torch.float16) on a float32 low-bit tensor")
            for p in ps:
                if p.end[0] != "return":
                    continue
                e = p.end[1]
                site = f"{h.mi.rel}:{p.end[2]}"
                if not (isinstance(e, ast.Call) and U(e.func) == "QBitsTensor.create"):
                    chk.bad(r4, site, h.name, "rebuild through create", f"QBits {h.name} returns `{U(e)[:60]}` instead of QBitsTensor.create(...)", "moving an optimised tensor to/from CUDA")
                    continue
                create = repo.cls("QBitsTensor").own("create")
                f = bind_call(create, e)
                src = {k: _norm_src(U(v)) for k, v in f.items()}
                want = {"qtype": f"{x}._qtype", "axis": f"{x}._axis", "group_size": f"{x}._group_size", "size": f"{x}.size()", "stride": f"{x}.stride()"}
                okf = all(src.get(k) in (v, v.replace("._", ".")) for k, v in want.items())
                chk.require(r2, site, okf, f"QBits {h.name}: qtype/axis/group_size/size/stride carried from the source: { {k: src.get(k) for k in want} }", h.name, "QBits fields carried", "any low-bit tensor moved between devices")
                def kwof(c):
                    return {k.arg: U(k.value) for k in c.keywords} if isinstance(c, ast.Call) else {}
                kwn = fn.args.kwarg.arg if fn.args.kwarg else None
                d, s, z = f["data"], f["scale"], f["zeropoint"]
                # the other arguments are forwarded; the memory format describes the layout of the data, so the (grouped, 2-D) scale and zero-point get
                # the arguments without it, and so does a payload that no longer has the shape of the tensor
                no_mf = (f"{{k: v for (k, v) in {kwn}.items() if k != 'memory_format'}}", f"{{k: v for k, v in {kwn}.items() if k != 'memory_format'}}")
                rest_d = kwof(d).get(None)
                ok_rest_d = rest_d in (kwn,) + no_mf or (isinstance(rest_d, str) and rest_d.startswith(f"{kwn} if ") and any(rest_d.endswith(" else " + m_) for m_ in no_mf))
                ok_d = handrules.is_op_call(d) and _norm_src(U(d.args[0])) == f"{x}._data" and "dtype" not in kwof(d) and kwof(d).get("device") == "device" and ok_rest_d
                ok_z = handrules.is_op_call(z) and _norm_src(U(z.args[0])) == f"{x}._zeropoint" and "dtype" not in kwof(z) and kwof(z).get("device") == "device" and kwof(z).get(None) in (kwn,) + no_mf
                ok_s = handrules.is_op_call(s) and _norm_src(U(s.args[0])) == f"{x}._scale" and kwof(s).get("dtype") == "dtype" and kwof(s).get("device") == "device" and kwof(s).get(None) in (kwn,) + no_mf
                chk.require(r4, site, kwof(s).get(None) in no_mf and kwof(z).get(None) in no_mf, f"QBits {h.name}: the memory format is not forwarded to the scale / zero-point (`**{kwof(s).get(None)}`)", h.name, "memory_format forwarded to the scale",
                            "a group-wise qint4 Conv2d weight (rank 4) moved with .to(memory_format=torch.channels_last) - what nn.Module.to(memory_format=...) does to every 4-D parameter: RuntimeError `required rank 4 tensor` from the 2-D grouped scale")
                chk.require(r4, site, ok_d and ok_z, f"QBits {h.name}: payload and zero-point moved with device only (no dtype)", h.name, "payload/zeropoint moved without dtype", "q4.to(device, dtype=q4.dtype): integer payload cast to a float dtype")
                chk.require(r4, site, ok_s, f"QBits {h.name}: scale moved with dtype and device", h.name, "scale moved", "q4.to(device)")
        if "aten.detach" in h.ops:
            found += 1
            for p in paths_of(fn):
                if p.end[0] != "return":
                    continue
                e = p.end[1]
                site = f"{h.mi.rel}:{p.end[2]}"
                keeps = isinstance(e, ast.Call) and U(e.func) in (f"{x}.__class__", f"type({x})")
                chk.require(r4, site, keeps, f"QBits {h.name}: detach rebuilds with the operand's own class ({U(e.func) if isinstance(e, ast.Call) else '?'})", h.name, "detach keeps class", "detach (Parameter construction) of an optimised subclass")
                if keeps:
                    init = repo.method(repo.cls("QBitsTensor"), "__init__")[1]
                    f = bind_call(init, e, skip_first=1)
                    want = {"qtype": f"{x}._qtype", "axis": f"{x}._axis", "group_size": f"{x}._group_size", "size": f"{x}.size()", "stride": f"{x}.stride()", "data": f"op({x}._data)", "scale": f"op({x}._scale)", "zeropoint": f"op({x}._zeropoint)"}
                    okf = f is not None and all(U(f[k]) in (v, v.replace("._q", ".q").replace("._a", ".a")) for k, v in want.items())
                    chk.require(r2, site, okf, f"QBits {h.name}: all fields carried, payload/scale/zero-point through op only", h.name, "QBits detach fields", "Parameter(q4) / q4.detach()")
    chk.floor(r4, found, 3, "move/detach handlers")


def quantizer_geometry(chk):
    """C06.R7 (= C01.R5 / C02.R2): size and stride are read from the source before it is rebound."""
    repo = chk.repo
    n = 0
    for cname, ctor, factory in (("SymmetricQuantizer", "QBytesTensor", None), ("AffineQuantizer", "QBitsTensor", "QBitsTensor.create")):
        ci = repo.cls(cname)
        fwd = ci.own("forward")
        base = positional_params(fwd)[1]
        for p in paths_of(fwd):
            if p.end[0] != "return":
                continue
            e = p.end[1]
            site = f"{ci.mod.rel}:{p.end[2]}"
            if not isinstance(e, ast.Call):
                chk.unknown("C06.R7", site, f"{cname}.forward returns a non-call")
                continue
            if U(e.func) == ctor:
                f = handrules.ctor_fields(repo, ctor, e)
            elif factory and U(e.func) == factory:
                f = bind_call(repo.cls("QBitsTensor").own("create"), e)
            else:
                chk.unknown("C06.R7", site, f"{cname}.forward returns `{U(e.func)}`")
                continue
            n += 1
            sz, st = U(f["size"]), U(f["stride"])
            chk.require("C06.R7", site, sz in (f"{base}.size()", f"{base}.shape") and st == f"{base}.stride()", f"{cname}.forward passes size `{sz}` and stride `{st}` of the un-rebound source `{base}`", f"{cname}.forward", "quantizer geometry", "grouped quantization (the source is reshaped before the payload is computed): the result reports the grouped shape")
    chk.floor("C06.R7", n, 2, "quantizer return paths")


def qbits_geometry(chk, rule="C06.R10"):
    """Every call that builds a QBitsTensor / AWQBitsTensor (constructor, `create` factory) binds (size, stride, data): the size and stride expressions,
    with local names expanded along the path, must not be taken from the data expression."""
    from ..core import bind_call
    repo = chk.repo
    qb = repo.cls("QBitsTensor")
    classes = {c.name: c for c in [qb] + repo.subclasses(qb)}
    create = qb.own("create")
    n = 0
    for mi in repo.modules.values():
        if not mi.rel.startswith("optimum/"):
            continue
        for fn in [x for x in ast.walk(mi.tree) if isinstance(x, ast.FunctionDef)]:
            if not any(isinstance(c, ast.Call) and (U(c.func) in classes or U(c.func) in tuple(f"{k}.create" for k in classes)) for c in ast.walk(fn)):
                continue
            seen = set()
            try:
                ps = paths_of(fn)
            except AnalysisError as e:
                chk.unknown(rule, f"{mi.rel}:{fn.lineno}", f"{fn.name}: paths not enumerated ({e})")
                continue
            for p in ps:
                exprs = [ef[1] for ef in p.effects if ef[0] == "expr"] + [ef[3] for ef in p.effects if ef[0] == "store"] + ([p.end[1]] if p.end[0] == "return" and p.end[1] is not None else [])
                for e in exprs:
                    for c in [x for x in ast.walk(e) if isinstance(x, ast.Call)]:
                        name = U(c.func)
                        target = None
                        if name in classes:
                            init = classes[name].own("__init__") or qb.own("__init__")
                            target, skip = init, 1
                        elif name.endswith(".create") and name[:-7] in classes and create is not None:
                            target, skip = create, 0
                        if target is None:
                            continue
                        b = bind_call(target, c, skip_first=skip)
                        if b is None or not all(k in b for k in ("size", "stride", "data")):
                            continue
                        key = (c.lineno, U(b["size"]), U(b["stride"]), U(b["data"]))
                        if key in seen:
                            continue
                        seen.add(key)
                        n += 1
                        d = U(b["data"])
                        bad = [k for k in ("size", "stride") if d and d not in ("data", "None") and (U(b[k]).startswith(d + ".") or U(b[k]).startswith(d + "["))]
                        inner = [k for k in ("size", "stride") if "._data" in U(b[k])]
                        chk.require(rule, f"{mi.rel}:{c.lineno}", not bad and not inner, f"{fn.name}: {name}(size={U(b['size'])[:40]}, stride={U(b['stride'])[:40]}, data={d[:40]}) takes its geometry from the tensor, not from the payload",
                                    fn.name, f"{'/'.join(bad or inner)} taken from the grouped payload", "a group-wise quantized qint4 Linear weight reloaded from a state_dict (optimize() rebuilds it): it reports stride (group_size, 1), the state_dict "
                                    "saved again differs (`weight.stride`), and a group-wise Conv2d weight cannot be rebuilt at all (4 sizes, 2 strides)")
    chk.floor(rule, n, 5, "QBits constructor / factory call sites")


def scalar_scale_clause(chk):
    """C06.R9: on the per-tensor path of the symmetric quantizer the scale is 0-dim (a one-element scale WITH dims makes base / scale
    take the broadcast shape while the wrapper keeps base.size())."""
    from ..core import path_facts, paths_of
    repo = chk.repo
    ci = repo.cls("SymmetricQuantizer")
    fwd = ci.own("forward")
    ps_ = positional_params(fwd)
    axis, scale = ps_[3], ps_[4]
    n = 0
    for p in paths_of(fwd):
        if p.end[0] != "return":
            continue
        f = path_facts(p)
        if f.get(f"{axis} is None") is not True:
            continue
        n += 1
        zero_dim = f.get(f"{scale}.ndim > 0") is False or f.get(f"{scale}.ndim == 0") is True or f.get(f"{scale}.shape == ()") is True or f.get(f"len({scale}.shape) == 0") is True
        reshaped = any(isinstance(nd, ast.Call) and isinstance(nd.func, ast.Attribute) and nd.func.attr in ("reshape", "view", "squeeze", "item") and U(nd.func.value) == scale for v in [p.end[1]] + [x for ef in p.effects for x in ef if isinstance(x, ast.AST)] for nd in ast.walk(v))
        chk.require("C06.R9", f"{ci.mod.rel}:{p.end[2]}", zero_dim or reshaped, f"SymmetricQuantizer.forward (per-tensor): the scale is known to be 0-dim on this accepting path (or is reshaped to it)", "SymmetricQuantizer.forward", "per-tensor scale is 0-dim",
                    "a one-element scale that has dims (computed with keepdim=True): payload and dequantized value take the broadcast shape (1, n) while the tensor reports (n,)")
    chk.floor("C06.R9", n, 1, "per-tensor accepting paths of the symmetric quantizer")
