"""C01 - 8-bit symmetric quantization is a nearest-grid-point projection (structural clauses)."""
import ast

from .. import quant
from ..core import AnalysisError, U, bind_call, inline, path_facts, paths_of, positional_params, strip_noop_calls
from ..hand import ctor_fields
from ..registries import DTYPE_RANGE, qtype_table

TITLE = "8-bit symmetric quantization is a nearest-grid-point projection"

RULES = {
    "C01.R1": "pipeline typestate: payload = CAST(qtype.dtype) . CLAMP(StorageRange(qtype.dtype).min, .max) . [ROUND-to-nearest iff integer qtype] . [NaN sanitiser] . DIV(base, scale)",
    "C01.R2": "same scale: the scale stored in the tensor is the very term used as divisor",
    "C01.R3": "range source: dtype_info selects torch.finfo iff the dtype is floating point, else torch.iinfo; the qtype table maps each 8-bit qtype to a storage dtype of that family",
    "C01.R4": "dequantizer: scale * payload on the integer path, scale * payload.to(scale.dtype) on the float path; nothing else",
    "C01.R5": "both entry points (quantize_activation, 8-bit quantize_weight) reach the same quantizer; axis normalisation ndim-1 -> -1",
    "C01.R6": "elementwise closure: no reduction, matmul or indexing between the source and the payload (premise of locality)",
}


def run(chk):
    for k, v in RULES.items():
        chk.rule(k, v)
    repo = chk.repo
    ci = repo.cls("SymmetricQuantizer")
    mi = ci.mod
    fwd = ci.own("forward")
    ps_ = positional_params(fwd)
    base, qt, axis, scale = ps_[1], ps_[2], ps_[3], ps_[4]
    n = 0
    for p in paths_of(fwd):
        if p.end[0] != "return":
            continue
        e = p.end[1]
        site = f"{mi.rel}:{p.end[2]}"
        if not (isinstance(e, ast.Call) and U(e.func) == "QBytesTensor"):
            chk.unknown("C01.R1", site, f"SymmetricQuantizer.forward returns `{U(e)[:60]}`")
            continue
        f = ctor_fields(repo, "QBytesTensor", e)
        facts = path_facts(p)
        fp = facts.get(f"{qt}.is_floating_point")
        if fp is None:
            # rounding not conditioned on the qtype family: examine as both
            fp_known = False
        else:
            fp_known = True
        n += 1
        data = inline(repo, mi, f["data"])
        stages = quant.peel(data)
        names = quant.stage_names(stages)
        # an alternative route (`data = _own_codes(base, ...)`; `if data is None: <the pipeline>`): on the path where the helper answered, the codes come
        # from it - not followed; the pipeline on the path where it declined is what the rule judges
        helper_leaf = any(isinstance(x, ast.Call) and isinstance(x.func, ast.Name) and x.func.id.startswith("_") and not x.func.id.startswith("__") for x in ast.walk(data))
        helper_cond = any(t is False and " is None" in U(c) and any(isinstance(x, ast.Call) and isinstance(x.func, ast.Name) and x.func.id.startswith("_") for x in ast.walk(c)) for c, t, _ in p.conds)
        codes_leaf = any(isinstance(x, ast.Attribute) and x.attr == "_data" for x in ast.walk(data)) and any(t is True and "isinstance(" in U(c) and "QBytesTensor" in U(c) for c, t, _ in p.conds) or \
            any(isinstance(x, ast.Attribute) and x.attr == "_data" for x in ast.walk(data)) and any(t is False and "isinstance(" in U(c) and "QBytesTensor" in U(c) and U(c).startswith("not ") for c, t, _ in p.conds)
        if codes_leaf and not any(s_[0] == "div" for s_ in stages):
            chk.unknown("C01.R1", site, f"SymmetricQuantizer.forward: on the path [{' & '.join(p.cond_texts())[:80]}] the base is itself a quantized tensor and its codes are reused: an alternative route, not followed")
            continue
        if helper_leaf and helper_cond and not any(s_[0] == "div" for s_ in stages):
            chk.unknown("C01.R1", site, f"SymmetricQuantizer.forward: on the path [{' & '.join(p.cond_texts())[:80]}] the codes come from a private helper (an alternative route that may decline): not followed")
            continue
        fn = "SymmetricQuantizer.forward"
        fam = "float8" if fp else "int8"
        # --- expected order
        idx = 0
        ok = True

        def bad(tag, detail, witness):
            nonlocal ok
            ok = False
            chk.bad("C01.R1", site, fn, f"{tag} ({fam if fp_known else 'any'} path)", f"{fn} [{fam if fp_known else 'unconditioned'} path] payload `{U(f['data'])[:110]}`: {detail}", witness)

        if not stages or stages[0][0] != "cast":
            bad("no final cast", f"stages {names}: the payload is not cast to the storage dtype last", "any input")
            continue
        if U(stages[0][1]) != f"{qt}.dtype":
            bad("cast target", f"cast to `{U(stages[0][1])}` instead of {qt}.dtype", "a qtype whose storage dtype differs")
        rest = stages[1:]
        if not rest or rest[0][0] != "clamp":
            if any(s[0] == "clamp" for s in rest):
                bad("cast before clamp", f"stages {names}: the clamp is not the stage right before the cast", "values beyond the storage range wrap around instead of saturating")
            else:
                bad("no clamp", f"stages {names}: no clamp before the cast", "values beyond the storage range wrap around (int8) or become NaN/inf (float8)")
            continue
        lo, hi = rest[0][1], rest[0][2]
        lo_ok = quant.is_storage_bound(repo, mi, lo, "min", f"{qt}.dtype", fp if fp_known else None)
        hi_ok = quant.is_storage_bound(repo, mi, hi, "max", f"{qt}.dtype", fp if fp_known else None)
        if not (lo_ok and hi_ok):
            bad("clamp bounds", f"clamp bounds are (`{U(lo) if lo is not None else None}`, `{U(hi) if hi is not None else None}`), expected the min/max of the storage range of {qt}.dtype",
                "elements beyond the grid: qint8 values below -127.5*scale do not reach the end point -128 (or saturate at a bound of another dtype)")
        rest = rest[1:]
        # NaN -> 0 commutes with rounding (round(NaN) is NaN, round(0) is 0): a sanitiser applied after the rounding is the same pipeline
        if len(rest) >= 2 and rest[0][0] == "nan_to_num" and rest[1][0] == "round":
            rest = [rest[1], rest[0]] + list(rest[2:])
        rounds = [s for s in rest if s[0] == "round"]
        if fp_known:
            if fp and rounds:
                bad("rounding on the float path", f"stages {names}: float8 codes are rounded to integers before the cast", "float8 qtypes: fractional codes (|v| < 16) are lost")
            if not fp:
                if not rounds:
                    bad("no rounding on the integer path", f"stages {names}: the cast truncates toward zero", "any element whose quotient has a fractional part >= 0.5")
                elif rounds[0][1] != "nearest" or len(rounds) > 1:
                    bad("rounding mode", f"stages {names}: rounding is `{rounds[0][1]}`, not round-to-nearest", "any element whose quotient has a fractional part >= 0.5 (floor/trunc) or < 0.5 (ceil)")
                elif rest[0][0] != "round":
                    bad("rounding position", f"stages {names}: rounding is not applied right before the clamp", "mid-point inputs")
        else:
            bad("rounding not conditioned", f"stages {names}: rounding is not conditioned on {qt}.is_floating_point", "float8 qtypes are rounded to integers, or int8 is not rounded")
        rest = [s for s in rest if s[0] != "round"]
        # optional sanitiser
        if rest and rest[0][0] == "nan_to_num":
            kw = rest[0][1]
            nan = kw.get("nan")
            okn = nan is None or (isinstance(nan, ast.Constant) and nan.value in (0, 0.0))
            # posinf=None / neginf=None are the defaults spelled out (infinities map to the extremes of the dtype, then the clamp saturates them)
            extra = [k for k in kw if k not in ("nan",) and not (k in ("posinf", "neginf") and isinstance(kw[k], ast.Constant) and kw[k].value is None)]
            if not okn or extra:
                bad("sanitiser arguments", f"nan_to_num({ {k: U(v) for k, v in kw.items()} }) is not the identity on finite quotients followed by NaN -> 0", "infinite or NaN quotients mapped to a non-zero code")
            rest = rest[1:]
        elif rest and rest[0][0] == "where":
            cond, a, b = rest[0][1], rest[0][2], rest[0][3]
            z = quant.is_zero_test(cond, scale)
            isnan = U(cond) in (f"torch.isnan({U(a)})", f"torch.isnan({U(b)})")
            if z is None and not isnan:
                bad("sanitiser condition", f"`torch.where({U(cond)[:50]}, ...)` replaces quotients under a condition that is not `scale == 0` / isnan(quotient)", "a finite positive scale satisfying the condition (e.g. below a threshold): all codes become the replacement value")
            rest = rest[1:]
        if not rest or rest[0][0] != "div":
            extra = [s[0] for s in rest if s[0] not in ("div", "leaf")]
            bad("extra arithmetic", f"stages {names}: unexpected `{extra or names}` between the division and the clamp", "any input: codes are offset or rescaled")
            continue
        num, den, mode = rest[0][1], rest[0][2], rest[0][3]
        if mode is not None and not (isinstance(mode, ast.Constant) and mode.value is None):
            bad("division rounding mode", f"division uses rounding_mode={U(mode)}", "any fractional quotient")
        if U(num) != base or U(den) != scale:
            if U(num) == scale and U(den) == base:
                bad("inverted division", f"payload divides `{U(num)}` by `{U(den)}`", "any input")
            else:
                bad("division operands", f"payload divides `{U(num)[:40]}` by `{U(den)[:40]}`, expected {base} / {scale}", "any input")
        if ok:
            chk.ok("C01.R1", site, f"{fn} [{fam} path]: stages {names}")
            chk.ok("C01.R6", site, f"{fn} [{fam} path]: only elementwise operations between `{base}` and the payload")
        # R2
        chk.require("C01.R2", site, U(f["scale"]) == scale and U(den) == U(f["scale"]), f"{fn}: the stored scale `{U(f['scale'])}` is the divisor", fn, "stored scale is the divisor", "any input: dequantization multiplies by another scale than quantization divided by")
        chk.require("C01.R2", site, U(f["qtype"]) == qt, f"{fn}: the stored qtype is the requested one", fn, "stored qtype", "any input")
    chk.floor("C01.R1", n, 2, "quantizer return paths (int / float)")
    # ---- R3
    mid, di = repo.func("dtype_info")
    d = positional_params(di)[0]
    ok3 = False
    txt = ""
    for p in paths_of(di):
        if p.end[0] == "return":
            txt = U(p.end[1])
            ok3 = txt in (f"(torch.finfo if {d}.is_floating_point else torch.iinfo)({d})", f"(torch.iinfo if not {d}.is_floating_point else torch.finfo)({d})")
    two = [p for p in paths_of(di) if p.end[0] == "return"]
    if len(two) == 2:
        ok3 = all((U(p.end[1]) == f"torch.finfo({d})") == (path_facts(p).get(f"{d}.is_floating_point") is True) and U(p.end[1]) in (f"torch.finfo({d})", f"torch.iinfo({d})") for p in two)
    chk.require("C01.R3", f"{mid.rel}:{di.lineno}", ok3, f"dtype_info returns `{txt[:80]}`: finfo iff floating point", "dtype_info", "range source", "float8 qtypes clamped with integer bounds (TypeError) or int8 with float bounds")
    table = qtype_table(repo)
    for name, rec in sorted(table.items()):
        if rec["bits"] != 8:
            continue
        dt = rec["dtype"]
        okf = dt in DTYPE_RANGE and (("float" in dt) == rec["is_floating_point"])
        chk.require("C01.R3", f"{repo.cls('qtype').mod.rel}", okf, f"qtype {name}: storage {dt}, is_floating_point={rec['is_floating_point']}", "qtype table", f"qtype {name} family", f"{name}: rounding is chosen for the wrong family")
    # ---- R4 dequantizer
    dq = repo.cls("QBytesDequantizer")
    fw = dq.own("forward")
    t = positional_params(fw)[1]
    n4 = 0
    for p in paths_of(fw):
        if p.end[0] != "return":
            continue
        n4 += 1
        facts = path_facts(p)
        fp = facts.get(f"{t}.qtype.is_floating_point")
        from ..core import strip_noop_calls
        e = U(strip_noop_calls(p.end[1]))  # layout / device / graph-membership calls do not change the values of the product
        site = f"{dq.mod.rel}:{p.end[2]}"
        want_f = (f"{t}._scale * {t}._data.to({t}._scale.dtype)", f"{t}._data.to({t}._scale.dtype) * {t}._scale")
        want_i = (f"{t}._scale * {t}._data", f"{t}._data * {t}._scale")
        if fp is True:
            chk.require("C01.R4", site, e in want_f, f"dequantize (float8): `{e}`", "QBytesDequantizer.forward", "float dequantize term", "any float8 tensor")
        elif fp is False:
            chk.require("C01.R4", site, e in want_i + want_f, f"dequantize (int8): `{e}`", "QBytesDequantizer.forward", "int dequantize term", "any int8 tensor")
        else:
            chk.require("C01.R4", site, e in want_f, f"dequantize (unconditioned): `{e}`", "QBytesDequantizer.forward", "dequantize term", "any tensor")
    chk.floor("C01.R4", n4, 1, "dequantizer paths")
    # ---- R5 entry points
    ma, qa = repo.func("quantize_activation")
    for p in paths_of(qa):
        if p.end[0] == "return":
            e = p.end[1]
            ok = isinstance(e, ast.Call) and U(e.func) == "SymmetricQuantizer.apply" and [U(strip_noop_calls(a)) for a in e.args] == [positional_params(qa)[0], positional_params(qa)[1], "None", positional_params(qa)[2]]
            chk.require("C01.R5", f"{ma.rel}:{p.end[2]}", ok, f"quantize_activation -> `{U(e)[:80]}`", "quantize_activation", "activation entry point", "any activation: another quantizer / scale / axis is used")
    mw, qw = repo.func("quantize_weight")
    tq, qtq, axq = positional_params(qw)[:3]
    n5 = 0
    for p in paths_of(qw):
        if p.end[0] == "return" and path_facts(p).get(f"{qtq}.bits == 8") is True:
            e = strip_noop_calls(p.end[1])  # detach / clone / contiguous of the scale do not change what is quantized
            n5 += 1
            ok = isinstance(e, ast.Call) and U(e.func) == "SymmetricQuantizer.apply" and len(e.args) == 4 and U(e.args[0]) == tq and U(e.args[1]) == qtq
            if ok:
                ax_arg, sc_arg = e.args[2], e.args[3]
                # the scale comes from the optimizer called with the same tensor and the same (possibly rewritten) axis
                okc = isinstance(sc_arg, ast.Call) and [U(a) for a in sc_arg.args] == [tq, f"{qtq}.bits", U(ax_arg)]
                ok = ok and okc
            chk.require("C01.R5", f"{mw.rel}:{p.end[2]}", ok, f"8-bit quantize_weight -> `{U(e)[:110]}`", "quantize_weight", "weight entry point", "8-bit weights: the scale is computed for another axis/tensor than the one quantized")
    chk.floor("C01.R5", n5, 2, "8-bit quantize_weight return paths")
    chk.assume("torch.round is round-half-to-even to the nearest integer, torch.clamp saturates, Tensor.to(dtype) rounds to nearest for float8 and is exact on in-range integers",
               "IEEE / two's complement ranges of the storage dtypes (table in qv/registries.py)")
