"""C08 - quantize() swaps exactly the eligible modules and each computes its float twin (structural clauses)."""
import ast
import importlib.util
import os

from ..core import AnalysisError, U, atoms, bind_call, loop_body_paths, path_facts, paths_of, positional_params, strip_identity
from ..registries import qmodules

TITLE = "quantize() swaps exactly the eligible modules and each computes its float twin"

RULES = {
    "C08.R1": "registry = {Linear, Conv2d, LayerNorm}; a qcreate may decline (return None) only for LayerNorm without quantized activations",
    "C08.R2": "constructor mirror: each qcreate binds every hyper-parameter of the wrapped torch constructor to the same-named attribute of the source module",
    "C08.R3": "nullable dereference: weight (LayerNorm) and bias are only dereferenced under an `is not None` guard or where weight_qtype is known to be set",
    "C08.R4": "copy discipline: from_module copies weight and bias with copy_ under no_grad and returns the twin moved to the source device",
    "C08.R5": "walk: quantize iterates named_modules(), applies the filter, forwards **kwargs, and replaces through set_module_by_name only when a twin was built",
    "C08.R7": "weight source: qforward reads the weight only through self.qweight, a plain property that stores nothing and returns quantize_weight(self.weight, <module configuration>) on every unfrozen access (the twin is evaluated with the quantization of its current weight)",
    "C08.R12": "a module that is already quantized is an `other module`: the quantized classes derive from the float ones, so the isinstance lookup of the registry selects them too - quantize_module (or the walk of quantize) excludes QModuleMixin instances before a twin is built",
    "C08.R11": "any input batch: a quantized implementation of a torch function that broadcasts a per-channel vector (scales, bias) against its output builds the broadcast shape from the rank of the operand - a literal shape such as `reshape(1, -1, 1, 1)` is only used under a guard on that rank (F.conv2d also takes unbatched 3-D inputs, F.linear any rank)",
    "C08.R8": "the float op the twin calls on (input, qweight, bias) is itself right: the quantized linear function returns (*batch, out) with every raw payload matched by its scale once and the bias added after scaling (the typing rules C07.R1/R2/R6, the accumulation table C07.R3, the primitive preconditions C07.R5 and the scale-product rule C07.R10, re-checked here)",
    "C08.R10": "the root of the tree is handled: named_modules() yields the model itself under the empty name, which cannot be replaced in its parent - quantize() must skip or reject it before it replaces anything or clears parameters",
    "C08.R9": "dtype and device are kept: the activation-scale buffers of a twin are created with the dtype and device the constructor receives from the source module (a factory call without dtype gives float32 scales, hence float32 outputs from a half-precision model)",
    "C08.R6": "forward pipeline: input/output (re)quantized with input_scale/output_scale and activation_qtype under `activation_qtype is not None`; qforward computes the float op on (input, qweight, bias)",
}

# frozen cross-check of the torch constructors (read again from torch's sources on every run)
TORCH_CTORS = {
    "torch.nn.Linear": ("nn/modules/linear.py", "Linear", ["in_features", "out_features", "bias", "device", "dtype"]),
    "torch.nn.Conv2d": ("nn/modules/conv.py", "Conv2d", ["in_channels", "out_channels", "kernel_size", "stride", "padding", "dilation", "groups", "bias", "padding_mode", "device", "dtype"]),
    "torch.nn.LayerNorm": ("nn/modules/normalization.py", "LayerNorm", ["normalized_shape", "eps", "elementwise_affine", "bias", "device", "dtype"]),
}
SPECIAL = {"bias": "module.bias is not None", "dtype": "module.weight.dtype", "device": "module.weight.device"}
NULLABLE = {"torch.nn.Linear": {"bias"}, "torch.nn.Conv2d": {"bias"}, "torch.nn.LayerNorm": {"weight", "bias"}}


def torch_signature(rel, cls):
    spec = importlib.util.find_spec("torch")
    if spec is None or not spec.origin:
        raise AnalysisError("torch sources not found")
    path = os.path.join(os.path.dirname(spec.origin), rel)
    tree = ast.parse(open(path).read())
    c = next((n for n in tree.body if isinstance(n, ast.ClassDef) and n.name == cls), None)
    if c is None:
        raise AnalysisError(f"class {cls} not found in torch/{rel}")
    init = next((n for n in c.body if isinstance(n, ast.FunctionDef) and n.name == "__init__"), None)
    return [a.arg for a in init.args.args[1:]] + [a.arg for a in init.args.kwonlyargs]


def run(chk):
    for k, v in RULES.items():
        chk.rule(k, v)
    repo = chk.repo
    qm = qmodules(repo)
    chk.floor("C08.R1", len(qm), 3, "registered quantized module classes")
    chk.require("C08.R1", "registry", set(qm) == set(TORCH_CTORS), f"registered module classes are {sorted(qm)}", "register_qmodule", "registry content", "a model containing the missing class is left unquantized / an unexpected class is swapped")
    mixin = repo.cls("QModuleMixin")
    for tname, ci in sorted(qm.items()):
        if tname not in TORCH_CTORS:
            continue
        rel, cls, frozen = TORCH_CTORS[tname]
        sig = torch_signature(rel, cls)
        if sig != frozen:
            chk.unknown("C08.R2", f"torch/{rel}", f"torch constructor of {cls} is {sig}, the checker's table says {frozen}")
            continue
        # base order: QModuleMixin first, torch class second
        bases = ci.bases
        ok = len(bases) >= 2 and bases[0] == "QModuleMixin" and repo.qualify(ci.mod, bases[1]) == tname
        chk.require("C08.R1", f"{ci.mod.rel}:{ci.node.lineno}", ok, f"{ci.name} derives from (QModuleMixin, {tname})", ci.name, "bases", "every instance: the mixin's __init__/forward are not the ones used")
        m = repo.method(ci, "qcreate")
        if m is None or m[0] is not ci:
            chk.bad("C08.R2", f"{ci.mod.rel}:{ci.node.lineno}", ci.name, "qcreate missing", f"{ci.name} does not define qcreate", f"quantize() of a model containing {cls}")
            continue
        qc = m[1]
        modp = positional_params(qc)[1]
        n_ret = 0
        for p in paths_of(qc):
            if p.end[0] != "return":
                continue
            e = p.end[1]
            site = f"{ci.mod.rel}:{p.end[2]}"
            if e is None or U(e) == "None":
                f = path_facts(p)
                ok = tname == "torch.nn.LayerNorm" and f.get("activations is None") is True
                chk.require("C08.R1", site, ok, f"{ci.name}.qcreate declines (returns None) only when activations is None (LayerNorm only)", f"{ci.name}.qcreate", "qcreate declines", f"quantize(model, weights=...) leaves {cls} modules unquantized")
                continue
            n_ret += 1
            if not (isinstance(e, ast.Call) and U(e.func) == "cls"):
                chk.unknown("C08.R2", site, f"{ci.name}.qcreate returns `{U(e)[:50]}`")
                continue
            if tname == "torch.nn.LayerNorm":
                f = path_facts(p)
                chk.require("C08.R1", site, f.get("activations is None") is False, "QLayerNorm is created only when activations are quantized", f"{ci.name}.qcreate", "LayerNorm created without activations", "quantize(model, weights=qint8): LayerNorm replaced although nothing is quantized in it")
            bound = {}
            for i, a in enumerate(e.args):
                if i < len(sig):
                    bound[sig[i]] = U(strip_identity(a))
            for k in e.keywords:
                if k.arg is None and isinstance(k.value, ast.Dict) and all(isinstance(x, ast.Constant) for x in k.value.keys):
                    for kk, vv in zip(k.value.keys, k.value.values):
                        bound[kk.value] = U(strip_identity(vv))
                elif k.arg is not None:
                    bound[k.arg] = U(strip_identity(k.value))
            for prm in sig:
                want = SPECIAL.get(prm, f"module.{prm}").replace("module", modp)
                got = bound.get(prm)
                if prm in ("dtype", "device") and tname == "torch.nn.LayerNorm" and got == want:
                    # reads module.weight which may be None for LayerNorm: reported by R3
                    pass
                chk.require("C08.R2", site, got == want, f"{ci.name}.qcreate binds {cls}({prm}=...) to `{got}` (expected `{want}`)", f"{ci.name}.qcreate", f"ctor param {prm}",
                            f"a {cls} with a non-default `{prm}`: the twin is built with another value and computes a different function")
            # quanto keywords
            wq = bound.get("weights")
            if tname == "torch.nn.LayerNorm":
                chk.require("C08.R3", site, wq == "None", f"QLayerNorm.qcreate passes the literal weights=None (so weight_qtype is None for a module whose weight may be None)", f"{ci.name}.qcreate", "LayerNorm weights literal None", "LayerNorm(elementwise_affine=False): the None weight would be quantized")
            else:
                chk.require("C08.R2", site, wq == "weights", f"{ci.name}.qcreate forwards weights=`{wq}`", f"{ci.name}.qcreate", "weights forwarded", "quantize(model, weights=qint4): another qtype is used")
                chk.require("C08.R2", site, bound.get("optimizer") == "optimizer", f"{ci.name}.qcreate forwards optimizer=`{bound.get('optimizer')}`", f"{ci.name}.qcreate", "optimizer forwarded", "quantize(model, optimizer=...): ignored")
            chk.require("C08.R2", site, bound.get("activations") == "activations", f"{ci.name}.qcreate forwards activations=`{bound.get('activations')}`", f"{ci.name}.qcreate", "activations forwarded", "quantize(model, activations=qint8): activations not quantized")
        chk.floor("C08.R2", n_ret, 1, f"{ci.name}.qcreate constructor paths")
    nullable_rule(chk, qm)
    copy_rule(chk)
    walk_rule(chk)
    forward_rule(chk, qm)
    scale_buffers(chk, mixin)
    root_module(chk)
    from .c09 import qweight_source
    qweight_source(chk, r2="C08.R7", r3="C08.R7")
    from ..report import AliasedCheck
    from . import c07
    c07.run(AliasedCheck(chk, {"C07.R1": "C08.R8", "C07.R2": "C08.R8", "C07.R6": "C08.R8", "C07.R3": "C08.R8", "C07.R5": "C08.R8", "C07.R10": "C08.R8"}))
    # the twins compute through torch functions (F.linear, F.conv2d behind _conv_forward, F.layer_norm): a quantized implementation registered for one
    # of them that no rule describes leaves "each twin computes its float twin" undecided
    fixed_rank_broadcasts(chk)
    already_quantized(chk)
    from .. import handrules
    for r_ in handrules.analyse(repo, chk.tier):
        if r_.pid == "C05" and r_.rule == "C05.R8" and r_.verdict == "unknown" and "function wrapper" in r_.detail:
            chk.unknown("C08.R8", r_.site, r_.detail)
    chk.assume("torch.nn.Linear/Conv2d/LayerNorm keep each constructor argument in the same-named attribute (torch contract); their signatures are re-read from torch's sources on every run")


def nullable_rule(chk, qm):
    repo = chk.repo
    mixin = repo.cls("QModuleMixin")
    shared_null = set()
    for t, s in NULLABLE.items():
        if t in qm:
            shared_null |= s
    scopes = [(mixin, fn, shared_null) for fn in mixin.node.body if isinstance(fn, ast.FunctionDef)]
    for tname, ci in qm.items():
        for fn in ci.node.body:
            if isinstance(fn, ast.FunctionDef):
                scopes.append((ci, fn, NULLABLE.get(tname, set())))
    n = 0
    for ci, fn, nullable in scopes:
        recv_names = {"self", "module", "qmodule", "m"}
        for p in paths_of(fn):
            f = path_facts(p)
            derefs = []
            exprs = [ef[1] for ef in p.effects if ef[0] in ("expr", "assert")] + [ef[3] for ef in p.effects if ef[0] in ("store", "substore")] + ([p.end[1]] if p.end[1] is not None else [])
            exprs += [c for c, _, _ in p.conds]
            exprs += [ef[1] for ef in p.effects if ef[0] == "with"]
            # short-circuit guards: in `A and B`, B is only evaluated when A holds - `self.frozen and not self.weight.requires_grad`,
            # `self.bias is not None and self.bias.dtype == ...`
            sc_guarded = set()
            for e in exprs:
                for bo in [x for x in ast.walk(e) if isinstance(x, ast.BoolOp) and isinstance(x.op, ast.And)]:
                    established = set()
                    for v_ in bo.values:
                        for x in ast.walk(v_):
                            if isinstance(x, ast.Attribute) and U(x.value) in established:
                                sc_guarded.add(id(x))
                        t_ = U(v_)
                        if t_.endswith(" is not None"):
                            established.add(t_[: -len(" is not None")])
                        if t_ in ("self.frozen",) or t_.startswith("isinstance(self.weight,"):
                            established.add("self.weight")
                        if isinstance(v_, ast.Call) and U(v_.func) == "isinstance" and v_.args:
                            established.add(U(v_.args[0]))
            for e in exprs:
                for sub in _derefs(e, nullable, recv_names):
                    derefs.append(sub)
            for node, recv, attr in derefs:
                n += 1
                base = f"{recv}.{attr}"
                guarded = f.get(f"{base} is None") is False or f.get(f"{U(node.value)} is None") is False or id(node) in sc_guarded
                if base == "self.weight":
                    # a frozen module holds a quantized weight: `self.frozen` / isinstance(self.weight, ...) holding on the path means the weight exists
                    guarded = guarded or f.get("self.frozen") is True or any(v is True and k.startswith("isinstance(self.weight,") for k, v in f.items())
                if recv == "qmodule":
                    # the twin has the parameter iff the source module has it (constructor mirror, C08.R2)
                    guarded = guarded or f.get(f"module.{attr} is None") is False
                if attr == "weight" and recv == "self":
                    guarded = guarded or f.get("self.weight_qtype is None") is False or any(f.get(k) is True for k in ("self.weight_qtype in (qint2, qint4)", "self.weight_qtype in [qint2, qint4]"))
                # conditional expressions: X.f() inside `A if keep_vars else X.f()` need the guard too (no local guard idiom in the repo)
                site = f"{ci.mod.rel}:{getattr(node, 'lineno', fn.lineno)}"
                what = f"{ci.name}.{fn.name}: `{U(node)[:50]}` dereferences nullable `{base}`"
                if guarded:
                    chk.ok("C08.R3", site, what + " under a guard")
                else:
                    chk.bad("C08.R3", site, f"{ci.name}.{fn.name}", f"deref {base}.{node.attr}", what + " without an `is not None` guard (nor a known weight_qtype)",
                            "LayerNorm(elementwise_affine=False) with quantized activations" if attr == "weight" else "a module built with bias=False")
    chk.floor("C08.R3", n, 10, "dereferences of nullable parameters")


def _derefs(e, nullable, recv_names):
    seen = set()
    for n in ast.walk(e):
        if isinstance(n, ast.Attribute) and isinstance(n.value, ast.Attribute) and n.value.attr in nullable:
            r = n.value.value
            if isinstance(r, ast.Name) and r.id in recv_names:
                recv = r.id
            elif isinstance(r, ast.Call) and U(r.func).endswith(".qcreate"):
                recv = "qmodule"
            else:
                continue
            key = (U(n), getattr(n, "lineno", 0))
            if key in seen:
                continue
            seen.add(key)
            yield n, recv, n.value.attr


def copy_rule(chk):
    repo = chk.repo
    ci = repo.cls("QModuleMixin")
    fn = ci.own("from_module")
    mi = ci.mod
    modp = positional_params(fn)[1]
    n = 0
    for p in paths_of(fn):
        if p.end[0] != "return":
            continue
        site = f"{mi.rel}:{p.end[2]}"
        f = path_facts(p)
        e = p.end[1]
        created = None
        for k in f:
            if k.endswith(" is None") and "qcreate(" in k:
                created = k[: -len(" is None")]
        if e is None or U(e) == "None":
            chk.require("C08.R4", site, created is not None and f.get(created + " is None") is True, "from_module returns None exactly when qcreate declined", "QModuleMixin.from_module", "None propagation", "a declined module is replaced by None")
            continue
        n += 1
        if created is None:
            chk.unknown("C08.R4", site, "from_module: qcreate call not found in the path conditions")
            continue
        ok_create = created == f"cls.qcreate({', '.join(positional_params(fn)[1:])})"
        chk.require("C08.R4", site, ok_create, f"from_module builds the twin with `{created[:80]}` (all creation arguments forwarded in order)", "QModuleMixin.from_module", "qcreate arguments", "quantize(model, weights=w, activations=a, optimizer=o): an argument is dropped or swapped")
        copies = {}
        others = []
        nograd = None
        for ef in p.effects:
            if ef[0] == "with":
                nograd = U(ef[1])
            if ef[0] == "expr" and isinstance(ef[1], ast.Call) and isinstance(ef[1].func, ast.Attribute):
                t = U(ef[1].func)
                if t.startswith(created + ".") and t.endswith(".copy_"):
                    attr = t[len(created) + 1: -len(".copy_")]
                    copies[attr] = [U(a) for a in ef[1].args]
                else:
                    others.append(U(ef[1])[:60])
        chk.require("C08.R4", site, copies.get("weight") == [f"{modp}.weight"], f"from_module copies the float weight with copy_ ({copies.get('weight')})", "QModuleMixin.from_module", "weight copied", "any quantized module: the twin keeps its random initial weight")
        has_bias = f.get(f"{modp}.bias is None") is False
        chk.require("C08.R4", site, (copies.get("bias") == [f"{modp}.bias"]) == has_bias, f"from_module copies the bias iff the source has one (path bias={has_bias}, copy={copies.get('bias')})", "QModuleMixin.from_module", "bias copied", "a module with bias: the twin keeps a random bias")
        chk.require("C08.R4", site, nograd == "torch.no_grad()" and not others, f"copies happen under torch.no_grad() and nothing else touches the parameters (other calls: {others})", "QModuleMixin.from_module", "no_grad / extra calls", "quantize(): autograd error on leaf parameters, or parameters altered")
        chk.require("C08.R4", site, U(e) == f"{created}.to({modp}.weight.device)", f"from_module returns the twin moved to the source device: `{U(e)[-50:]}`", "QModuleMixin.from_module", "device move", "a model on a non-default device: the twin is left where it was created")
    chk.floor("C08.R4", n, 1, "from_module construction paths")
    bias_paths = [o for o in chk.obligations if o["rule"] == "C08.R4" and "copies the bias iff" in o["what"] and "path bias=True" in o["what"]]
    chk.require("C08.R4", f"{mi.rel}:{fn.lineno}", bool(bias_paths), "from_module has a path that copies the bias of a module that has one", "QModuleMixin.from_module", "bias copied", "a module with bias: the twin keeps a random bias")


def walk_rule(chk):
    repo = chk.repo
    mi, q = repo.func("quantize")
    model, modules = positional_params(q)[:2]
    kwn = q.args.kwarg.arg if q.args.kwarg else None
    src = q
    loops = [n for n in q.body if isinstance(n, ast.For)]
    ok_loop = len(loops) == 1 and U(loops[0].iter) == f"{model}.named_modules()" and isinstance(loops[0].target, ast.Tuple) and len(loops[0].target.elts) == 2
    if not ok_loop:
        recursive_walk(chk, mi, q)
        return
    chk.ok("C08.R5", f"{mi.rel}:{q.lineno}", "quantize iterates model.named_modules()")
    name_v, m_v = [U(x) for x in loops[0].target.elts]
    site = f"{mi.rel}:{q.lineno}"
    bps = loop_body_paths(q, loops[0])
    if not bps:
        chk.unknown("C08.R5", site, "quantize: the body of the walk has no feasible path")
        return
    name, m = U(bps[0].env[name_v]), U(bps[0].env[m_v])

    def calls_of(pth, fname):
        out = []
        for ef in pth.effects:
            for x in ef:
                if isinstance(x, ast.AST):
                    out.extend(n for n in ast.walk(x) if isinstance(n, ast.Call) and U(n.func) == fname)
        for c, _, _ in pth.conds:
            out.extend(n for n in ast.walk(c) if isinstance(n, ast.Call) and U(n.func) == fname)
        seen, uniq = set(), []
        for n in out:
            if U(n) not in seen:
                seen.add(U(n))
                uniq.append(n)
        return uniq

    A, B = f"{modules} is not None", f"{m} not in {modules}"

    def filtered_out(f):
        """True: the path has established that the module is outside the filter; False: that it is inside (or no filter); None: untested."""
        a, b_, ab = f.get(A), f.get(B), f.get(f"{A} and {B}")
        if (a is True and b_ is True) or ab is True:
            return True
        if a is False or b_ is False or ab is False or f.get(f"{modules} is None") is True or f.get(f"{m} in {modules}") is True:
            return False
        return None

    ok_f = ok_c = ok_s = ok_g = ok_w = True
    n_build = n_skip = n_extra = 0
    detail_f = ""
    for pth in bps:
        f = path_facts(pth)
        qcalls = calls_of(pth, "quantize_module")
        sets = calls_of(pth, "set_module_by_name")
        fo = filtered_out(f)
        if qcalls:
            n_build += 1
            if fo is not False:
                ok_f, detail_f = False, f"a twin is built on a path where the filter outcome is {fo} ({' & '.join(pth.cond_texts())[:120]})"
            if not (len(qcalls) == 1 and [U(a_) for a_ in qcalls[0].args] == [m] and [(k.arg, U(k.value)) for k in qcalls[0].keywords] == [(None, kwn)]):
                ok_c = False
            qm_txt = U(qcalls[0])
            built = f.get(f"{qm_txt} is not None")
            if sets:
                ok_s = ok_s and len(sets) == 1 and [U(a_) for a_ in sets[0].args] == [model, name, qm_txt]
                ok_g = ok_g and built is True
            else:
                ok_g = ok_g and built is False
            # other writes on this path: only the new twin is annotated, only the replaced module's parameters are cleared
            for ef in pth.effects:
                if ef[0] == "store" and U(ef[1]) != qm_txt:
                    ok_w = False
                if ef[0] in ("substore", "augstore"):
                    ok_w = False
                if ef[0] == "expr" and isinstance(ef[1], ast.Call) and U(ef[1].func) == "setattr":
                    a_ = [U(z) for z in ef[1].args]
                    if not (len(a_) == 3 and a_[0] == m and a_[2] == "None" and sets):
                        ok_w = False
        else:
            n_skip += 1
            if sets:
                ok_s = False
            # an additional, optional filter: a parameter of quantize() that defaults to None and, when given, names modules to leave alone
            # (`exclude is not None and m in exclude`): with the default the selection is the one the statement describes
            opt_names = [a_.arg for a_, d_ in zip(q.args.args[len(q.args.args) - len(q.args.defaults):], q.args.defaults) if isinstance(d_, ast.Constant) and d_.value is None and a_.arg != modules]
            extra = any((f.get(f"{o} is not None and {m} in {o}") is True) or (f.get(f"{o} is not None") is True and f.get(f"{m} in {o}") is True) for o in opt_names)
            if fo is not True and extra:
                n_extra += 1
                continue
            if fo is not True:
                # a path that builds nothing must be a filtered-out module
                ok_f, detail_f = False, f"a module is skipped on a path where the filter outcome is {fo} ({' & '.join(pth.cond_texts())[:120]})"
    chk.require("C08.R5", site, ok_f and n_build >= 1, f"quantize skips exactly the modules outside the optional filter ({detail_f or f'{n_build} building path(s), {n_skip} skipping'})", "quantize", "module filter", "quantize(model, modules=[...]): a listed module is skipped or an unlisted one replaced")
    chk.require("C08.R5", site, ok_c and n_build >= 1, "quantize builds the twin with quantize_module(m, **kwargs)", "quantize", "kwargs forwarded", "quantize(model, weights=..., activations=...): configuration dropped")
    chk.require("C08.R5", site, ok_s and ok_g, "quantize replaces through set_module_by_name(model, name, qmodule) exactly when qmodule is not None", "quantize", "replacement guarded", "an ineligible module is replaced by None / an eligible one is not replaced")
    chk.require("C08.R5", site, ok_w, "inside the walk only the new twin is annotated and the replaced module's parameters are cleared", "quantize", "other writes", "modules other than the replaced ones are altered")
    # set_module_by_name
    mi2, sm = repo.func("set_module_by_name")
    par, nm, child = positional_params(sm)[:3]
    n = 0
    for p in paths_of(sm):
        if p.end[0] == "raise":
            continue
        n += 1
        f = path_facts(p)
        sa = [ef[1] for ef in p.effects if ef[0] == "expr" and isinstance(ef[1], ast.Call) and U(ef[1].func) == "setattr"]
        parts = f"len({nm}.split('.'))"
        single = None
        for txt, val in ((f"{parts} == 1", True), (f"{parts} < 2", True), (f"{parts} <= 1", True), (f"{parts} > 1", False), (f"{parts} >= 2", False)):
            if f.get(txt) is not None:
                single = f.get(txt) is val
        if len(sa) != 1:
            chk.bad("C08.R5", f"{mi2.rel}:{p.end[2]}", "set_module_by_name", "setattr count", f"set_module_by_name performs {len(sa)} setattr on a path", "any replacement")
            continue
        a = [U(x) for x in sa[0].args]
        if single is None:
            # the path does not say (in the vocabulary of the rule) whether the name is dotted: accept either correct form, else undecided
            sep_yes, sep_no = f.get(f"{nm}.rpartition('.')[1]"), f.get(f"'.' in {nm}")
            dotted = sep_yes if sep_yes is not None else sep_no
            nested_forms = ([f"{par}.get_submodule({nm}[:{nm}.rindex('.')])", f"{nm}.split('.')[-1]", child],)
            if dotted is False and a == [par, nm, child]:
                chk.ok("C08.R5", f"{mi2.rel}:{p.end[2]}", f"set_module_by_name (top-level): setattr({', '.join(a)[:100]})")
            elif dotted is True and a in nested_forms:
                chk.ok("C08.R5", f"{mi2.rel}:{p.end[2]}", f"set_module_by_name (nested): setattr({', '.join(a)[:100]})")
            else:
                chk.unknown("C08.R5", f"{mi2.rel}:{p.end[2]}", f"set_module_by_name: path conditions {p.cond_texts()} do not decide whether the name is dotted (setattr({', '.join(a)[:80]}))")
            continue
        if single:
            ok = a == [par, nm, child]
        else:
            ok = a == [f"{par}.get_submodule({nm}[:{nm}.rindex('.')])", f"{nm}.split('.')[-1]", child]
        chk.require("C08.R5", f"{mi2.rel}:{p.end[2]}", ok, f"set_module_by_name ({'top-level' if single else 'nested'}): setattr({', '.join(a)[:100]})", "set_module_by_name", "parent path / leaf name", "a nested module: the twin is attached to the wrong parent or under the wrong name")
    chk.floor("C08.R5", n, 2, "set_module_by_name paths")
    # quantize_module
    mi3, qmf = repo.func("quantize_module")
    modp = positional_params(qmf)[0]
    kwp = qmf.args.kwarg.arg if qmf.args.kwarg else None
    loops3 = [n for n in qmf.body if isinstance(n, ast.For)]
    ok = None
    if len(loops3) == 1 and isinstance(loops3[0].target, ast.Name) and U(loops3[0].iter) in ("_QMODULE_TABLE", "_QMODULE_TABLE.keys()", "list(_QMODULE_TABLE)") and kwp:
        cv = loops3[0].target.id
        for bp in loop_body_paths(qmf, loops3[0]):
            fb = path_facts(bp)
            elem = None
            for k_ in fb:
                if k_.startswith(f"isinstance({modp}, ") and fb[k_] is True:
                    elem = k_[len(f"isinstance({modp}, "):-1]
            if bp.end and bp.end[0] == "return" and elem is not None:
                e3 = bp.end[1]
                if isinstance(e3, ast.Call) and isinstance(e3.func, ast.Attribute) and e3.func.attr == "from_module" and U(e3.func.value) == f"_QMODULE_TABLE[{elem}][0]" and [U(a) for a in e3.args] == [modp]:
                    kws = [k for k in e3.keywords if k.arg is None]
                    txt = U(qmf)
                    filt = f"in {kwp}" in txt and f"{kwp}[" in txt
                    ok = len(kws) == 1 and filt
    exact = [n for n in ast.walk(qmf) if (isinstance(n, ast.Call) and U(n.func) == "_QMODULE_TABLE.get" and n.args and U(n.args[0]) in (f"type({modp})", f"{modp}.__class__"))
             or (isinstance(n, ast.Subscript) and U(n.value) == "_QMODULE_TABLE" and U(n.slice) in (f"type({modp})", f"{modp}.__class__"))
             or (isinstance(n, ast.Compare) and len(n.ops) == 1 and isinstance(n.ops[0], (ast.In, ast.NotIn)) and U(n.left) in (f"type({modp})", f"{modp}.__class__") and U(n.comparators[0]).startswith("_QMODULE_TABLE"))]
    if ok is None and not exact and len(loops3) == 1 and isinstance(loops3[0].target, ast.Name):
        # a scan of the table that compares the exact class instead of testing isinstance
        cv_ = loops3[0].target.id
        exact = [n for n in ast.walk(loops3[0]) if isinstance(n, ast.Compare) and len(n.ops) == 1 and isinstance(n.ops[0], (ast.Is, ast.Eq)) and {U(n.left), U(n.comparators[0])} in ({f"type({modp})", cv_}, {f"{modp}.__class__", cv_})]
    if ok is None and exact:
        chk.bad("C08.R5", f"{mi3.rel}:{exact[0].lineno}", "quantize_module", "exact-type table lookup", f"quantize_module selects the twin by the exact class of the module (`{U(exact[0])[:60]}`): an instance of a subclass of a registered class is not an entry of the table",
                "a model holding a subclass of Linear/Conv2d/LayerNorm (a user subclass, MultiheadAttention.out_proj's NonDynamicallyQuantizableLinear): silently left in float")
    elif ok is None:
        chk.unknown("C08.R5", f"{mi3.rel}:{qmf.lineno}", "quantize_module: dispatch over the module table not in a recognised form")
    else:
        chk.require("C08.R5", f"{mi3.rel}:{qmf.lineno}", ok, "quantize_module: first registered class the module is an instance of; accepted kwargs forwarded by name to from_module", "quantize_module", "quantize_module shape", "a registered module class is not quantized or loses its configuration")


def recursive_walk(chk, mi, q):
    """A walk written as a recursion over named_children(): every child that is not replaced must be descended into,
    whatever the filter says about the child itself (the filter selects modules, not subtrees)."""
    from ..core import PathEnum, path_feasible
    repo = chk.repo
    site = f"{mi.rel}:{q.lineno}"
    cands = []
    for fn in mi.tree.body:
        if isinstance(fn, ast.FunctionDef):
            for loop in [n for n in fn.body if isinstance(n, ast.For)]:
                if isinstance(loop.iter, ast.Call) and isinstance(loop.iter.func, ast.Attribute) and loop.iter.func.attr == "named_children" and isinstance(loop.target, ast.Tuple) and len(loop.target.elts) == 2:
                    if any(isinstance(c, ast.Call) and U(c.func) == fn.name for c in ast.walk(loop)):
                        cands.append((fn, loop))
    if len(cands) != 1:
        chk.unknown("C08.R5", site, "quantize: module walk is neither a loop over named_modules() nor a recognised recursion over named_children()")
        return
    fn, loop = cands[0]
    reached = any(isinstance(c, ast.Call) and U(c.func) == fn.name for c in ast.walk(q))
    if not reached:
        chk.unknown("C08.R5", site, f"quantize does not call the recursive walker {fn.name}")
        return
    child, m = [U(x) for x in loop.target.elts]
    parent = U(loop.iter.func.value)
    body_fn = ast.FunctionDef(name="__body__", args=fn.args, body=loop.body, decorator_list=[], lineno=loop.lineno)
    paths = [p for p in PathEnum(body_fn).run() if path_feasible(p)]
    n = 0
    for p in paths:
        n += 1
        f = path_facts(p)
        recursed = any(ef[0] == "expr" and isinstance(ef[1], ast.Call) and U(ef[1].func) == fn.name and ef[1].args and U(ef[1].args[0]) == m for ef in p.effects)
        replaced = any(ef[0] == "expr" and isinstance(ef[1], ast.Call) and U(ef[1].func) == "setattr" and [U(a) for a in ef[1].args[:2]] == [parent, child] for ef in p.effects)
        conds = " & ".join(p.cond_texts()) or "unconditional"
        psite = f"{mi.rel}:{getattr(p, 'end', (0, 0, loop.lineno))[2] if p.end else loop.lineno}"
        if recursed or replaced:
            chk.ok("C08.R5", psite, f"{fn.name}: child path [{conds[:90]}] {'descends into' if recursed else 'replaces'} the child")
        else:
            filt = any("not in" in t and "modules" in t for t in p.cond_texts())
            chk.bad("C08.R5", psite, fn.name, "child neither replaced nor descended" + (" (filtered)" if filt else ""), f"{fn.name}: on the path [{conds[:120]}] the child is neither replaced nor descended into: its whole subtree is skipped",
                    "quantize(model, modules=[a nested Linear]) where the parent container is not itself in the filter: the selected module silently stays float" if filt else "a nested container: its quantizable children are never visited")
    chk.floor("C08.R5", n, 2, "recursive walk child paths")


def _qa_fields(repo, e):
    """(t, qtype, scale) texts of a quantize_activation(...) call, None otherwise"""
    if not (isinstance(e, ast.Call) and U(e.func) == "quantize_activation"):
        return None
    b = bind_call(repo.func("quantize_activation")[1], e)
    if b is None:
        return None
    ps = positional_params(repo.func("quantize_activation")[1])
    return tuple(U(b[x]) for x in ps[:3])


def _requantized(repo, e, src, f, scale_attr):
    """Is `e` the value `src` (a quantized activation) passed on / re-quantized as the module requires?
    kept as is  <=>  src.qtype == self.activation_qtype and src.axis is None;  otherwise dequantized and re-quantized with the scale."""
    same_q = f.get(f"{src}.qtype == self.activation_qtype")
    per_t = f.get(f"{src}.axis is None")
    if U(e) == src:
        if same_q is True and per_t is True:
            return True
        for alt in (f"{src}.qtype != self.activation_qtype or {src}.axis is not None", f"{src}.axis is not None or {src}.qtype != self.activation_qtype",
                    f"not {src}.qtype == self.activation_qtype or not {src}.axis is None", f"not {src}.axis is None or not {src}.qtype == self.activation_qtype"):
            if f.get(alt) is False:
                return True  # neither disjunct holds: same qtype and per-tensor
        return False
    qa = _qa_fields(repo, e)
    if qa is None:
        return False
    both = f.get(f"{src}.qtype == self.activation_qtype and {src}.axis is None")
    if both is None:
        both = f.get(f"{src}.axis is None and {src}.qtype == self.activation_qtype")
    if both is None:
        # the De Morgan spelling of the same test: `qtype != ... or axis is not None` holds
        for alt in (f"{src}.qtype != self.activation_qtype or {src}.axis is not None", f"{src}.axis is not None or {src}.qtype != self.activation_qtype",
                    f"not {src}.qtype == self.activation_qtype or not {src}.axis is None", f"not {src}.axis is None or not {src}.qtype == self.activation_qtype"):
            v = f.get(alt)
            if v is not None:
                both = not v
                break
    return qa == (f"{src}.dequantize()", "self.activation_qtype", f"self.{scale_attr}") and (same_q is False or per_t is False or both is False)


def forward_rule(chk, qm):
    repo = chk.repo
    ci = repo.cls("QModuleMixin")
    mi = ci.mod
    fwd = ci.own("forward")
    inp = positional_params(fwd)[1]
    n = 0
    seen_kinds = set()
    for p in paths_of(fwd):
        if p.end[0] != "return":
            continue
        n += 1
        f = path_facts(p)
        site = f"{mi.rel}:{p.end[2]}"
        act = f.get("self.activation_qtype is None") is False
        e = p.end[1]
        calls = [c for c in ast.walk(e) if isinstance(c, ast.Call) and U(c.func) == "self.qforward"]
        if not calls:
            chk.bad("C08.R6", site, "QModuleMixin.forward", "forward does not call qforward", f"forward returns `{U(e)[:80]}` without calling self.qforward", "any forward")
            continue
        raw = max(calls, key=lambda c: len(U(c)))
        arg = raw.args[0] if raw.args else None
        rawt = U(raw)
        qn = "QModuleMixin.forward"
        if not act:
            ok = U(e) == f"self.qforward({inp})"
            chk.require("C08.R6", site, ok, f"without quantized activations forward is qforward(input): `{U(e)[:80]}`", qn, "no-activation path", "a weight-only quantized module alters its input or output")
            seen_kinds.add("noact")
            continue
        qin = f.get(f"isinstance({inp}, QBytesTensor)")
        if qin is True:
            ok_in = _requantized(repo, arg, inp, f, "input_scale")
        elif qin is False:
            ok_in = U(arg) == inp
        else:
            ok_in = False
        chk.require("C08.R6", site, ok_in, f"activation path (quantized input={qin}): qforward receives `{U(arg)[:100]}` (a quantized input is kept only if it has the module's qtype and is per-tensor, else re-quantized with input_scale)", qn, f"input requantization in={qin}",
                    "a quantized input of another qtype / per-axis / the wrong scale reaches qforward")
        qout = f.get(f"isinstance({rawt}, QBytesTensor)")
        if qout is True:
            ok_out = _requantized(repo, e, rawt, f, "output_scale")
        elif qout is False:
            ok_out = _qa_fields(repo, e) == (rawt, "self.activation_qtype", "self.output_scale")
        else:
            ok_out = False
        chk.require("C08.R6", site, ok_out, f"activation path (quantized raw output={qout}): forward returns `{U(e)[:110]}` (output quantized with activation_qtype and output_scale)", qn, f"output quantization out={qout}",
                    "a module with quantized activations: output not quantized, or quantized with the wrong scale/qtype")
        seen_kinds.add(("act", qin, qout))
    chk.floor("C08.R6", n, 4, "forward paths")
    need = {"noact", ("act", True, False), ("act", False, False)}
    chk.require("C08.R6", f"{mi.rel}:{fwd.lineno}", need <= seen_kinds, f"forward has paths for: no activations, quantized input, float input (seen {sorted(map(str, seen_kinds))})", "QModuleMixin.forward", "forward path coverage", "a quantized input is never re-quantized / a float output never quantized")
    # qforward of each registered class
    fsig = functional_signature("layer_norm")
    for tname, qci in sorted(qm.items()):
        qf = qci.own("qforward")
        if qf is None:
            chk.bad("C08.R6", f"{qci.mod.rel}:{qci.node.lineno}", qci.name, "qforward missing", f"{qci.name} has no qforward", "any forward")
            continue
        x = positional_params(qf)[1]
        if tname != "torch.nn.LayerNorm":
            has_q = any(path_facts(p).get("self.activation_qtype is None") is False and path_facts(p).get(f"isinstance({x}, QBytesTensor)") is False for p in paths_of(qf) if p.end[0] == "return")
            chk.require("C08.R6", f"{qci.mod.rel}:{qf.lineno}", has_q, f"{qci.name}.qforward has a path for a float input with quantized activations (where the input is quantized with input_scale)", f"{qci.name}.qforward", "float input quantized", "a first layer with quantized activations fed a float tensor: the input is never quantized, so the integer/float8 matmul route and the calibrated input scale are not used")
        for p in paths_of(qf):
            if p.end[0] != "return":
                continue
            f = path_facts(p)
            site = f"{qci.mod.rel}:{p.end[2]}"
            e = U(p.end[1])
            if tname == "torch.nn.LayerNorm":
                got = _bind_functional(p.end[1], "torch.nn.functional.layer_norm", fsig)
                ok = got == {"input": x, "normalized_shape": "self.normalized_shape", "weight": "self.weight", "bias": "self.bias", "eps": "self.eps"} and fsig[:5] == ["input", "normalized_shape", "weight", "bias", "eps"]
                chk.require("C08.R6", site, ok, f"QLayerNorm.qforward = F.layer_norm(input, normalized_shape, weight, bias, eps) in the functional's order: `{e[:100]}`", f"{qci.name}.qforward", "layer_norm arguments", "any LayerNorm: weight/bias/eps swapped")
                continue
            act = f.get("self.activation_qtype is None") is False
            isq = f.get(f"isinstance({x}, QBytesTensor)")
            arg = f"quantize_activation({x}, qtype=self.activation_qtype, scale=self.input_scale)" if (act and isq is False) else x
            if tname == "torch.nn.Linear":
                got = _bind_functional(p.end[1], "torch.nn.functional.linear", ["input", "weight", "bias"])
                okq = got == {"input": arg, "weight": "self.qweight", "bias": "self.bias"}
            else:
                got = _bind_functional(p.end[1], "self._conv_forward", ["input", "weight", "bias"])
                okq = got == {"input": arg, "weight": "self.qweight", "bias": "self.bias"}
            chk.require("C08.R6", site, okq, f"{qci.name}.qforward (activations={act}, quantized input={isq}): `{e[:120]}`", f"{qci.name}.qforward", f"qforward term act={act} isq={isq}",
                        "a float input with quantized activations is not quantized with input_scale, or the float weight / another bias is used")


def _bind_functional(e, fname, sig):
    """{parameter: canonical argument text} of a call to `fname` bound against the positional signature `sig` (None if another call)."""
    if not (isinstance(e, ast.Call) and U(e.func) == fname) or any(isinstance(a, ast.Starred) for a in e.args) or any(k.arg is None for k in e.keywords):
        return None
    if len(e.args) > len(sig):
        return None
    out = {n: U(a) for n, a in zip(sig, e.args)}
    for k in e.keywords:
        if k.arg in out:
            return None
        out[k.arg] = U(k.value)
    return out


def functional_signature(name):
    spec = importlib.util.find_spec("torch")
    path = os.path.join(os.path.dirname(spec.origin), "nn", "functional.py")
    tree = ast.parse(open(path).read())
    fn = next((n for n in tree.body if isinstance(n, ast.FunctionDef) and n.name == name), None)
    if fn is None:
        raise AnalysisError(f"torch.nn.functional.{name} not found")
    return [a.arg for a in fn.args.args]


def scale_buffers(chk, mixin):
    init = mixin.own("__init__")
    kwn = init.args.kwarg.arg if init.args.kwarg else None
    n = 0
    for p in paths_of(init):
        if p.end[0] == "raise":
            continue
        for ef in p.effects:
            if ef[0] == "expr" and isinstance(ef[1], ast.Call) and U(ef[1].func) == "self.register_buffer" and len(ef[1].args) >= 2 and isinstance(ef[1].args[0], ast.Constant) and ef[1].args[0].value in ("input_scale", "output_scale"):
                n += 1
                v = ef[1].args[1]
                kw = {k.arg: U(k.value) for k in v.keywords} if isinstance(v, ast.Call) else {}
                dt = kw.get("dtype", "")
                follows = bool(kwn) and (dt in (f"{kwn}.get('dtype')", f"{kwn}['dtype']", f"{kwn}.get('dtype', None)") or "self.weight.dtype" in dt or dt == "dtype")
                like = isinstance(v, ast.Call) and U(v.func).endswith(("ones_like", "new_ones")) or ".to(" in U(v) and "dtype" in U(v)
                chk.require("C08.R9", f"{mixin.mod.rel}:{ef[2]}", follows or like, f"QModuleMixin.__init__: buffer {ef[1].args[0].value} = `{U(v)[:70]}` takes the constructor's dtype", "QModuleMixin.__init__", "scale buffers in the default dtype",
                            "a float16 / bfloat16 model quantized with activations: float32 scales, so every quantized activation and the model's outputs are float32 until a calibration replaces the buffers")
    chk.floor("C08.R9", n, 2, "activation scale buffers registered in the constructor")


def root_module(chk):
    repo = chk.repo
    mi, q = repo.func("quantize")
    model = positional_params(q)[0]
    handled = False
    for nd in ast.walk(q):
        if isinstance(nd, ast.Compare):
            t = U(nd)
            if t in ("name == ''", "name != ''", f"m is {model}", f"m is not {model}", "not name", "len(name) == 0") or ("name" in t and "''" in t):
                handled = True
        if isinstance(nd, ast.If) and U(nd.test) in ("not name", "name"):
            handled = True
    chk.require("C08.R10", f"{mi.rel}:{q.lineno}", handled, "quantize() tests for the root module (empty name) before replacing it", "quantize", "root module replaced under the empty name",
                "model = nn.Linear(8, 4); quantize(model, weights=qint8): type(model) stays Linear, a child named '' is attached, model.weight and model.bias are None and the forward raises")


_FIXED_RANK_EXAMPLE = """
def conv(func, input, weight, bias=None):
    out = func(input._data, weight._data)
    return out * weight._scale.reshape(1, -1, 1, 1)

def conv_guarded(func, input, weight, bias=None):
    out = func(input._data, weight._data)
    if input.ndim == 4:
        return out * weight._scale.reshape(1, -1, 1, 1)
    return out * weight._scale.reshape(-1, 1, 1)

def conv_relative(func, input, weight, bias=None):
    out = func(input._data, weight._data)
    return out * weight._scale.reshape(1, -1, *([1] * (weight.ndim - 2)))
"""


def _fixed_rank_broadcasts(fn):
    """reshape / view calls of `fn` to a literal shape made of ones and a single -1 (three dimensions or more) that no test on a rank dominates"""
    out = []
    guarded_lines = set()
    for n in ast.walk(fn):
        if isinstance(n, (ast.If, ast.Assert)) and any((isinstance(x, ast.Attribute) and x.attr == "ndim") or (isinstance(x, ast.Call) and isinstance(x.func, ast.Attribute) and x.func.attr == "dim") or
                                                      (isinstance(x, ast.Call) and U(x.func) == "len" and x.args and U(x.args[0]).endswith(".shape")) for x in ast.walk(n.test)):
            if isinstance(n, ast.If):
                for b in n.body + n.orelse:
                    guarded_lines.update(range(b.lineno, (b.end_lineno or b.lineno) + 1))
            else:
                guarded_lines.update(range(n.lineno, (fn.end_lineno or n.lineno) + 1))
            # a guard that returns / raises early dominates what follows it
            if isinstance(n, ast.If) and n.body and isinstance(n.body[-1], (ast.Return, ast.Raise)):
                guarded_lines.update(range(n.end_lineno or n.lineno, (fn.end_lineno or n.lineno) + 1))
    for n in ast.walk(fn):
        if isinstance(n, ast.Call) and isinstance(n.func, ast.Attribute) and n.func.attr in ("reshape", "view") and len(n.args) >= 3 and not n.keywords:
            vals = [a.value if isinstance(a, ast.Constant) else (-a.operand.value if isinstance(a, ast.UnaryOp) and isinstance(a.op, ast.USub) and isinstance(a.operand, ast.Constant) else None) for a in n.args]
            if all(v in (1, -1) for v in vals) and vals.count(-1) == 1 and n.lineno not in guarded_lines:
                out.append(n)
    return out


def fixed_rank_broadcasts(chk):
    tree = ast.parse(_FIXED_RANK_EXAMPLE)
    v = {f.name: len(_fixed_rank_broadcasts(f)) for f in tree.body}
    if v != {"conv": 1, "conv_guarded": 0, "conv_relative": 0}:
        raise AnalysisError(f"fixed-rank broadcast detector misjudges its built-in examples: {v}")
    from ..registries import handlers
    repo = chk.repo
    hs = handlers(repo)
    n = 0
    for h in hs["qfunc"] + hs["qbytes"] + hs["qbits"]:
        n += 1
        for c in _fixed_rank_broadcasts(h.fn):
            chk.bad("C08.R11", f"{h.mi.rel}:{c.lineno}", h.name, "per-channel vector broadcast through a literal rank", f"NOT: `{U(c)[:60]}` in {h.name} fixes the rank of the broadcast while the function accepts operands of several ranks",
                    "a QConv2d with quantized activations fed an unbatched (C, H, W) input: the output has shape (1, C_out, H', W') where the float module returns (C_out, H', W')")
    chk.ok("C08.R11", "handlers and function wrappers", f"{n} quantized implementations scanned: no per-channel broadcast through a literal rank")
    chk.floor("C08.R11", n, 20, "quantized implementations scanned")


def already_quantized(chk):
    """C08.R12."""
    repo = chk.repo
    mi_q, qm = repo.func("quantize_module")
    mod = positional_params(qm)[0]
    lookup_by_isinstance = any(isinstance(n, ast.Call) and U(n.func) == "isinstance" and n.args and U(n.args[0]) == mod for n in ast.walk(qm))
    mixin = repo.cls("QModuleMixin")
    derived = all(any(b.name != "QModuleMixin" for b in repo.mro(c)[1:] if hasattr(b, "name")) for c in repo.subclasses(mixin)) if hasattr(repo, "mro") else True
    n = 0
    flags = []
    for p in paths_of(qm):
        if p.end[0] == "return" and isinstance(p.end[1], ast.Call) and U(p.end[1].func).endswith(".from_module"):
            n += 1
            flags.append(path_facts(p).get(f"isinstance({mod}, QModuleMixin)") is False)
    excluded = bool(flags) and all(flags)
    # or the walk of quantize() skips them
    mi_w, q = repo.func("quantize")
    skip_in_walk = False
    for lp in [x for x in q.body if isinstance(x, ast.For)]:
        for bp in loop_body_paths(q, lp):
            calls = [ef for ef in bp.effects if ef[0] in ("expr", "store") and any(isinstance(x, ast.Call) and U(x.func) == "quantize_module" for x in ast.walk(ef[1] if ef[0] == "expr" else ef[3]))]
            conds_calls = any(isinstance(x, ast.Call) and U(x.func) == "quantize_module" for c, _, _ in bp.conds for x in ast.walk(c))
            if calls or conds_calls:
                f = path_facts(bp)
                if any(v is False and k.startswith("isinstance(") and k.endswith(", QModuleMixin)") for k, v in f.items()):
                    skip_in_walk = True
    ok = (n >= 1 and excluded) or skip_in_walk or not lookup_by_isinstance
    chk.require("C08.R12", f"{mi_q.rel}:{qm.lineno}", ok, f"quantize_module / quantize leave QModuleMixin instances alone before the registry lookup by isinstance (excluded in quantize_module: {excluded}, skipped in the walk: {skip_in_walk})",
                "quantize_module", "already quantized module quantized again",
                "quantize(model, modules=[a], weights=qint4, activations=qint8); calibrate; quantize(model, weights=qint8) to cover the remaining layers: `a` is rebuilt with qint8 weights, no activations and scales reset to one, and the old object's weight is None")
    chk.floor("C08.R12", n, 1, "quantize_module paths that build a twin")
    # the same lookup selects every SUBCLASS of a registered float class: one that overrides forward() (a weight-standardised Conv2d, a channel-first
    # LayerNorm) is replaced by the plain twin, which computes the base class's function with the base class's hyper-parameters
    exact = any(isinstance(nd, ast.Compare) and len(nd.ops) == 1 and isinstance(nd.ops[0], (ast.Is, ast.Eq)) and U(nd.left) in (f"type({mod})", f"{mod}.__class__") for nd in ast.walk(qm)) or \
        any(isinstance(nd, ast.Subscript) and U(nd.slice) in (f"type({mod})", f"{mod}.__class__") for nd in ast.walk(qm)) or \
        any("forward" in U(nd) and ("__dict__" in U(nd) or "is " in U(nd)) for nd in ast.walk(qm) if isinstance(nd, ast.Compare))
    chk.require("C08.R12", f"{mi_q.rel}:{qm.lineno}", not lookup_by_isinstance or exact, "quantize_module selects a module by its exact class (or checks that forward() is the registered class's)", "quantize_module",
                "subclass with its own forward replaced by the plain twin",
                "a weight-standardised StdConv2d(nn.Conv2d) becomes a QConv2d (error 17.2 on outputs of magnitude 19.7); a channel-first LayerNorm2d(nn.LayerNorm) becomes a QLayerNorm that normalises the last dimension instead of the channels")
