"""C11 - gradients pass straight through quantization and match the float linear backward (structural clauses)."""
import ast

from .. import labels as lb
from ..core import AnalysisError, U, path_facts, paths_of, positional_params
from ..labels import L, T, Interp, Obj, batch
from ..registries import handlers

TITLE = "Gradients pass straight through quantization and match the float linear backward"

RULES = {
    "C11.R1": "straight-through: backward of both quantizers and of every dequantizer returns the incoming gradient first and None for every other forward input",
    "C11.R2": "linear backward (label typing, input ranks 2..4): input/weight/bias gradients have the shapes of their primals, each guarded by needs_input_grad[i] of the matching forward parameter, returned in order; no constant factor",
    "C11.R6": "the dynamic weight path stays in the autograd graph: no no_grad / set_grad_enabled / inference_mode context and no .detach() / .data around the quantization of self.weight in qweight, forward or qforward",
    "C11.R9": "the twin's parameters keep their own requires_grad flags: from_module copies weight and bias under no_grad and does nothing else to them (rule C08.R4 re-checked: a blanket requires_grad_ makes the bias follow the weight's flag)",
    "C11.R10": "what a forward saved for its backward is not rewritten: the activation-scale buffers, which the modules hand as they are to the activations they quantize (and the linear function saves), are replaced by calibration, never written in place",
    "C11.R15": "the linear function saves for its backward only what a needed gradient reads: a tensor read under a single needs_input_grad[k] test is saved under the same test (a frozen module then neither pins nor version-checks its input)",
    "C11.R14": "the scale (and zero-point) quantize_weight hands to the quantizers are evaluated outside the graph of the weights (under torch.no_grad(), or detached): the quantizers give them no gradient, and a graph that saves the weight makes a weight update between a forward and its backward a version-counter error the float module does not raise",
    "C11.R13": "(= C05.R18 (a), value handlers) the result of a handler that is not a view owns its scale and its payload: a tensor saved for a backward is never rewritten through a result that shares its inner tensors (autograd's version counters do not see them)",
    "C11.R12": "a sum evaluated block by block covers every row: a loop over `range(n // k)` that addresses blocks `[i * k : (i + 1) * k]` is followed by the handling of the `n % k` remaining rows (or iterates over ceil-divided / stepped ranges) - in the functions the linear backward reaches and in the kernels",
    "C11.R11": "function-level interceptions keep the graph: a wrapper registered for a torch function runs ABOVE autograd, so whatever it returns is either the result of an autograd Function (`X.apply(...)`), of a differentiable library call, or of the function re-issued on other arguments - never a quantized tensor it assembled itself from payloads",
    "C11.R7": "the linear backward contracts dequantized values: no raw payload (._data) enters a matmul there (unscaled codes accumulate beyond the float16 range and would be rounded with another scale order than the forward)",
    "C11.R8": "any input layout: the linear backward flattens the incoming gradient and the saved tensors with reshape, never with view",
    "C11.R3": "no staleness: qweight is a plain property that re-quantizes self.weight on every access while unfrozen",
    "C11.R4": "every torch.nn.Parameter built from a quantized tensor passes requires_grad=False",
    "C11.R5": "the linear dispatch passes (input, other, bias) in order to the autograd function",
}


def run(chk):
    for k, v in RULES.items():
        chk.rule(k, v)
    repo = chk.repo
    ste(chk)
    linear_backward(chk)
    # R3
    ci = repo.cls("QModuleMixin")
    qw = ci.own("qweight")
    decos = [U(d) for d in qw.decorator_list]
    chk.require("C11.R3", f"{ci.mod.rel}:{qw.lineno}", decos == ["property"], f"qweight decorators: {decos} (no cached_property / lru_cache)", "QModuleMixin.qweight", "qweight is a plain property", "weight update after the first forward: the stale quantized weight keeps being used")
    stores = [U(n) for n in ast.walk(qw) if isinstance(n, ast.Attribute) and isinstance(n.ctx, ast.Store)]
    chk.require("C11.R3", f"{ci.mod.rel}:{qw.lineno}", not stores, f"qweight stores nothing on self ({stores})", "QModuleMixin.qweight", "qweight memoisation", "an optimizer step between two forwards is ignored")
    n = 0
    for p in paths_of(qw):
        f = path_facts(p)
        if p.end[0] == "return" and f.get("self.weight_qtype is None") is False and f.get("isinstance(self.weight, QTensor)") is False:
            n += 1
            e = p.end[1]
            ok = isinstance(e, ast.Call) and U(e.func) == "quantize_weight" and e.args and U(e.args[0]) == "self.weight"
            chk.require("C11.R3", f"{ci.mod.rel}:{p.end[2]}", ok, "unfrozen qweight quantizes the current self.weight on this very access", "QModuleMixin.qweight", "dynamic requantization", "an optimizer step is not reflected by the next forward")
    chk.floor("C11.R3", n, 1, "unfrozen qweight paths")
    grad_path(chk, ci)
    if chk.pid == "C11":
        from ..report import AliasedCheck
        from . import c08
        c08.copy_rule(AliasedCheck(chk, {"C08.R4": "C11.R9"}))
        from . import c13
        c13.saved_scale_mutation(chk, "C11.R10")
        wrappers_keep_graph(chk)
        block_loops_cover(chk)
        scale_outside_graph(chk)
        # what a forward saved is a quantized tensor whose inner payload / scale carry no version counter: a result that shares them with its operand
        # lets a later in-place op (written back since 683c0c3) rewrite the saved operand unnoticed
        from . import c05
        from ..registries import handlers as _handlers
        c05.ownership_rule(AliasedCheck(chk, {"C05.R18": "C11.R13"}), _handlers(chk.repo), "C05.R18", views=False)
    raw_payload_backward(chk)
    # R4
    n = 0
    for mi in repo.modules.values():
        if not mi.rel.startswith("optimum/"):
            continue
        for node in ast.walk(mi.tree):
            if isinstance(node, ast.Call) and U(node.func) in ("torch.nn.Parameter", "Parameter", "nn.Parameter"):
                fn = _enclosing_fn(mi, node)
                arg = U(node.args[0]) if node.args else ""
                quantized = any(k in arg for k in ("qweight", "deserialized_weight", "QBytesTensor", "QBitsTensor", "quantize_weight"))
                if not quantized:
                    continue
                n += 1
                kw = {k.arg: U(k.value) for k in node.keywords}
                rg = kw.get("requires_grad", U(node.args[1]) if len(node.args) > 1 else None)
                chk.require("C11.R4", f"{mi.rel}:{node.lineno}", rg == "False", f"{fn}: Parameter({arg[:50]}) passes requires_grad={rg}", fn, f"Parameter({arg[:40]}) requires grad", "backward through a frozen (or reloaded) module: a float .grad accumulates on the quantized weight")
    chk.floor("C11.R4", n, 1, "Parameter(<quantized tensor>) sites")
    # R5
    h = [x for x in handlers(repo)["qfunc"] if any(o.endswith("functional.linear") for o in x.ops)]
    chk.floor("C11.R5", len(h), 1, "linear dispatch")
    for hh in h:
        hp = positional_params(hh.fn)
        for p in paths_of(hh.fn):
            if p.end[0] == "return":
                from .c07 import dispatch_args_ok
                ok = dispatch_args_ok(p.end[1], hp)
                chk.require("C11.R5", f"{hh.mi.rel}:{p.end[2]}", ok, f"linear dispatch: `{U(p.end[1])}`", hh.name, "linear dispatch arguments", "any quantized linear: gradients land on the wrong tensors")
    chk.assume("autograd calls Function.backward with one gradient per forward output and expects one result per forward input")


def _enclosing_fn(mi, target):
    best = "?"
    for n in ast.walk(mi.tree):
        if isinstance(n, ast.ClassDef):
            for m in n.body:
                if isinstance(m, ast.FunctionDef) and any(x is target for x in ast.walk(m)):
                    best = f"{n.name}.{m.name}"
    if best == "?":
        for n in mi.tree.body:
            if isinstance(n, ast.FunctionDef) and any(x is target for x in ast.walk(n)):
                best = n.name
    return best


def ste(chk):
    repo = chk.repo
    n = 0
    for lst in repo.classes.values():
        for ci in lst:
            if not ci.mod.rel.startswith("optimum/"):
                continue
            if not any(b.endswith("Function") for b in repo.external_bases(ci)):
                continue
            name = ci.name
            if not (name.endswith("Quantizer") or name.endswith("Dequantizer")):
                continue
            fwd, bwd = ci.own("forward"), ci.own("backward")
            if fwd is None or bwd is None:
                chk.bad("C11.R1", f"{ci.mod.rel}:{ci.node.lineno}", name, "forward/backward missing", f"{name} lacks forward or backward", "any backward")
                continue
            n += 1
            n_in = len(positional_params(fwd)) - 1
            g = positional_params(bwd)[1]
            for p in paths_of(bwd):
                if p.end[0] != "return":
                    continue
                e = p.end[1]
                items = [U(x) for x in e.elts] if isinstance(e, ast.Tuple) else [U(e)]
                ok_first = items[0] == g
                ok_rest = all(x == "None" for x in items[1:])
                ok_len = len(items) >= n_in
                site = f"{ci.mod.rel}:{p.end[2]}"
                chk.require("C11.R1", site, ok_first, f"{name}.backward returns the incoming gradient itself first (`{items[0]}`)", f"{name}.backward", "gradient passed through", "any training step: the gradient is scaled, rounded or replaced")
                chk.require("C11.R1", site, ok_rest and ok_len, f"{name}.backward returns None for the other {n_in - 1} forward input(s) ({len(items)} values)", f"{name}.backward", "non-tensor inputs get None", "a scale/zero-point that requires grad receives a gradient, or autograd raises on the arity")
            # the differentiable path goes through Function.apply
    chk.floor("C11.R1", n, 4, "quantizer/dequantizer autograd functions")
    for cname, fname in (("QBytesTensor", "QBytesDequantizer"), ("QBitsTensor", "QBitsDequantizer")):
        ci = repo.cls(cname)
        dq = ci.own("dequantize")
        for p in paths_of(dq):
            if p.end[0] == "return":
                # the value returned is the result of the autograd function, possibly through differentiable, value-preserving steps (a cast, a layout call)
                e_ = p.end[1]
                while isinstance(e_, ast.Call) and isinstance(e_.func, ast.Attribute) and e_.func.attr in ("to", "type", "contiguous", "clone", "float", "half", "bfloat16", "double") and not U(e_.func.value).startswith("torch"):
                    e_ = e_.func.value
                ok = U(e_) == f"{fname}.apply(self)"
                chk.require("C11.R1", f"{ci.mod.rel}:{p.end[2]}", ok, f"{cname}.dequantize goes through {fname}.apply(self)", f"{cname}.dequantize", "dequantize through autograd function", "gradients through dequantize follow the arithmetic (multiplied by the scale) instead of passing through")


def linear_backward(chk):
    repo = chk.repo
    ci = repo.cls("QTensorLinear")
    fwd, bwd = ci.own("forward"), ci.own("backward")
    mi = ci.mod
    site = f"{mi.rel}:{bwd.lineno}"
    fparams = positional_params(fwd)[1:]
    ctxn, g = positional_params(bwd)[:2]
    # saved tensors order
    saved = None
    cond_saved = {}  # name -> index k: saved only when needs_input_grad[k]
    for n in ast.walk(fwd):
        if isinstance(n, ast.Call) and U(n.func) == f"{positional_params(fwd)[0]}.save_for_backward":
            saved = []
            for a in n.args:
                # `x if ctx.needs_input_grad[k] else None`: saved only when the k-th gradient is needed
                if isinstance(a, ast.IfExp) and isinstance(a.orelse, ast.Constant) and a.orelse.value is None and isinstance(a.test, ast.Subscript) and U(a.test.value) == f"{positional_params(fwd)[0]}.needs_input_grad" and isinstance(a.test.slice, ast.Constant):
                    cond_saved[U(a.body)] = a.test.slice.value
                    saved.append(U(a.body))
                else:
                    saved.append(U(a))
    if saved is None:
        chk.unknown("C11.R2", site, "save_for_backward not found")
        return
    unpack = None
    for n in ast.walk(bwd):
        if isinstance(n, ast.Assign) and U(n.value) == f"{ctxn}.saved_tensors" and isinstance(n.targets[0], ast.Tuple):
            unpack = [U(x) for x in n.targets[0].elts]
    # a tensor saved under needs_input_grad[k] is None otherwise: the backward may read it only under the same test
    for nm, k in cond_saved.items():
        guarded = set()
        for st in ast.walk(bwd):
            if isinstance(st, ast.If) and U(st.test) == f"{ctxn}.needs_input_grad[{k}]":
                guarded |= {id(x) for b_ in st.body for x in ast.walk(b_)}
        uses = [x for x in ast.walk(bwd) if isinstance(x, ast.Name) and x.id == nm and isinstance(x.ctx, ast.Load)]
        free = [x for x in uses if id(x) not in guarded]
        chk.require("C11.R2", site, not free, f"`{nm}` is saved only when needs_input_grad[{k}]: the backward reads it under that test only ({len(uses)} read(s), {len(free)} outside)", "QTensorLinear.backward", "conditionally saved tensor read unconditionally",
                    f"a backward that does not need gradient {k}: `{nm}` is None, AttributeError / TypeError")
    # C11.R15: a tensor that the backward reads for ONE gradient only is saved only when that gradient is needed - saved unconditionally, a frozen
    # module pins (and version-checks) an input it will never read
    for nm in saved or []:
        if nm in cond_saved:
            chk.ok("C11.R15", site, f"`{nm}` is saved only when needs_input_grad[{cond_saved[nm]}]")
            continue
        uses = [x for x in ast.walk(bwd) if isinstance(x, ast.Name) and x.id == nm and isinstance(x.ctx, ast.Load)]
        ks = set()
        outside = False
        for x in uses:
            k_ = None
            for st in ast.walk(bwd):
                if isinstance(st, ast.If) and U(st.test).startswith(f"{ctxn}.needs_input_grad[") and any(x is y for b_ in st.body for y in ast.walk(b_)):
                    k_ = U(st.test)
            if k_ is None:
                outside = True
            else:
                ks.add(k_)
        only_one = bool(uses) and not outside and len(ks) == 1
        chk.require("C11.R15", site, not only_one, f"`{nm}` is saved unconditionally and the backward reads it {'only under ' + sorted(ks)[0] if only_one else 'for more than one purpose'}", "QTensorLinear.forward", "tensor saved for a gradient that may not be needed",
                    "h = x * 1; y = frozen_qlinear(h); h.mul_(2); y.backward(): 'modified by an inplace operation' although no gradient reads h - Linear(...).requires_grad_(False) returns g @ W")
    chk.require("C11.R2", site, unpack == saved and saved == fparams[:2], f"saved tensors {saved} are unpacked in the order saved ({unpack})", "QTensorLinear.backward", "saved tensor order", "any backward: input and weight are swapped in the gradient formulas")
    ranks = (1, 2, 3) if chk.tier == "quick" else (1, 2, 3, 4, 5)
    n = 0
    for r in ranks:
        for needs in ((True, True, True), (True, False, False), (False, True, False), (False, False, True)):
            gO = T(batch(r) + (L("out"),), "float", "gO")
            inp = T(batch(r) + (L("in"),), "float", "input")
            oth = T((L("out"), L("in")), "float", "other")
            ctx = Obj(saved_tensors=(inp, oth), needs_input_grad=needs)
            res = Interp(bwd, {ctxn: ctx, g: gO}, {}).run()
            what = f"input rank {r + 1}, needs_input_grad={needs}"
            for status, val, trace in res:
                if status == "typeerr":
                    chk.bad("C11.R2", site, "QTensorLinear.backward", f"backward typing: {_gen(val)}", f"QTensorLinear.backward ({what}): {val}", f"{what}: the gradient formula does not line up for this rank")
                elif status == "unknown":
                    chk.unknown("C11.R2", site, f"QTensorLinear.backward ({what}): {val}")
                elif status == "raise":
                    chk.bad("C11.R2", site, "QTensorLinear.backward", "backward raises", f"QTensorLinear.backward ({what}) raises {val}", what)
                else:
                    n += 1
                    if not (isinstance(val, tuple) and len(val) == 3):
                        chk.bad("C11.R2", site, "QTensorLinear.backward", "backward arity", f"backward returns {val!r}, expected three gradients", what)
                        continue
                    want = (inp.labels, oth.labels, (L("out"),))
                    names = ("input", "weight", "bias")
                    for i in range(3):
                        v = val[i]
                        if needs[i]:
                            ok = isinstance(v, T) and v.labels == want[i]
                            chk.require("C11.R2", site, ok, f"{names[i]} gradient ({what}) has type {v}, primal is {T(want[i])}", "QTensorLinear.backward", f"{names[i]} gradient shape", f"{what}: {names[i]} gradient has the wrong shape / is contracted over the wrong dimension")
                        else:
                            chk.require("C11.R2", site, v is None, f"{names[i]} gradient is None when not needed ({what})", "QTensorLinear.backward", f"{names[i]} gradient guard", f"{what}: a gradient is computed for (or assigned to) the wrong input")
    chk.floor("C11.R2", n, 12, "typed backward instances")
    # no constant factors in the gradient formulas
    consts = [U(c) for c in ast.walk(bwd) if isinstance(c, ast.BinOp) and isinstance(c.op, (ast.Mult, ast.Div)) and any(isinstance(x, ast.Constant) and isinstance(x.value, (int, float)) for x in (c.left, c.right))]
    chk.require("C11.R2", site, not consts, f"no constant factor in the gradient formulas ({consts})", "QTensorLinear.backward", "constant factor", "any backward: gradients scaled by a constant")
    adds = [U(c) for c in ast.walk(bwd) if isinstance(c, ast.BinOp) and isinstance(c.op, (ast.Add, ast.Sub)) and not (U(c).endswith("ndim - 1"))]
    chk.require("C11.R2", site, not adds, f"gradients are pure contractions/sums (no additive terms: {adds})", "QTensorLinear.backward", "additive term", "any backward")


def _gen(msg: str) -> str:
    import re
    return re.sub(r"\([^()]*\)", "<T>", msg)[:90]


GRAD_MODES = ("no_grad", "set_grad_enabled", "inference_mode", "enable_grad")


def grad_path(chk, ci):
    """C11.R6: nothing cuts the graph between self.weight and the quantized weight the forward uses."""
    repo = chk.repo
    n = 0
    classes = [ci] + repo.subclasses(ci)
    for c in classes:
        for mname in ("qweight", "forward", "qforward"):
            fn = c.own(mname)
            if fn is None:
                continue
            qn = f"{c.name}.{mname}"
            for p in paths_of(fn):
                if p.end[0] == "raise":
                    continue
                n += 1
                site = f"{c.mod.rel}:{p.end[2]}"
                modes = [U(x[1]) for x in p.ctx if x and x[0] == "with" and any(g in U(x[1]) for g in GRAD_MODES)]
                # contexts entered and left before the end of the path are recorded as effects
                modes += [U(ef[1]) for ef in p.effects if ef[0] == "with" and any(g in U(ef[1]) for g in GRAD_MODES)]
                frozen = path_facts(p).get("isinstance(self.weight, QTensor)") is True
                chk.require("C11.R6", site, not modes or frozen, f"{qn}: no gradient-mode context on this path ({modes})", qn, "gradient mode changed on the weight path",
                            "an unfrozen module whose forward runs under that context (e.g. eval() mode while fine-tuning): the quantized weight is detached, no gradient reaches the float weight, silently")
                vals = [p.end[1]] + [x for ef in p.effects for x in ef if isinstance(x, ast.AST)]
                cut = [U(nd)[:50] for v in vals if isinstance(v, ast.AST) for nd in ast.walk(v)
                       if (isinstance(nd, ast.Call) and isinstance(nd.func, ast.Attribute) and nd.func.attr == "detach" and U(nd.func.value) == "self.weight")
                       or (isinstance(nd, ast.Attribute) and nd.attr == "data" and U(nd.value) == "self.weight" and isinstance(nd.ctx, ast.Load))]
                # reading type(self.weight.data) is not a use of the value
                cut = [c_ for c_ in cut if c_]
                uses = [c_ for c_ in cut]
                if mname == "qweight" and not frozen:
                    chk.require("C11.R6", site, not uses, f"{qn}: the float weight is used attached ({uses})", qn, "weight detached before quantization", "any training step: the weight receives no gradient")
    chk.floor("C11.R6", n, 4, "weight-path return paths")
    # decorators change the gradient mode of the whole function; the calibration hooks hand their (re-evaluated) value to the rest of the model
    targets = [(c, c.own(m)) for c in classes for m in ("qweight", "forward", "qforward") if c.own(m) is not None]
    cal = repo.cls("Calibration")
    targets += [(cal, cal.own(m)) for m in ("calibrate_input", "calibrate_output", "__torch_function__") if cal.own(m) is not None]
    for c, fn in targets:
        decs = [U(d) for d in fn.decorator_list if any(g in U(d) for g in GRAD_MODES)]
        chk.require("C11.R6", f"{c.mod.rel}:{fn.lineno}", not decs, f"{c.name}.{fn.name}: no gradient-mode decorator ({decs})", f"{c.name}.{fn.name}", "gradient mode changed on the weight path",
                    "a forward inside `with Calibration():` with autograd enabled (quantization-aware training with running calibration): the output the hook returns is detached, no gradient reaches weight, bias or input")
    for m in ("calibrate_input", "calibrate_output"):
        fn = cal.own(m)
        if fn is None:
            continue
        for p in paths_of(fn):
            if p.end[0] != "return" or p.end[1] is None or U(p.end[1]) == "None":
                continue
            modes = [U(x[1]) for x in p.ctx if x and x[0] == "with" and any(g in U(x[1]) for g in GRAD_MODES)]
            det = [U(nd)[:40] for nd in ast.walk(p.end[1]) if isinstance(nd, ast.Call) and isinstance(nd.func, ast.Attribute) and nd.func.attr == "detach"]
            chk.require("C11.R6", f"{cal.mod.rel}:{p.end[2]}", not modes and not det, f"Calibration.{m}: the value handed back to the model (`{U(p.end[1])[:40]}`) is evaluated with the caller's gradient mode and not detached ({modes + det})", f"Calibration.{m}",
                        "hook output cut from the graph", "a training forward inside a Calibration context: gradients stop at the first calibrated module")


def raw_payload_backward(chk):
    repo = chk.repo
    ci = repo.cls("QTensorLinear")
    bwd = ci.own("backward")
    from ..core import canon_function
    fn = canon_function(bwd)
    site = f"{ci.mod.rel}:{bwd.lineno}"
    # names bound to expressions reading a raw payload (one level of local aliasing)
    raw_names = set()
    for st in ast.walk(fn):
        if isinstance(st, ast.Assign) and any(isinstance(n, ast.Attribute) and n.attr == "_data" for n in ast.walk(st.value)):
            for t in st.targets:
                if isinstance(t, ast.Name):
                    raw_names.add(t.id)

    def is_raw(e):
        return any((isinstance(n, ast.Attribute) and n.attr == "_data") or (isinstance(n, ast.Name) and n.id in raw_names) for n in ast.walk(e))

    bad = []
    n = 0
    for nd in ast.walk(fn):
        ops = None
        if isinstance(nd, ast.BinOp) and isinstance(nd.op, ast.MatMult):
            ops = [nd.left, nd.right]
        elif isinstance(nd, ast.Call) and isinstance(nd.func, ast.Attribute) and nd.func.attr in ("mm", "bmm", "matmul", "einsum", "_int_mm"):
            ops = list(nd.args) + ([nd.func.value] if not U(nd.func.value) == "torch" else [])
        if ops is None:
            continue
        n += 1
        if any(is_raw(o) for o in ops):
            bad.append(U(nd)[:90])
    chk.require("C11.R7", site, not bad, f"QTensorLinear.backward: {n} contraction(s), raw payloads entering one: {bad}", "QTensorLinear.backward", "raw payload in a backward contraction",
                "a float16 module with quantized activations and a long input (hundreds of rows): the sum of unscaled codes exceeds 65504, the weight gradient is inf while the float twin's is finite")
    chk.floor("C11.R7", n, 2, "contractions in the linear backward")
    from ..core import views_on_inputs
    saved = {t_.id for st in ast.walk(bwd) if isinstance(st, ast.Assign) and "saved_tensors" in U(st.value) for tt in st.targets for t_ in (tt.elts if isinstance(tt, (ast.Tuple, ast.List)) else [tt]) if isinstance(t_, ast.Name)}
    vs = views_on_inputs(bwd, saved)
    chk.require("C11.R8", site, not vs, f"QTensorLinear.backward flattens gO and the saved tensors with reshape ({[U(v)[:40] for v in vs]})", "QTensorLinear.backward", "view on a saved tensor or gradient",
                "a non-contiguous input (x.transpose(1, 2)) to an unfrozen quantized linear: backward raises `view size is not compatible` where the float module's backward works")


def scale_outside_graph(chk, rule="C11.R14"):
    repo = chk.repo
    mi, _ = repo.func("quantize_weight")
    NOGRAD = ("torch.no_grad()", "torch.inference_mode()", "torch.set_grad_enabled(False)", "torch.autograd.no_grad()")
    n = 0
    # helpers of the module that evaluate what they return outside the graph: every return sits in a no_grad block
    outside = set()
    for hf in [x for x in ast.walk(mi.tree) if isinstance(x, ast.FunctionDef)]:
        rets = [x for x in ast.walk(hf) if isinstance(x, ast.Return) and x.value is not None]
        inside = {id(r) for w in ast.walk(hf) if isinstance(w, ast.With) and any(U(it.context_expr) in NOGRAD for it in w.items) for r in ast.walk(w) if isinstance(r, ast.Return)}
        if rets and all(id(r) in inside for r in rets):
            outside.add(hf.name)
    # the entry point and the helpers of its module it may be split into
    for fn in [x for x in ast.walk(mi.tree) if isinstance(x, ast.FunctionDef)]:
        binds = []  # (line, names, outside the graph)

        def visit(body, nograd):
            for st in body:
                if isinstance(st, (ast.FunctionDef, ast.ClassDef)):
                    continue
                if isinstance(st, (ast.Assign, ast.AnnAssign)) and getattr(st, "value", None) is not None:
                    names = []
                    for t in (st.targets if isinstance(st, ast.Assign) else [st.target]):
                        names += [e.id for e in (t.elts if isinstance(t, (ast.Tuple, ast.List)) else [t]) if isinstance(e, ast.Name)]
                    detached = isinstance(st.value, ast.Call) and ((isinstance(st.value.func, ast.Attribute) and st.value.func.attr == "detach") or (isinstance(st.value.func, ast.Name) and st.value.func.id in outside))
                    binds.append((st.lineno, names, nograd or detached))
                if isinstance(st, ast.With):
                    visit(st.body, nograd or any(U(it.context_expr) in NOGRAD for it in st.items))
                else:
                    for fld in ("body", "orelse", "finalbody", "handlers"):
                        sub = getattr(st, fld, None)
                        if isinstance(sub, list):
                            visit([x for x in sub if isinstance(x, ast.stmt)] + [y for h in sub if isinstance(h, ast.ExceptHandler) for y in h.body], nograd)

        visit(fn.body, False)
        for c in [x for x in ast.walk(fn) if isinstance(x, ast.Call) and U(x.func).endswith("Quantizer.apply")]:
            # the arguments after (t, qtype, axis[, group_size]) are the scale and the zero-point
            for a in c.args[3:]:
                if isinstance(a, ast.Name) and a.id == "group_size":
                    continue
                n += 1
                ok = isinstance(a, ast.Call) and isinstance(a.func, ast.Attribute) and a.func.attr == "detach"
                if isinstance(a, ast.Name):
                    last = max([b for b in binds if a.id in b[1] and b[0] < c.lineno], key=lambda b: b[0], default=None)
                    ok = last is not None and last[2]
                chk.require(rule, f"{mi.rel}:{c.lineno}", ok, f"{fn.name}: `{U(a)[:40]}` handed to {U(c.func)} is evaluated outside the graph of the weights (no_grad block or detach): {ok}", fn.name, "scale evaluated in the graph of the weights",
                            "m = QLinear (unfrozen); y = m(x) with x not requiring grad; with torch.no_grad(): m.weight.mul_(0.9) (an optimizer step); y.backward(): RuntimeError 'modified by an inplace operation', the float Linear returns its gradients")
    chk.floor(rule, n, 3, "scale / zero-point arguments of the quantizers in the module of quantize_weight")


def wrappers_keep_graph(chk):
    """C11.R11.  `register_qtensor_func` wrappers are called from __torch_function__: autograd has not recorded anything yet.  A wrapper that builds a
    QBytesTensor / QBitsTensor from `x._data` returns a leaf: no gradient reaches x (the aten-level handlers, called below autograd, may do so)."""
    from ..registries import handlers
    repo = chk.repo
    qt = repo.cls("QTensor")
    ctor_names = {c.name for c in [qt] + repo.subclasses(qt)}
    n = 0
    for h in handlers(repo)["qfunc"]:
        n += 1
        try:
            ps = paths_of(h.fn)
        except AnalysisError as e:
            chk.unknown("C11.R11", f"{h.mi.rel}:{h.fn.lineno}", f"{h.name}: paths not enumerated ({e})")
            continue
        for p in ps:
            if p.end[0] != "return" or p.end[1] is None:
                continue
            built = [U(c.func) for c in ast.walk(p.end[1]) if isinstance(c, ast.Call) and (U(c.func) in ctor_names or U(c.func).split(".")[0] in ctor_names and U(c.func).endswith(".create"))]
            chk.require("C11.R11", f"{h.mi.rel}:{p.end[2]}", not built, f"{h.name} (wrapper of {sorted(h.ops)[:2]}) returns `{U(p.end[1])[:60]}`: no quantized tensor assembled above autograd ({built})", h.name,
                        "wrapper assembles a quantized tensor above autograd", "a module whose forward goes through this function with an input that requires grad (QConv2d with padding_mode='reflect' and quantized activations for F.pad): "
                        "the output and the weight gradient are exact and no gradient reaches the input")
    chk.floor("C11.R11", n, 3, "function wrappers")


_BLOCK_LOOP_EXAMPLE = """
def drops_tail(g, x, k):
    acc = 0
    n = g.shape[0]
    for i in range(n // k):
        acc = acc + g[i * k:(i + 1) * k].t() @ x[i * k:(i + 1) * k]
    return acc

def covers_by_step(g, x, k):
    acc = 0
    for s in range(0, g.shape[0], k):
        acc = acc + g[s:s + k].t() @ x[s:s + k]
    return acc

def covers_with_remainder(g, x, k):
    acc = 0
    n = g.shape[0]
    for i in range(n // k):
        acc = acc + g[i * k:(i + 1) * k].t() @ x[i * k:(i + 1) * k]
    if n % k:
        acc = acc + g[n - n % k:].t() @ x[n - n % k:]
    return acc
"""


def _tail_dropping_loops(fn):
    """`for i in range(N // K)` loops whose body indexes with `i * K` while nothing in the function mentions the remainder `N % K`, a ceiling division
    or a stepped range over N"""
    out = []
    src = U(fn) if False else ast.unparse(fn)
    for n in ast.walk(fn):
        if not (isinstance(n, ast.For) and isinstance(n.iter, ast.Call) and U(n.iter.func) == "range" and len(n.iter.args) == 1 and isinstance(n.target, ast.Name)):
            continue
        a = n.iter.args[0]
        if not (isinstance(a, ast.BinOp) and isinstance(a.op, ast.FloorDiv)):
            continue
        N_, K_ = ast.unparse(a.left), ast.unparse(a.right)
        i = n.target.id
        blocks = any(isinstance(x, ast.BinOp) and isinstance(x.op, ast.Mult) and {ast.unparse(x.left), ast.unparse(x.right)} == {i, K_} for b in n.body for x in ast.walk(b))
        if not blocks:
            continue
        # a SUM over the blocks: something that does not depend on the loop variable is accumulated into (acc += ..., acc = acc + ..., acc.addmm_(...));
        # a loop that fills one output slot per block (a packing loop writing column `col`) is a layout matter, with its own divisibility precondition
        def mentions_i(e):
            return any(isinstance(x, ast.Name) and x.id == i for x in ast.walk(e))
        accumulates = False
        for b in n.body:
            for x in ast.walk(b):
                if isinstance(x, ast.AugAssign) and isinstance(x.op, (ast.Add, ast.Sub)) and not mentions_i(x.target):
                    accumulates = True
                elif isinstance(x, ast.Assign) and len(x.targets) == 1 and not mentions_i(x.targets[0]) and isinstance(x.value, ast.BinOp) and isinstance(x.value.op, ast.Add) \
                        and ast.unparse(x.targets[0]) in (ast.unparse(x.value.left), ast.unparse(x.value.right)):
                    accumulates = True
                elif isinstance(x, ast.Call) and isinstance(x.func, ast.Attribute) and x.func.attr in ("add_", "addmm_", "addmv_", "addbmm_", "baddbmm_", "index_add_") and not mentions_i(x.func.value):
                    accumulates = True
        if not accumulates:
            continue
        handled = f"{N_} % {K_}" in src or "ceil(" in src or f"-{N_} // {K_}" in src or f"({N_} + {K_} - 1) // {K_}" in src
        if not handled:
            out.append(n)
    return out


def block_loops_cover(chk):
    tree = ast.parse(_BLOCK_LOOP_EXAMPLE)
    v = {f.name: len(_tail_dropping_loops(f)) for f in tree.body}
    if v != {"drops_tail": 1, "covers_by_step": 0, "covers_with_remainder": 0}:
        raise AnalysisError(f"block-loop detector misjudges its built-in examples: {v}")
    repo = chk.repo
    n = 0
    for mi in repo.modules.values():
        if not (mi.rel.startswith("optimum/quanto/tensor/") or mi.rel.startswith("optimum/quanto/library/")):
            continue
        for fn in [x for x in ast.walk(mi.tree) if isinstance(x, ast.FunctionDef)]:
            n += 1
            for lp in _tail_dropping_loops(fn):
                chk.bad("C11.R12", f"{mi.rel}:{lp.lineno}", fn.name, "block loop drops the remaining rows", f"NOT: `for {lp.target.id} in {U(lp.iter)}` in {fn.name} visits whole blocks only and nothing handles the remainder",
                        "a QLinear with quantized activations trained on 5000 flattened rows (e.g. an input of shape (5, 1000, in)): the weight gradient misses the last 904 rows (relative error 0.47) while input and bias gradients are exact")
    chk.ok("C11.R12", "optimum/quanto/tensor + library", f"{n} functions scanned: no block loop that drops a remainder")
