"""C15 - AWQ layouts are bijective, match the reference, and denote the same weights (structural clauses)."""
import ast
import copy
from fractions import Fraction

from .. import layout_ast as la
from .. import poly
from ..core import AnalysisError, U, bind_call, fold_int, path_facts, paths_of, positional_params
from ..layout import LayoutError, Mono, input_tensor

TITLE = "AWQ layouts are bijective, match the reference, and denote the same weights"

RULES = {
    "C15.R1": "pack_v2 is a digit permutation plus a full lane map (bijective) for symbolic N = 4n, K = 64k",
    "C15.R2": "unpack_v2(pack_v2(x)) == x as layouts",
    "C15.R3": "pack_v2 has the same canonical layout as the reference packer external/awq/pack_intweight.py (interleave 4, kstride 64)",
    "C15.R4": "v1: slot i of packed column c holds source column 8c + order[i] at bit 4i; unpack shifts by arange(0, 32, 4), undoes the order through AWQ_REVERSE_ORDER with AWQ_ORDER[AWQ_REVERSE_ORDER[j]] == j, masks to 4 bits; same tables as the reference",
    "C15.R5": "representation: the scale/zero-point transposes of the optimised constructor are undone by the optimised dequantizer, and scale*code + (-zp*scale) == scale*(code - zp)",
    "C15.R6": "conversion back: every transformation the optimised constructor applies to a field has its inverse in qbits_tensor()",
    "C15.R8": "AWQPackedTensor.pack/unpack delegate to the module packer/unpacker selected by the recorded packing with the recorded reorder flag, nothing re-positions the unpacked codes, and every reconstruction inside the class carries (packing, reorder) over unchanged",
    "C15.R9": "re-wrapping handlers: a QBitsTensor handler that rebuilds `t.__class__(...)` from `op(t._data)` is only registered for ops under which AWQPackedTensor stays packed (its __torch_dispatch__ keeps detach / _to_copy / to); otherwise the optimised constructor formats scale and zero-point a second time",
    "C15.R10": "the grouping helpers the optimised constructor and dequantizer rely on (ungroup before packing, group after unpacking) are inverse layouts (the rule of C02.R4)",
    "C15.R16": "one dispatch table, two conventions: the optimised subclass stores its zero-point already scaled and negated, so a handler of the QBitsTensor table that rebuilds `type(t)` / `t.__class__` passes scale and zero-point through the dispatched op alone - arithmetic on either is only done on an operand known to be a plain QBitsTensor",
    "C15.R15": "the packed AWQ payload is only ever copied whole: AWQPackedTensor.__torch_dispatch__ re-wraps the result of detach / clone / moves applied to its data with unchanged packing, reorder, size and stride, and no other site builds an AWQPackedTensor from packed data that was indexed, narrowed or reshaped (the layouts interleave rows and columns: a sub-range of the packed data is not the packing of a sub-range)",
    "C15.R14": "the standard representation the AWQ tensors must agree with is exact: scale * (codes - zeropoint) with the difference formed in a type that holds it, on every path of the QBits dequantizer (rule C02.R3 re-checked)",
    "C15.R13": "the AWQ representation survives flatten / unflatten: each AWQ tensor class is rebuilt as itself (a subclass with its own constructor does not inherit a reader that names its base) and its reader inverts its writer field by field (an Enum member is written by name / value and read through the Enum)",
    "C15.R11": "the packers widen before they shift: every `<<` in pack / pack_v2 applies to a value already cast to a 16/32/64-bit integer (a 4-bit code shifted by 4 in an int8 tensor - what v1 unpack returns - turns negative and sign-extends over the neighbouring lanes)",
    "C15.R12": "the packing functions are pure: no module-level state is written or consulted by pack / unpack / pack_v2 / unpack_v2 / reverse_awq_order (a cached index makes the result depend on the widths seen before)",
    "C15.R7": "create() selects the optimised class exactly under the kernel's preconditions; moves across device types and serialization convert back; every subclass overrides qbits_tensor",
}


def run(chk):
    for k, v in RULES.items():
        chk.rule(k, v)
    repo = chk.repo
    awq_mi = next((m for m in repo.modules.values() if m.rel.endswith("qbits/awq/packed.py")), None)
    ref_mi = next((m for m in repo.modules.values() if m.rel.endswith("external/awq/pack_intweight.py")), None)
    if awq_mi is None or ref_mi is None:
        raise AnalysisError("AWQ sources not found")
    pack_v2, unpack_v2 = awq_mi.defs.get("pack_v2"), awq_mi.defs.get("unpack_v2")
    ref = ref_mi.defs.get("pack_intweight")
    if not all(isinstance(x, ast.FunctionDef) for x in (pack_v2, unpack_v2, ref)):
        raise AnalysisError("pack_v2 / unpack_v2 / pack_intweight not found")
    n, k = Mono(Fraction(1), "n"), Mono(Fraction(1), "k")
    N, K = n * 4, k * 64
    x = input_tensor([N, K])
    site = f"{awq_mi.rel}:{pack_v2.lineno}"
    p = None
    try:
        ip = la.Interp(pack_v2, [x], {})
        p = ip.run()
        if not isinstance(p, la.Lane):
            chk.unknown("C15.R1", site, "pack_v2 did not produce a packed value")
            p = None
        else:
            offs = sorted(o for o, w, pl in p.fields)
            idx = sorted(pl[1] for o, w, pl in p.fields)
            full = offs == [0, 4, 8, 12] and idx == [0, 1, 2, 3]
            sizes = p.t.sizes()
            shape_ok = len(sizes) == 2 and sizes[0] == n and sizes[1] == K
            chk.require("C15.R1", site, full and shape_ok, f"pack_v2: element layout {p.t.key()[0]} of shape {sizes}, four 4-bit lanes at bits {offs} holding interleave indexes {idx}: a bijection of positions", "pack_v2", "pack_v2 bijective", "every admissible matrix: two codes share a lane or a code is dropped")
            pre = ip.asserts
            chk.require("C15.R1", site, "unpacked.ndim == 2" in pre, f"pack_v2 preconditions {pre}", "pack_v2", "pack_v2 preconditions", "a non-2-D input")
    except LayoutError as e:
        chk.bad("C15.R1", site, "pack_v2", "pack_v2 layout error", f"pack_v2 (N=4n, K=64k): {e}", "every admissible matrix")
    except la.Unknown as e:
        chk.unknown("C15.R1", site, f"pack_v2: {e}")
    if p is not None:
        site_u = f"{awq_mi.rel}:{unpack_v2.lineno}"
        try:
            u = la.Interp(unpack_v2, [la.give_widths(p, 4)], {}).run()
            same = hasattr(u, "key") and u.key() == x.key()
            chk.require("C15.R2", site_u, same, f"unpack_v2(pack_v2(x)) has layout {u.key()[0] if hasattr(u, 'key') else u}: the identity", "unpack_v2", "unpack_v2 inverts pack_v2", "every admissible matrix: codes come back at permuted positions")
        except LayoutError as e:
            chk.bad("C15.R2", site_u, "unpack_v2", "unpack_v2 layout error", f"unpack_v2 after pack_v2: {e}", "every admissible matrix")
        except la.Unknown as e:
            chk.unknown("C15.R2", site_u, f"unpack_v2: {e}")
        site_r = f"{ref_mi.rel}:{ref.lineno}"
        try:
            r = la.Interp(ref, [x, 4, 64], {}).run()
            same = isinstance(r, la.Lane) and p.t.key() == r.t.key() and sorted((o, pl[1:]) for o, w, pl in p.fields) == sorted((o, pl[1:]) for o, w, pl in r.fields)
            chk.require("C15.R3", site, same, "pack_v2 and external pack_intweight(x, 4, 64) have the same canonical layout and lane map", "pack_v2", "pack_v2 equals the reference", "every admissible matrix: the CUDA kernel (written for the reference layout) reads other weights")
        except LayoutError as e:
            chk.unknown("C15.R3", site_r, f"reference packer: {e}")
        except la.Unknown as e:
            chk.unknown("C15.R3", site_r, f"reference packer: {e}")
    v1(chk, awq_mi)
    representation(chk)
    selection(chk)
    wrapper(chk, awq_mi)
    rewrap_ops(chk, awq_mi)
    from .. import serial
    awq_classes = [c for lst in repo.classes.values() for c in lst if c.name.startswith("AWQ")]
    lost = {c.name for c, *_ in serial.inherited_readers(repo)}
    for c in awq_classes:
        if c.own("__init__") is not None or c.own("__new__") is not None:
            chk.require("C15.R13", f"{c.mod.rel}:{c.node.lineno}", c.name not in lost, f"{c.name} is rebuilt as a {c.name} by the __tensor_unflatten__ it resolves to", c.name, "reader inherited from a base that rebuilds the base class",
                        "an AWQ tensor taken through flatten / unflatten: it comes back as a standard QBitsTensor wrapping AWQ-packed codes, transposed scales and scaled negated zero-points (128x128: silently wrong values)")
    for c in awq_classes:
        if serial._meth(repo, c, "__tensor_flatten__") is None:
            continue
        for suffix, verdict, line, tag, detail, witness in serial.analyse_class(repo, c):
            site = f"{c.mod.rel}:{line}"
            if verdict == "ok":
                chk.ok("C15.R13", site, detail)
            elif verdict == "bad":
                chk.bad("C15.R13", site, c.name, tag, detail, witness)
            elif verdict == "note":
                chk.ok("C15.R13", site, "NOTE: " + detail)
            else:
                chk.unknown("C15.R13", site, detail)
    chk.floor("C15.R13", len(awq_classes), 2, "AWQ tensor classes")
    packed_closed(chk, awq_mi)
    shared_table_conventions(chk)
    if chk.pid == "C15":
        # "the same values as the standard representation": the reference side of that comparison is the QBits dequantizer
        from ..report import AliasedCheck
        from . import c02
        c02.dequantizer(AliasedCheck(chk, {"C02.R3": "C15.R14"}))
    widen_before_shift(chk, awq_mi)
    pure_layout(chk, awq_mi)
    from .c04_layout import group_ungroup
    group_ungroup(chk, "C15.R10")
    chk.assume("row-major reshape, permute, bit operators on int32/int16 values that fit (codes < 16)", "the CUDA kernels themselves are not analysed")


# ---------------------------------------------------------------------------------------------
def _const_list(mi, name):
    v = mi.defs.get(name)
    if isinstance(v, (ast.List, ast.Tuple)) and all(isinstance(x, ast.Constant) for x in v.elts):
        return [x.value for x in v.elts]
    return None


def soft(chk, rule, site, ok, what, fn, tag, witness):
    """A structural spelling check: a mismatch means the construct is outside the matcher's vocabulary (undecided), not a violation."""
    if ok:
        chk.ok(rule, site, what)
    else:
        chk.unknown(rule, site, f"{fn}: not in the recognised form: {what}")


def v1(chk, awq_mi):
    repo = chk.repo
    pack, unpack, rev = awq_mi.defs.get("pack"), awq_mi.defs.get("unpack"), awq_mi.defs.get("reverse_awq_order")
    site = f"{awq_mi.rel}:{pack.lineno if pack else 1}"
    if not all(isinstance(x, ast.FunctionDef) for x in (pack, unpack, rev)):
        chk.unknown("C15.R4", site, "v1 pack/unpack/reverse_awq_order not found")
        return
    order, rorder = _const_list(awq_mi, "AWQ_ORDER"), _const_list(awq_mi, "AWQ_REVERSE_ORDER")
    if order is None or rorder is None:
        chk.unknown("C15.R4", site, "AWQ order tables are not literal lists")
        return
    ok_perm = sorted(order) == list(range(8)) and sorted(rorder) == list(range(8)) and all(order[rorder[j]] == j for j in range(8))
    chk.require("C15.R4", f"{awq_mi.rel}:1", ok_perm, f"AWQ_ORDER={order}, AWQ_REVERSE_ORDER={rorder}: AWQ_ORDER[AWQ_REVERSE_ORDER[j]] == j for all j", "AWQ tables", "order tables inverse", "every reordered v1 matrix: columns come back permuted")
    ref_mi = next((m for m in repo.modules.values() if m.rel.endswith("external/awq/packing_utils.py")), None)
    if ref_mi is not None:
        chk.require("C15.R4", f"{awq_mi.rel}:1", _const_list(ref_mi, "AWQ_ORDER") == order and _const_list(ref_mi, "AWQ_REVERSE_ORDER") == rorder, "order tables equal those of external/awq/packing_utils.py", "AWQ tables", "tables equal the reference", "reordered v1 matrices are not interchangeable with AWQ checkpoints")
    # ---- column-mode interpretation: dim 1 explicit for K in the domain, rows and contents abstract
    from ..cols import CT, ColInterp
    from ..rows import RowError, RowUnknown
    Ks = (8, 16, 24) if chk.tier == "quick" else (8, 16, 24, 32, 64, 128)
    ref_pack = ref_mi.defs.get("pack_awq") if ref_mi is not None else None
    n_ok = 0
    for K in Ks:
        for reorder in (False, True):
            tag = f"K={K}, reorder={reorder}"
            try:
                src = CT.source(K, 4)
                pk = ColInterp(pack, {positional_params(pack)[0]: src, "reorder": reorder}).run()
                if not isinstance(pk, CT):
                    chk.unknown("C15.R4", site, f"v1 pack ({tag}) did not return a tensor")
                    continue
                dense = len(pk.cells) == K // 8 and all(sorted(o for o, w, c in cell) == list(range(0, 32, 4)) for cell in pk.cells)
                stored = sorted(c for cell in pk.cells for _, _, c in cell)
                chk.require("C15.R4", site, dense and stored == list(range(K)), f"v1 pack ({tag}): {K // 8} int32 columns, eight full 4-bit lanes each, every source column stored once", "pack", f"v1 pack lanes reorder={reorder}", f"every v1 matrix ({tag}): a column is dropped or two share a lane")
                un = ColInterp(unpack, {positional_params(unpack)[0]: pk, "reorder": reorder}).run()
                same = isinstance(un, CT) and un.key() == src.key()
                chk.require("C15.R4", f"{awq_mi.rel}:{unpack.lineno}", same, f"v1 unpack(pack(x)) == x ({tag}; rows and contents symbolic)", "unpack", f"v1 round trip reorder={reorder}", f"every v1 matrix ({tag}): columns come back permuted, shifted or with stray bits")
                if isinstance(ref_pack, ast.FunctionDef):
                    # the reference packer is fed int32 codes by its own tests (no cast before the shift)
                    rp = ColInterp(ref_pack, {positional_params(ref_pack)[0]: CT.source(K, 4, 32), "reorder": reorder}).run()
                    chk.require("C15.R4", site, isinstance(rp, CT) and rp.key() == pk.key(), f"v1 pack equals the reference packer external/awq/packing_utils.pack_awq ({tag})", "pack", f"v1 pack equals reference reorder={reorder}", f"v1 matrices ({tag}) are not interchangeable with AWQ checkpoints")
                n_ok += 1
            except RowError as e:
                chk.bad("C15.R4", site, "pack/unpack", f"v1 layout error reorder={reorder}", f"v1 pack/unpack ({tag}): {e}", f"every v1 matrix ({tag})")
            except RowUnknown as e:
                chk.unknown("C15.R4", site, f"v1 column-mode interpretation ({tag}): {e}")
    chk.floor("C15.R4", n_ok, 4, "v1 column-mode instances")


def representation(chk):
    repo = chk.repo
    ci = repo.cls("AWQBitsTensor")
    mi = ci.mod
    init = ci.own("__init__")
    dq = repo.cls("AWQBitsDequantizer").own("forward")
    site = f"{mi.rel}:{init.lineno}"
    isrc, dsrc = U(init), U(dq)
    # constructor transformations, read from the arguments handed to the base constructor on the raw-payload path
    sup_args = None
    for p_ in paths_of(init):
        if p_.end[0] == "raise" or path_facts(p_).get("isinstance(data, AWQPackedTensor)") is not False:
            continue
        for ef in p_.effects:
            if ef[0] == "expr" and isinstance(ef[1], ast.Call) and U(ef[1].func) == "super().__init__":
                sup_args = ef[1].args
    if sup_args is None or len(sup_args) < 8:
        chk.unknown("C15.R5", site, "AWQBitsTensor.__init__: base constructor call on the raw-payload path not found")
        return

    class _Strip(ast.NodeTransformer):
        def visit_Call(self, node):
            self.generic_visit(node)
            if isinstance(node.func, ast.Attribute) and node.func.attr == "contiguous" and not node.args and all(k.arg == "memory_format" for k in node.keywords):
                return node.func.value
            # a cast of the zero-point to the dtype of the scale keeps its value (it is what makes the negation safe, see below);
            # the keywords that say HOW the copy is made (non_blocking, copy, memory_format) do not change it
            if isinstance(node.func, ast.Attribute) and node.func.attr in ("to", "type") and len(node.args) == 1 and U(node.args[0]).endswith(".dtype") \
                    and all(k.arg in ("non_blocking", "copy", "memory_format") for k in node.keywords):
                return node.func.value
            return node

    # the zero-point is an int8 tensor: negating it as such maps -128 to -128 (F33 again); it must be widened before the sign changes
    negs = [n_ for n_ in ast.walk(sup_args[7]) if isinstance(n_, ast.UnaryOp) and isinstance(n_.op, ast.USub)]
    widened = all(".to(" in U(n_.operand) or ".float()" in U(n_.operand) or ".type(" in U(n_.operand) for n_ in negs)
    chk.require("C15.R5", site, bool(negs) and widened, f"optimised constructor: the int8 zero-point is widened before it is negated (`{U(sup_args[7])[:80]}`)", "AWQBitsTensor.__init__", "int8 zero-point negated before widening",
                "a float16 group spanning [128, 143] (scale 1.0, zero-point -128): the standard tensor dequantizes exactly, the AWQ tensor built from the same codes, scale and zero-point gives -128..-113 (256 x scale away)")
    d_t, s_t, z_t = (_Strip().visit(copy.deepcopy(x)) for x in (sup_args[5], sup_args[6], sup_args[7]))
    shape = "(size[0], size[1] // group_size)"
    want_data = ("AWQPackedTensor.pack(ungroup(data, axis=0, orig_shape=size), packing=AWQPacking.V2)",)
    t_data = U(d_t) in want_data
    want_scale = f"scale.reshape{shape}.t()"
    t_scale = U(s_t) == want_scale
    zt = f"zeropoint.reshape{shape}.t()"
    zp_poly = poly.poly(z_t)
    t_zp = zp_poly == {tuple(sorted((want_scale, zt))): -1}
    chk.require("C15.R5", site, t_data, f"optimised constructor: codes un-grouped then packed v2 (`{U(d_t)[:90]}`)", "AWQBitsTensor.__init__", "constructor payload", "every optimised tensor: the kernel reads codes in another order")
    chk.require("C15.R5", site, t_scale, f"optimised constructor: scale reshaped to (out, groups) and transposed (`{U(s_t)[:80]}`)", "AWQBitsTensor.__init__", "constructor scale", "every optimised tensor with several groups")
    chk.require("C15.R5", site, t_zp, f"optimised constructor: zero-point stored as -(zp reshaped/transposed) * (scale reshaped/transposed): `{U(z_t)[:110]}`", "AWQBitsTensor.__init__", "constructor zero-point", "every optimised tensor: dequantized values are offset by 2*zp*scale (wrong sign) or by an unscaled zero-point")
    if not (t_data and t_scale and t_zp):
        return
    # ---- dequantizer, read from its (inlined, substituted) return term
    a, G = Mono(1, "out"), Mono(1, "G")
    s0 = input_tensor([a * G, Mono.of(1)])
    dps = [p_ for p_ in paths_of(dq) if p_.end[0] == "return"]
    site_d = f"{mi.rel}:{dq.lineno}"
    tq = positional_params(dq)[1]
    if len(dps) != 1 or not (isinstance(dps[0].end[1], ast.Call) and U(dps[0].end[1].func) == "ungroup"):
        chk.unknown("C15.R5", site_d, "AWQBitsDequantizer.forward: does not return ungroup(...) on a single path")
    else:
        ub = bind_call(repo.func("ungroup")[1], dps[0].end[1])
        ok_un = ub is not None and U(ub["axis"]) == f"{tq}.axis" and U(ub["orig_shape"]) == f"{tq}.shape"
        chk.require("C15.R5", site_d, ok_un, f"dequantizer un-groups the result with axis={tq}.axis and orig_shape={tq}.shape", "AWQBitsDequantizer.forward", "result ungrouped", "every optimised tensor: dequantized values in the grouped shape")
        val = _Strip().visit(copy.deepcopy(ub["grouped"])) if ub else None
        S = f"{tq}._scale.t().reshape(({tq}._scale.numel(), 1))"
        Z = f"{tq}._zeropoint.t().reshape(({tq}._scale.numel(), 1))"
        Z2 = f"{tq}._zeropoint.t().reshape(({tq}._zeropoint.numel(), 1))"
        Cg = f"group({tq}._data.unpack(), 0, {tq}._group_size)"

        def atom(e):
            t = U(e)
            for nm, txt in (("S", S), ("Z", Z), ("Z", Z2), ("C", Cg)):
                if t == txt or t == txt.replace("((", "([").replace(", 1))", ", 1])"):
                    return nm
            return t

        got = poly.poly(val, atom) if val is not None else None
        want = {("C", "S"): 1, ("Z",): 1}
        if got is not None and set(m for mono in got for m in mono) <= {"S", "Z", "C"}:
            chk.require("C15.R5", site_d, got == want, f"dequantized value is scale' * group(codes) + zeropoint' with scale'/zeropoint' transposed back to (out*groups, 1): {poly.show(got)}", "AWQBitsDequantizer.forward", "affine algebra", "every optimised tensor: zero-point applied with the wrong sign or unscaled, or codes not re-grouped")
            chk.ok("C15.R5", site_d, "dequantizer re-groups the unpacked codes (axis 0, stored group size)")
            try:
                from ..layout import permute, reshape
                stored = permute(reshape(s0, [a, G]), [1, 0])
                back = reshape(permute(stored, [1, 0]), [a * G, Mono.of(1)])
                chk.require("C15.R5", site_d, back.key() == s0.key(), "dequantizer restores the (out*groups, 1) layout of scale and zero-point that the constructor transposed", "AWQBitsDequantizer.forward", "scale layout restored", "every optimised tensor with more than one group: scales applied to the wrong groups")
            except LayoutError as e:
                chk.bad("C15.R5", site_d, "AWQBitsTensor", "scale layout", f"scale/zero-point transposes do not compose: {e}", "every optimised tensor")
            # scale*code + (-zp*scale) == scale*(code - zp)
            lhs = poly.parse("S * C + (0 - zp * S)")
            chk.require("C15.R5", site_d, lhs == poly.parse("S * C - S * zp"), "scale*code + (-zp*scale) == scale*(code - zp) as polynomials", "AWQBitsDequantizer.forward", "affine identity", "-")
        else:
            missing_group = got is not None and not any("C" in mono for mono in got) and any("unpack()" in m for mono in got for m in mono)
            divides = val is not None and any(isinstance(n_, ast.BinOp) and isinstance(n_.op, (ast.Div, ast.FloorDiv)) and "_scale" in U(n_.right) for n_ in ast.walk(val))
            if divides:
                chk.bad("C15.R5", site_d, "AWQBitsDequantizer.forward", "dequantizer divides by the scale", f"the optimised dequantizer divides by the stored scale (`{U(val)[:110]}`): a group whose scale is zero (an all-zero group) gives 0/0 = NaN, the standard dequantizer gives zeros",
                        "an int4 weight with an all-zero (pruned) group of 128 values held in the optimised representation: NaN where the standard representation dequantizes to 0")
            elif missing_group:
                chk.bad("C15.R5", site_d, "AWQBitsDequantizer.forward", "codes regrouped", f"dequantizer multiplies the scale by un-grouped codes: {poly.show(got)[:120]}", "every optimised tensor: scales broadcast against un-grouped codes")
            else:
                chk.unknown("C15.R5", site_d, f"AWQBitsDequantizer.forward: dequantized term not in the recognised vocabulary: {poly.show(got)[:160] if got else None}")
    # ---- R6 conversion back
    qb = ci.own("qbits_tensor")
    site_q = f"{mi.rel}:{qb.lineno}"
    for p in paths_of(qb):
        if p.end[0] != "return":
            continue
        e = p.end[1]
        if not (isinstance(e, ast.Call) and U(e.func) == "QBitsTensor"):
            chk.unknown("C15.R6", site_q, f"qbits_tensor returns `{U(e)[:50]}`")
            continue
        f = bind_call(repo.method(repo.cls("QBitsTensor"), "__init__")[1], e, skip_first=1)
        d, s, z = U(f["data"]), U(f["scale"]), U(f["zeropoint"])
        ok_unpack = "self._data.unpack()" in d
        ok_group = d.startswith("group(") and "self._group_size" in d
        if ok_unpack and ok_group:
            chk.ok("C15.R6", site_q, f"qbits_tensor: codes unpacked and re-grouped: `{d[:70]}`")
        else:
            chk.bad("C15.R6", site_q, "AWQBitsTensor.qbits_tensor", "codes not re-grouped", f"qbits_tensor passes `{d[:70]}` as payload: the constructor un-grouped the codes (ungroup, pack_v2) but only pack_v2 is undone; a QBitsTensor holds grouped codes",
                    "any optimised tensor converted back (serialization, move to CPU): scales of shape (out*groups, 1) are broadcast against (out, in) codes")
        ok_s = s in ("self._scale.t().reshape((self._scale.numel(), 1))", "self._scale.t().reshape([self._scale.numel(), 1])")
        chk.require("C15.R6", site_q, ok_s, f"qbits_tensor: scale transposed back to (out*groups, 1): `{s[:70]}`", "AWQBitsTensor.qbits_tensor", "scale converted back", "any optimised tensor converted back")
        ok_z = ("/" in z or "div(" in z) and "torch.int8" in z and ("round" in z)
        if ok_z:
            chk.ok("C15.R6", site_q, f"qbits_tensor: zero-point unscaled, negated, rounded and cast to int8: `{z[:80]}`")
        else:
            chk.bad("C15.R6", site_q, "AWQBitsTensor.qbits_tensor", "zero-point left scaled", f"qbits_tensor passes `{z[:80]}` as zero-point: the constructor stored -zp*scale in float16, the standard tensor expects the integer zp (divide by -scale, round, cast to int8)",
                    "any optimised tensor converted back: the float zero-point is truncated to int8 and subtracted from the codes")


def selection(chk):
    repo = chk.repo
    qb = repo.cls("QBitsTensor")
    create = qb.own("create")
    n = 0
    for p in paths_of(create):
        if p.end[0] != "return":
            continue
        e = p.end[1]
        f = path_facts(p)
        site = f"{qb.mod.rel}:{p.end[2]}"
        if isinstance(e, ast.Call) and U(e.func) == "AWQBitsTensor":
            n += 1
            need = {"qtype == qint4": True, "scale.dtype == torch.float16": True, "axis == 0": True, "group_size == 128": True, "len(size) == 2": True, "data.device.type == 'cuda'": True}
            missing = [k for k, v in need.items() if f.get(k) is not v]
            chk.require("C15.R7", site, not missing, f"create selects AWQBitsTensor only under qint4/float16/axis 0/group 128/2-D/cuda (missing: {missing})", "QBitsTensor.create", f"AWQ selection guard {missing}", "a configuration outside the kernel's asserted preconditions gets the optimised class (assertion error or wrong results in the CUDA kernel)")
    chk.floor("C15.R7", n, 1, "AWQ selection paths")
    # subclasses override qbits_tensor
    for sc in repo.subclasses(qb):
        chk.require("C15.R7", f"{sc.mod.rel}:{sc.node.lineno}", sc.own("qbits_tensor") is not None, f"{sc.name} overrides qbits_tensor", sc.name, "qbits_tensor override", "serializing that subclass raises NotImplementedError")
    # save converts back
    sv = qb.own("save_to_state_dict")
    ok = False
    for p in paths_of(sv):
        f = path_facts(p)
        if f.get("type(self) == QBitsTensor") is False:
            ok = any(ef[0] == "expr" and U(ef[1]).startswith("self.qbits_tensor().save_to_state_dict(") for ef in p.effects)
    chk.require("C15.R7", f"{qb.mod.rel}:{sv.lineno}", ok, "save_to_state_dict of a subclass serializes self.qbits_tensor()", "QBitsTensor.save_to_state_dict", "serialization converts back", "a frozen optimised model: the state_dict holds the AWQ layout that the loader cannot read")
    # _to_copy converts back before a device-type change
    from ..registries import handlers
    for h in handlers(repo)["qbits"]:
        if "aten._to_copy" in h.ops:
            t = positional_params(h.fn)[1]
            found = False
            for p in paths_of(h.fn):
                f = path_facts(p)
                if f.get(f"type({t}) == QBitsTensor") is False and f.get(f"{t}.device.type == device.type") is False and p.end[0] == "return":
                    found = f"{t}.qbits_tensor()" in U(p.end[1])
            chk.require("C15.R7", f"{h.mi.rel}:{h.fn.lineno}", found, "QBits _to_copy converts an optimised tensor back before moving it to another device type", h.name, "device move converts back", "moving an optimised CUDA tensor to the CPU: the CPU tensor keeps the CUDA-only layout")


# ---------------------------------------------------------------------------------------------
# Tensor methods that move elements or re-read storage with another geometry: applied to freshly unpacked codes they need an
# inverse on the packing side (there is none: pack() hands the matrix straight to the packer).
POSITION_OPS = {"as_strided", "t", "T", "mT", "permute", "transpose", "reshape", "view", "flip", "roll", "movedim", "swapaxes", "swapdims",
                "flatten", "unflatten", "index_select", "gather", "take", "narrow", "expand", "repeat", "tile", "set_", "resize_", "squeeze", "unsqueeze"}
TRANSPARENT_OPS = {"contiguous", "clone", "detach"}


def _peel_result(e):
    """Strip layout-transparent wrappers; return (core, [position ops met])."""
    moved = []
    while True:
        if isinstance(e, ast.Call) and isinstance(e.func, ast.Attribute) and e.func.attr in TRANSPARENT_OPS and not e.args:
            e = e.func.value
        elif isinstance(e, ast.Call) and isinstance(e.func, ast.Attribute) and e.func.attr in POSITION_OPS:
            moved.append(e.func.attr)
            e = e.func.value
        elif isinstance(e, ast.Attribute) and e.attr in POSITION_OPS:
            moved.append(e.attr)
            e = e.value
        elif isinstance(e, ast.Subscript):
            moved.append("[...]")
            e = e.value
        else:
            return e, moved


def wrapper(chk, awq_mi):
    repo = chk.repo
    ci = repo.cls("AWQPackedTensor")
    fns = {k: awq_mi.defs.get(k) for k in ("pack", "unpack", "pack_v2", "unpack_v2")}
    m_pack, m_unpack, init = ci.own("pack"), ci.own("unpack"), ci.own("__init__")
    site = f"{awq_mi.rel}:{ci.node.lineno}"
    if not (m_pack and m_unpack and init) or not all(isinstance(v, ast.FunctionDef) for v in fns.values()):
        chk.unknown("C15.R8", site, "AWQPackedTensor.pack / unpack / __init__ or the module packers not found")
        return
    # -- __init__ stores the three fields from the same-named parameters
    stored = {}
    for p in paths_of(init, inline_helpers=False):
        for ef in p.effects:
            if ef[0] == "store" and U(ef[1]) == "self":
                stored[f"self.{ef[2]}"] = U(ef[3])
    want = {"self._data": "data", "self._packing": "packing", "self._reorder": "reorder"}
    if all(k in stored for k in want):
        chk.require("C15.R8", f"{awq_mi.rel}:{init.lineno}", all(stored[k] == v for k, v in want.items()), f"__init__ stores {stored}", "AWQPackedTensor.__init__", "fields stored", "every packed tensor: unpack runs with another packing or reorder flag than pack")
    else:
        chk.unknown("C15.R8", f"{awq_mi.rel}:{init.lineno}", f"__init__: stores {stored}")
    ctor = bind_of = None
    new = ci.own("__new__")
    npos = positional_params(new)[1:] if new else positional_params(init)[1:]

    def ctor_args(call):
        env = {}
        for nm, a in zip(npos, call.args):
            env[nm] = a
        for k in call.keywords:
            env[k.arg] = k.value
        return env

    # -- pack: the packer is selected by `packing`, gets `reorder`, and the result is recorded with the same pair
    tname = positional_params(m_pack)[1]
    n_paths = 0
    for p in paths_of(m_pack, inline_helpers="methods"):
        if p.end[0] != "return":
            continue
        e = p.end[1]
        s = f"{awq_mi.rel}:{p.end[2]}"
        if not (isinstance(e, ast.Call) and U(e.func) in ("AWQPackedTensor", "cls")):
            chk.unknown("C15.R8", s, f"pack returns `{U(e)[:60]}`")
            continue
        f = path_facts(p)
        v1 = f.get("packing == AWQPacking.V1")
        if v1 is None:
            chk.unknown("C15.R8", s, f"pack: path does not decide `packing == AWQPacking.V1` (facts {sorted(f)})")
            continue
        env = ctor_args(e)
        data, moved = _peel_result(env.get("data"))
        ok_call = False
        detail = U(env.get("data"))[:70]
        if isinstance(data, ast.Call) and isinstance(data.func, ast.Name) and data.func.id in fns:
            b = bind_call(fns[data.func.id], data)
            if v1:
                ok_call = data.func.id == "pack" and b is not None and U(b[positional_params(fns["pack"])[0]]) == tname and U(b["reorder"]) == "reorder"
            else:
                ok_call = data.func.id == "pack_v2" and b is not None and U(b[positional_params(fns["pack_v2"])[0]]) == tname
        ok_meta = U(env.get("packing")) == "packing" and U(env.get("reorder")) == "reorder"
        n_paths += 1
        tag = "V1" if v1 else "V2"
        chk.require("C15.R8", s, ok_call and not moved, f"pack ({tag}): payload is `{detail}`" + (f" re-positioned by {moved}" if moved else ""), "AWQPackedTensor.pack", f"pack delegates {tag}", f"every {tag} packed tensor: the payload is not the {tag} packing of the matrix (with the requested reorder flag)")
        chk.require("C15.R8", s, ok_meta, f"pack ({tag}): records packing=`{U(env.get('packing'))}`, reorder=`{U(env.get('reorder'))}`", "AWQPackedTensor.pack", f"pack records {tag}", f"every {tag} packed tensor: unpack is run with another packing / reorder flag than pack")
    chk.floor("C15.R8", n_paths, 2, "AWQPackedTensor.pack paths")
    # -- unpack: the unpacker is selected by the recorded packing and nothing re-positions its result
    n_paths = 0
    for p in paths_of(m_unpack, inline_helpers="methods"):
        if p.end[0] != "return":
            continue
        s = f"{awq_mi.rel}:{p.end[2]}"
        f = path_facts(p)
        v1 = f.get("self._packing == AWQPacking.V1")
        if v1 is None:
            chk.unknown("C15.R8", s, f"unpack: path does not decide `self._packing == AWQPacking.V1` (facts {sorted(f)})")
            continue
        core, moved = _peel_result(p.end[1])
        tag = "V1" if v1 else "V2"
        ok_call = False
        if isinstance(core, ast.Call) and isinstance(core.func, ast.Name) and core.func.id in fns:
            b = bind_call(fns[core.func.id], core)
            if v1:
                ok_call = core.func.id == "unpack" and b is not None and U(b[positional_params(fns["unpack"])[0]]) == "self._data" and U(b["reorder"]) == "self._reorder"
            else:
                ok_call = core.func.id == "unpack_v2" and b is not None and U(b[positional_params(fns["unpack_v2"])[0]]) == "self._data"
        elif not moved:
            chk.unknown("C15.R8", s, f"unpack ({tag}) returns `{U(p.end[1])[:70]}`")
            continue
        n_paths += 1
        chk.require("C15.R8", s, ok_call, f"unpack ({tag}): `{U(core)[:60]}` on the stored payload with the recorded reorder flag", "AWQPackedTensor.unpack", f"unpack delegates {tag}", f"every {tag} packed tensor: the payload is unpacked by another routine or flag than it was packed with")
        chk.require("C15.R8", s, not moved, f"unpack ({tag}): result of the unpacker returned as is" if not moved else f"unpack ({tag}): result re-positioned by {moved} (`{U(p.end[1])[:80]}`) with no inverse on the packing side", "AWQPackedTensor.unpack", f"unpack result untouched {tag}",
                    f"a {tag} matrix packed from a non-contiguous / differently shaped source: codes come back at other positions than they were given")
    chk.floor("C15.R8", n_paths, 2, "AWQPackedTensor.unpack paths")
    # -- reconstructions inside the class carry (packing, reorder) over
    n = 0
    # methods of the class and module-level helpers they may delegate the rebuilding to
    holders = [m for m in ci.node.body if isinstance(m, ast.FunctionDef)] + [m for m in awq_mi.tree.body if isinstance(m, ast.FunctionDef) and m.name not in fns]
    for m in holders:
        if m.name in ("pack", "__tensor_unflatten__"):
            continue
        for c in ast.walk(m):
            if isinstance(c, ast.Call) and isinstance(c.func, ast.Name) and c.func.id == "AWQPackedTensor":
                env = ctor_args(c)
                d, pk, ro = U(env.get("data")), U(env.get("packing")), U(env.get("reorder"))
                src = pk.rsplit("._packing", 1)[0] if pk.endswith("._packing") else None
                n += 1
                chk.require("C15.R8", f"{awq_mi.rel}:{c.lineno}", src is not None and ro == f"{src}._reorder", f"{m.name}: rebuilt with packing=`{pk}`, reorder=`{ro}`", f"AWQPackedTensor.{m.name}", "reconstruction carries flags", "a detached / moved packed tensor is unpacked with another packing or reorder flag")
    chk.floor("C15.R8", n, 1, "reconstruction sites")


def rewrap_ops(chk, awq_mi):
    """C15.R9: ops whose handler re-wraps with the operand's own class must keep the AWQ payload packed."""
    from ..registries import handlers
    repo = chk.repo
    ci = repo.cls("AWQPackedTensor")
    disp = ci.own("__torch_dispatch__")
    if disp is None:
        chk.unknown("C15.R9", f"{awq_mi.rel}:{ci.node.lineno}", "AWQPackedTensor.__torch_dispatch__ not found")
        return
    keep = set()
    for p in paths_of(disp):
        # a path keeps the payload packed when it returns something else than the generic fall-through `op(*unpacked args, **kwargs)`
        # (the re-wrapping itself may sit in a helper or a private method)
        if p.end[0] != "return" or p.end[1] is None or U(p.end[1]).startswith("op(*"):
            continue
        for c, tr, _ in p.conds:
            if not tr:
                continue
            for n in ast.walk(c):
                if isinstance(n, ast.Compare) and len(n.ops) == 1 and U(n.left) in ("op.overloadpacket", "op._overloadpacket"):
                    rhs = n.comparators[0]
                    elts = rhs.elts if isinstance(rhs, (ast.Tuple, ast.List, ast.Set)) else [rhs]
                    if isinstance(n.ops[0], (ast.Is, ast.Eq, ast.In)):
                        for e in elts:
                            t = U(e)
                            if t.startswith("torch.ops.aten."):
                                keep.add("aten." + t.split(".")[-1])
    chk.require("C15.R9", f"{awq_mi.rel}:{disp.lineno}", {"aten.detach", "aten._to_copy"} <= keep, f"AWQPackedTensor stays packed under {sorted(keep)}", "AWQPackedTensor.__torch_dispatch__", "packed under detach/_to_copy", "Parameter() / .to() of an optimised weight: the payload is unpacked and the constructor formats it again")
    n = 0
    for h in handlers(repo)["qbits"]:
        t = positional_params(h.fn)[1]
        for p in paths_of(h.fn):
            if p.end[0] != "return" or not isinstance(p.end[1], ast.Call):
                continue
            e = p.end[1]
            if U(e.func) not in (f"{t}.__class__", f"type({t})"):
                continue
            n += 1
            init = repo.method(repo.cls("QBitsTensor"), "__init__")[1]
            f = bind_call(init, e, skip_first=1)
            raw_payload = f is not None and U(f["data"]).startswith("op(") and f"{t}._data" in U(f["data"])
            bad_ops = sorted(o for o in h.ops if o not in keep)
            chk.require("C15.R9", f"{h.mi.rel}:{p.end[2]}", not (raw_payload and bad_ops), f"{h.name} rebuilds {U(e.func)}(...) from op({t}._data) for {h.ops}; ops under which the AWQ payload is not kept packed: {bad_ops}", h.name, f"rewrap under {bad_ops}",
                        f"{bad_ops[0].split('.')[-1] if bad_ops else 'op'}() of an optimised (AWQ) weight: the inner payload comes back unpacked, so AWQBitsTensor.__init__ transposes the scales and negates/scales the zero-points a second time")
    chk.floor("C15.R9", n, 1, "re-wrapping QBits handlers")


WIDE = ("torch.int16", "torch.int32", "torch.int64", "torch.short", "torch.int", "torch.long")


def widen_before_shift(chk, awq_mi):
    from ..core import canon_function
    n = 0
    for name in ("pack", "pack_v2"):
        fn0 = awq_mi.defs.get(name)
        if not isinstance(fn0, ast.FunctionDef):
            continue
        fn = canon_function(fn0)
        wide = set()

        def is_wide(e):
            if isinstance(e, ast.Name):
                return e.id in wide
            if isinstance(e, ast.Subscript):
                return is_wide(e.value)
            if isinstance(e, ast.Call) and isinstance(e.func, ast.Attribute):
                if e.func.attr in ("to", "type") and any(U(a) in WIDE for a in e.args) or any(k.arg == "dtype" and U(k.value) in WIDE for k in e.keywords):
                    return True
                if e.func.attr in ("int", "long", "short"):
                    return True
                if e.func.attr in ("contiguous", "reshape", "view", "permute", "t", "clone") :
                    return is_wide(e.func.value)
                if U(e.func) in ("torch.zeros", "torch.empty", "torch.ones", "torch.full"):
                    return any(k.arg == "dtype" and U(k.value) in WIDE for k in e.keywords)
            if isinstance(e, ast.BinOp) and isinstance(e.op, (ast.LShift, ast.RShift)):
                return is_wide(e.left)  # the shift amount is a python int
            if isinstance(e, ast.BinOp) and isinstance(e.op, (ast.BitOr, ast.BitAnd, ast.Add)):
                return is_wide(e.left) and (is_wide(e.right) or isinstance(e.right, ast.Constant))
            return False

        narrow = []

        def scan(stmts):
            for st in stmts:
                for nd in ast.walk(st) if not isinstance(st, (ast.For, ast.If, ast.While)) else []:
                    if isinstance(nd, ast.BinOp) and isinstance(nd.op, ast.LShift) and not isinstance(nd.left, ast.Constant):
                        nonlocal_n[0] += 1
                        if not is_wide(nd.left):
                            narrow.append(nd)
                if isinstance(st, ast.Assign) and len(st.targets) == 1 and isinstance(st.targets[0], ast.Name):
                    if is_wide(st.value):
                        wide.add(st.targets[0].id)
                    else:
                        wide.discard(st.targets[0].id)
                if isinstance(st, (ast.For, ast.While)):
                    scan(st.body)
                elif isinstance(st, ast.If):
                    scan(st.body)
                    scan(st.orelse)

        nonlocal_n = [0]
        scan(fn.body)
        n += nonlocal_n[0]
        chk.require("C15.R11", f"{awq_mi.rel}:{fn0.lineno}", not narrow, f"{name}: {nonlocal_n[0]} left shift(s), all on values widened to 16 bits or more ({[U(x)[:40] for x in narrow]})", name, "shift in the input dtype",
                    "4-bit codes held in an int8 tensor (what the library's own v1 unpack returns) with a code >= 8 in a shifted lane: the lane turns negative, sign-extends when widened and overwrites the neighbouring lanes")
    chk.floor("C15.R11", n, 2, "left shifts in the AWQ packers")


def pure_layout(chk, awq_mi):
    from ..effects import EffectGraph
    g = EffectGraph(chk.repo)
    n = 0
    for name in ("pack", "unpack", "pack_v2", "unpack_v2", "reverse_awq_order"):
        fn = awq_mi.defs.get(name)
        if not isinstance(fn, ast.FunctionDef) or id(fn) not in g.fns:
            continue
        n += 1
        root = g.info(fn)
        writes = [(e, f) for e, f, chain in g.external_effects(root, set()) if any(r.startswith("global:") for r in e.roots)]
        reads_state = []
        for f in g.reachable(root):
            for nd in ast.walk(f.fn):
                if isinstance(nd, ast.Name) and isinstance(nd.ctx, ast.Load):
                    v = f.mi.defs.get(nd.id)
                    if isinstance(v, (ast.Dict,)) or (isinstance(v, ast.Call) and U(v.func) in ("dict", "list", "set", "defaultdict", "OrderedDict")) or (isinstance(v, ast.List) and not v.elts):
                        reads_state.append(nd.id)
        bad = sorted({e.text for e, _ in writes} | set(reads_state))
        chk.require("C15.R12", f"{awq_mi.rel}:{fn.lineno}", not bad, f"{name}: no module-level mutable state involved ({bad})", name, "layout function uses module-level state",
                    "a sequence of calls: unpacking a matrix after a narrower one was unpacked on the same device returns the narrower index (a (8,128) matrix comes back as (8,64))")
    chk.floor("C15.R12", n, 4, "AWQ layout functions checked for purity")


def packed_closed(chk, awq_mi):
    """C15.R15: every constructor call AWQPackedTensor(data, packing, reorder, size, stride) outside `pack` takes its data from `<t>._data` through the
    dispatched op alone (a whole copy), and its other fields from the same tensor."""
    repo = chk.repo
    ci = repo.cls("AWQPackedTensor")
    init = repo.method(ci, "__init__")[1]
    WHOLE = {"torch.ops.aten.detach", "torch.ops.aten.clone", "torch.ops.aten._to_copy", "torch.ops.aten.to", "torch.ops.aten.alias"}
    from .c06 import _served_ops
    served = _served_ops(ci)
    extra = sorted(served - WHOLE)
    chk.require("C15.R15", f"{ci.mod.rel}:{ci.own('__torch_dispatch__').lineno}", not extra, f"AWQPackedTensor.__torch_dispatch__ keeps the packed form for whole copies only (it serves {sorted(served)})", "AWQPackedTensor.__torch_dispatch__",
                f"packed form kept under {','.join(x.split('.')[-1] for x in extra)}", "a v2-packed weight sharded by columns on a 32-column boundary (packed[:, 32:96]): the result is not the packing of that sub-matrix - about 94% of its codes unpack wrong")
    n = 0

    def expand(d, fn, line):
        if isinstance(d, ast.Name):
            defs = [a_.value for a_ in ast.walk(fn) if isinstance(a_, ast.Assign) and a_.lineno < line and any(isinstance(t_, ast.Name) and t_.id == d.id for t_ in a_.targets)]
            if defs:
                return defs[-1]
        return d

    def whole_copy(d):
        """`op(<t>._data, ...)`: the dispatched op applied to the packed data of one tensor, nothing else -> the text of <t>, else None"""
        if isinstance(d, ast.Call) and U(d.func) == "op" and len(d.args) == 1 and U(d.args[0]).endswith("._data"):
            return U(d.args[0])[:-6]
        return None

    methods = {f.name: f for f in ci.node.body if isinstance(f, ast.FunctionDef)}
    for fn in [x for x in ast.walk(ci.mod.tree) if isinstance(x, ast.FunctionDef)]:  # the class and the module-level helpers of its module
        if fn.name in ("pack", "__tensor_unflatten__", "load_from_state_dict"):
            continue  # built from freshly packed data / from the serialized fields
        params = [a.arg for a in fn.args.args]
        for c in [x for x in ast.walk(fn) if isinstance(x, ast.Call) and U(x.func) in ("AWQPackedTensor", "cls", "type(self)", "self.__class__")]:
            b = bind_call(init, c, skip_first=1)
            if b is None or "data" not in b:
                continue
            n += 1
            d = expand(b["data"], fn, c.lineno)
            if isinstance(d, ast.Name) and d.id in params and params and params[0] == "self":
                # a re-wrapping helper `def _with_data(self, data)`: the other fields are its own, and every caller hands it a whole copy of the receiver's data
                own = all(U(b[k]) in (f"self._{k}", f"self.{k}()") for k in ("packing", "reorder", "size", "stride") if k in b)
                idx = params.index(d.id) - 1
                calls = [x for f2 in methods.values() for x in ast.walk(f2) if isinstance(x, ast.Call) and isinstance(x.func, ast.Attribute) and x.func.attr == fn.name and len(x.args) > idx]
                ok_calls = bool(calls) and all(whole_copy(expand(x.args[idx], next(f2 for f2 in methods.values() if any(y is x for y in ast.walk(f2))), x.lineno)) == U(x.func.value) for x in calls)
                chk.require("C15.R15", f"{ci.mod.rel}:{c.lineno}", own and ok_calls, f"{fn.name}: re-wraps the data it is handed with the receiver's own packing, reorder, size and stride, and each of its {len(calls)} caller(s) hands it a whole copy of the receiver's packed data",
                            f"AWQPackedTensor.{fn.name}", "packed data re-wrapped after indexing", "a v2-packed weight sharded by columns on a 32-column boundary (packed[:, 32:96]): the result is not the packing of that sub-matrix")
                continue
            src = whole_copy(d)
            same = src is not None and all(U(b[k]) in (f"{src}._{k}", f"{src}.{k}()") for k in ("packing", "reorder", "size", "stride") if k in b)
            chk.require("C15.R15", f"{ci.mod.rel}:{c.lineno}", same, f"{fn.name}: AWQPackedTensor(`{U(d)[:50]}`, ...) is a whole copy of the packed data of one tensor with that tensor's packing, reorder, size and stride",
                        f"AWQPackedTensor.{fn.name}", "packed data re-wrapped after indexing", "a v2-packed weight sharded by columns on a 32-column boundary (packed[:, 32:96]): the result is not the packing of that sub-matrix")
    chk.floor("C15.R15", n, 1, "AWQPackedTensor constructor sites outside pack / readers")


def shared_table_conventions(chk):
    """C15.R16: in each handler of the QBitsTensor table, every constructor call of the operand's own class (`t.__class__(...)`, `type(t)(...)`) receives
    `op(t._scale)` / `op(t._zeropoint)` (or the fields themselves); an expression that computes with them is accepted only under `type(t) is QBitsTensor`
    or after `t.qbits_tensor()`."""
    from ..registries import handlers
    repo = chk.repo
    qb = repo.cls("QBitsTensor")
    init = qb.own("__init__")
    n = 0
    for h in handlers(repo)["qbits"]:
        for p in paths_of(h.fn):
            if p.end[0] != "return" or p.end[1] is None:
                continue
            for c in [x for x in ast.walk(p.end[1]) if isinstance(x, ast.Call)]:
                f_ = c.func
                dyn = (isinstance(f_, ast.Attribute) and f_.attr == "__class__") or (isinstance(f_, ast.Call) and U(f_.func) == "type" and len(f_.args) == 1)
                if not dyn or len(c.args) + len(c.keywords) < 8:
                    continue
                b = bind_call(init, c, skip_first=1)
                if b is None:
                    continue
                n += 1
                owner = U(f_.value) if isinstance(f_, ast.Attribute) else U(f_.args[0])
                plain = p.holds(f"type({owner}) is QBitsTensor") is True or p.holds(f"type({owner}) == QBitsTensor") is True or p.holds(f"type({owner}) != QBitsTensor") is False or ".qbits_tensor()" in owner
                for fld in ("scale", "zeropoint"):
                    v = b.get(fld)
                    t_ = U(v) if v is not None else ""
                    through = t_ in (f"{owner}._{fld}", f"op({owner}._{fld})") or (isinstance(v, ast.Call) and U(v.func) == "op" and v.args and U(v.args[0]) == f"{owner}._{fld}" and not any(isinstance(x, ast.BinOp) for x in ast.walk(v)))
                    chk.require("C15.R16", f"{h.mi.rel}:{p.end[2]}", through or plain, f"{h.name}: `{owner}.__class__(..., {fld}={t_[:40]})` hands the {fld} over unchanged (or the operand is known to be a plain QBitsTensor: {plain})", h.name,
                                f"{fld} computed in a handler shared with the optimised subclass", "an AWQBitsTensor multiplied by a positive scalar: its zero-point is stored as -(zero-point x scale) and is not rescaled, so the product dequantizes to c*scale*code - scale*zp")
    chk.floor("C15.R16", n, 1, "own-class constructor calls in the QBitsTensor table")
