"""C03 - scale selection is non-saturating, full-range and local to its axis/group (structural clauses)."""
import ast

from .. import scales
from ..core import strip_noop_calls, AnalysisError, U, bind_call, fold_int, inline, path_facts, paths_of, positional_params
from ..registries import DTYPE_RANGE, qtype_table

TITLE = "Scale selection is non-saturating, full-range and local to its axis/group"

RULES = {
    "C03.R1": "reduction dims: for every range function, the dim of amax/amin folded for ndim 1..4 x axis {0,-1} is range(ndim) minus the kept axis; keepdim=True; axis None reduces everything; a range taken over a flattened / reshaped view is evaluated in the shape domain (which dims of the base each dim of the result spans): extent 1 everywhere but the kept axis, every other dim folded",
    "C03.R8": "calibrated scales have the dtype of the source: nothing on the way from the measured tensor to the scale buffer converts to a fixed dtype (float(), to(torch.float32), dtype=...) without converting back to the dtype of a tensor",
    "C03.R7": "calibrated activation scales: the calibration hooks measure the module's float input and raw output with absmax_scale(x, module.activation_qtype) (the rules C12.R3/R4), so the divisor is the maximum of the qtype in force",
    "C03.R2": "symmetric ranges reduce |base|; affine ranges take amin and amax over the same dims of the same (grouped) tensor",
    "C03.R3": "divisor = clamp bound: the symmetric scale divides by the maximum of the storage range of every qtype that can reach it; the affine scale divides by 2**bits - 1",
    "C03.R4": "dtype: both optimizer wrappers keep the post-condition scale.dtype == base.dtype; no cast to a fixed float dtype in the scale term",
    "C03.R5": "grouping agreement: the affine optimizer wrapper and the affine quantizer group under the same condition with the same (axis, group_size); quantize_weight passes identical values to both",
    "C03.R6": "an axis of size 1 is rewritten to per-tensor before the optimizer is called",
}


def fold_check(chk, rule, site, qn, dim_expr, base_name, what, use_axis_to_dim=False, path=None):
    bad = []
    n = 0
    for ndim in (1, 2, 3, 4):
        for axis in (0, -1):
            if ndim == 1:
                # per-axis quantization of a vector is rejected on the symmetric route (SymmetricQuantizer raises ValueError for 1-D bases);
                # the affine route accepts it: the reduction list is then empty, and torch reads `dim=[]` as EVERY dimension
                if what == "affine" and axis == 0:
                    try:
                        got1 = scales.fold_dims(dim_expr, 1, 0, base_name)
                    except AnalysisError:
                        got1 = None
                    if got1 == []:
                        chk.bad(rule, site, qn, "rank-1 reduction over dim=[]", f"{qn}: for a rank-1 base the reduction dims evaluate to [] - which amin / amax read as all dimensions: one range for the whole vector instead of one per element of the kept axis",
                                "quantize_weight(tensor([.5, 1., 2., 4., 1.2, 100.]), qint4, axis=0): a single scale; changing the last element changes the codes of all the others (locality)")
                continue
            # only the (ndim, axis) instances that can take this path
            feasible = True
            for c, truth, _ in (path.conds if path is not None else []):
                try:
                    v = scales.fold_dims(c, ndim, axis, base_name)
                except (AnalysisError, Exception):
                    continue
                if isinstance(v, bool) and v != truth:
                    feasible = False
            if not feasible:
                continue
            try:
                if use_axis_to_dim:
                    got = scales.axis_to_dim_eval(chk.repo, ndim, axis)
                else:
                    got = scales.fold_dims(dim_expr, ndim, axis, base_name)
            except AnalysisError as e:
                chk.unknown(rule, site, f"{qn}: {e}")
                return
            want = [d for d in range(ndim) if d != axis % ndim]
            n += 1
            if isinstance(got, int) and not isinstance(got, bool):
                got = [got]  # dim=<int>: a single reduced dimension
            if not isinstance(got, (list, tuple)) or not all(isinstance(d, int) and not isinstance(d, bool) for d in got):
                chk.unknown(rule, site, f"{qn}: reduction dims evaluate to `{got}` for ndim={ndim}, axis={axis}")
                return
            if sorted(d % ndim for d in got) != want or len(got) != len(want):
                bad.append((ndim, axis, got, want))
    if bad:
        ndim, axis, got, want = bad[0]
        chk.bad(rule, site, qn, f"{what} reduction dims", f"{qn}: for ndim={ndim}, axis={axis} the reduction runs over dims {got}, expected {want} ({len(bad)} of {n} instances wrong)",
                f"a rank-{ndim} tensor quantized along axis {axis}: the scale is reduced over the kept axis (rows share a range: invisible on i.i.d. noise, wrong for rows of different magnitude)")
    else:
        chk.ok(rule, site, f"{qn}: reduction dims = all but the kept axis for {n} (ndim, axis) instances")


def shape_route(chk, site, qn, numerator, base_name, path) -> bool:
    """The per-axis range is not a bare amax call (a reduction over a flattened / reshaped view): decide C03.R1 / R2 in the shape domain
    (scales.shape_eval) for every (ndim, axis) instance that can take this path. False = outside the domain, the caller says undecided."""
    results = []
    for ndim in (2, 3, 4):
        for axis in (0, -1):
            feasible = True
            for c, truth, _ in (path.conds if path is not None else []):
                try:
                    v = scales.fold_dims(c, ndim, axis, base_name)
                except Exception:
                    continue
                if isinstance(v, bool) and v != truth:
                    feasible = False
            if not feasible:
                continue
            try:
                results.append((ndim, axis, scales.shape_eval(numerator, ndim, axis, base_name)))
            except AnalysisError:
                return False
    if not results:
        return False
    wrong = []
    for ndim, axis, r in results:
        k = axis % ndim
        want = [frozenset({k}) if i == k else frozenset() for i in range(ndim)]
        if r.groups != want or r.reduced != frozenset(range(ndim)) - {k}:
            wrong.append((ndim, axis, [sorted(g) for g in r.groups]))
    raw = [(n, a) for n, a, r in results if r.raw_reduced]
    chk.require("C03.R2", site, not raw, f"{qn}: reduces |{base_name}| (shape domain, {len(results)} (ndim, axis) instances)", qn, "abs before max", "a row whose largest magnitude is negative saturates")
    if wrong:
        ndim, axis, got = wrong[0]
        chk.bad("C03.R1", site, qn, "symmetric reduction dims", f"{qn}: for ndim={ndim}, axis={axis} the dims of the range span the base dims {got}: expected extent 1 everywhere but the kept axis, which keeps its own extent and nothing else ({len(wrong)} of {len(results)} instances wrong)",
                f"a rank-{ndim} tensor quantized along axis {axis}: the scale has more than one value per index of the kept axis, or rows share a range")
    else:
        chk.ok("C03.R1", site, f"{qn}: shape domain: the range keeps exactly the kept axis and folds every other dim for {len(results)} (ndim, axis) instances")
    return True


def _shape_domain_examples():
    """The shape domain is only consulted when a range is not a bare amax call - never on a healthy tree - so it is exercised on built-in
    examples on every run: it must tell the reduction that keeps dim 2 of a rank-4 base from the one that folds it."""
    def groups(src, ndim, axis):
        return [sorted(g) for g in scales.shape_eval(ast.parse(src, mode="eval").body, ndim, axis).groups]
    v = (groups("base.abs().flatten(0, 1).amax(dim=0, keepdim=True).unsqueeze(0)", 4, -1),
         groups("base.abs().flatten(0, -2).amax(dim=0, keepdim=True).reshape((1,) * (base.ndim - 1) + (-1,))", 4, -1),
         groups("torch.amax(torch.abs(base).flatten(1), dim=1).reshape((-1,) + (1,) * (base.ndim - 1))", 3, 0))
    if v != ([[], [], [2], [3]], [[], [], [], [3]], [[0], [], []]):
        raise AnalysisError(f"shape domain misjudges its built-in examples: {v}")


def run(chk):
    _shape_domain_examples()
    for k, v in RULES.items():
        chk.rule(k, v)
    repo = chk.repo
    table = qtype_table(repo)
    mi_q, qw = repo.func("quantize_weight")
    t, qt, ax, gs, opt = positional_params(qw)[:5]
    # ---------------- symmetric default optimizer
    sym_default = mi_q.defs.get("default_symmetric_optimizer")
    aff_default = mi_q.defs.get("default_affine_optimizer")
    if not (isinstance(sym_default, ast.Call) and isinstance(aff_default, ast.Call)):
        raise AnalysisError("default optimizers not found in the module of quantize_weight")
    sc = repo.cls(U(sym_default.func), mi_q)
    oci, fn = repo.method(sc, "optimize")
    b, bits, axis = positional_params(fn)[1:4]
    qn = f"{oci.name}.optimize"
    n = 0
    for p in paths_of(fn):
        if p.end[0] != "return":
            continue
        n += 1
        e = p.end[1]
        site = f"{oci.mod.rel}:{p.end[2]}"
        f = path_facts(p)
        e, floors = scales.peel_floor(e)
        if floors:
            chk.bad("C03.R3", site, qn, "scale has a lower bound", f"{qn}: the scale is floored ({floors}): for a row whose absmax is below qmax x floor the scale is larger than absmax/qmax", "a row (or tensor) of very small magnitude: the codes use a fraction of the range")
        if not (isinstance(e, ast.BinOp) and isinstance(e.op, ast.Div)):
            chk.bad("C03.R3", site, qn, "scale is a quotient", f"{qn} returns `{U(e)[:70]}`, not range / qmax", "any tensor")
            continue
        if scales.alternative_route(p, e.left):
            chk.unknown("C03.R2", site, f"{qn}: the range `{U(e.left)[:50]}` comes from an alternative route on the path [{' & '.join(p.cond_texts())[:60]}]: not followed")
            continue
        r = scales.reduction(e.left)
        if r is None:
            if f.get(f"{axis} is None") is True or not shape_route(chk, site, qn, e.left, b, p):
                chk.unknown("C03.R2", site, f"{qn}: numerator `{U(e.left)[:60]}` is not a max/amax reduction")
            continue
        chk.require("C03.R2", site, r.n_abs >= 1 and r.source == b, f"{qn}: reduces |{b}| (abs x{r.n_abs} of `{r.source}`)", qn, "abs before max", "a row whose largest magnitude is negative saturates")
        if f.get(f"{axis} is None") is True:
            chk.require("C03.R1", site, r.dim is None, f"{qn}: axis None reduces over everything", qn, "per-tensor reduction", "per-tensor scale smaller than the global maximum: saturation")
        else:
            chk.require("C03.R1", site, r.keepdim == "True", f"{qn}: keepdim=True", qn, "keepdim", "the scale loses its broadcastable shape")
            if r.dim is None:
                chk.bad("C03.R1", site, qn, "per-axis reduction without dim", f"{qn}: per-axis path reduces over everything", "per-axis weights get one scale: rows of small magnitude lose precision")
            else:
                fold_check(chk, "C03.R1", site, qn, r.dim, b, "symmetric", path=p)
        # divisor vs clamp bound for every 8-bit qtype
        for name, rec in sorted(table.items()):
            if rec["bits"] != 8 or name == "qfloat8":
                continue
            q = fold_int(e.right, {bits: rec["bits"]})
            want = DTYPE_RANGE[rec["dtype"]][1]
            fam = "float8" if rec["is_floating_point"] else "int8"
            if q is None:
                chk.unknown("C03.R3", site, f"{qn}: divisor `{U(e.right)}` does not fold for bits={rec['bits']}")
            elif q == want:
                chk.ok("C03.R3", site, f"{qn}: {name}: divisor folds to {q} = storage maximum")
            else:
                chk.bad("C03.R3", site, qn, f"divisor for {fam} qtypes", f"{qn}: for {name} the scale divides by {q} (from bits={rec['bits']}) but the quantizer clamps to +/-{want}: the scale is {want / q:.2f}x larger than absmax/qmax",
                        f"{name} weights: codes only span +/-{q} of +/-{want}: the full range of the type is not used (coarser than necessary)")
    chk.floor("C03.R1", n, 2, "symmetric optimizer return paths")
    # ---------------- affine default optimizer
    ac = repo.cls(U(aff_default.func), mi_q)
    aci, afn = repo.method(ac, "optimize")
    ab, abits, aaxis = positional_params(afn)[1:4]
    aqn = f"{aci.name}.optimize"
    for p in paths_of(afn):
        if p.end[0] != "return":
            continue
        e = p.end[1]
        site = f"{aci.mod.rel}:{p.end[2]}"
        if isinstance(e, ast.Tuple) and len(e.elts) == 2:
            sc0, floors = scales.peel_floor(e.elts[0])
            if floors:
                chk.bad("C03.R3", site, aqn, "scale has a lower bound", f"{aqn}: the affine scale is floored ({floors}): for a group whose range is below (2**bits - 1) x floor the scale is larger than (hi - lo)/(2**bits - 1)", "half-precision weights with small-range groups")
                e = ast.Tuple(elts=[sc0, e.elts[1]], ctx=ast.Load())
        if not (isinstance(e, ast.Tuple) and len(e.elts) == 2 and isinstance(e.elts[0], ast.BinOp) and isinstance(e.elts[0].left, ast.BinOp)):
            chk.unknown("C03.R2", site, f"{aqn}: result shape not recognised")
            continue
        rmax, rmin = e.elts[0].left.left, e.elts[0].left.right
        rs = []
        for term, red in ((rmin, "amin"), (rmax, "amax")):
            tt = term
            for _ in range(2):
                m_ = None
                if isinstance(tt, ast.Call) and isinstance(tt.func, ast.Attribute) and tt.func.attr in ("clamp", "clip", "minimum", "maximum"):
                    tt = tt.args[0] if U(tt.func.value) == "torch" else tt.func.value
            r = scales.reduction(tt)
            rs.append(r)
            if r is None or r.reduce != red:
                chk.unknown("C03.R2", site, f"{aqn}: `{U(term)[:50]}` is not an {red} reduction")
        if all(rs):
            same = U(rs[0].dim) == U(rs[1].dim) and rs[0].source == rs[1].source == ab and rs[0].n_abs == rs[1].n_abs == 0
            chk.require("C03.R2", site, same, f"{aqn}: amin and amax over the same dims of `{ab}`", aqn, "amin/amax agree", "groups: minimum and maximum taken over different elements")
            chk.require("C03.R1", site, rs[0].keepdim == "True" and rs[1].keepdim == "True", f"{aqn}: keepdim=True", aqn, "keepdim", "scale shape")
            if rs[0].dim is not None:
                fold_check(chk, "C03.R1", site, aqn, rs[0].dim, ab, "affine", path=p)
        span = e.elts[0].right
        vals = {nb: fold_int(span, {abits: nb}) for nb in (2, 4)}
        chk.require("C03.R3", site, all(vals[nb] == 2 ** nb - 1 for nb in (2, 4)), f"{aqn}: divides the range by `{U(span)[:40]}` = 2**bits - 1 ({vals}) = the clamp span of the affine quantizer", aqn, "affine divisor", "int2/int4 weights: the step is not (hi - lo)/(2**bits - 1)")
    # ---------------- absmax_scale (activations / calibration)
    mi_a, am = repo.func("absmax_scale")
    base_a, qt_a, axis_a = positional_params(am)[:3]
    for p in paths_of(am):
        if p.end[0] != "return":
            continue
        e = p.end[1]
        site = f"{mi_a.rel}:{p.end[2]}"
        e, floors = scales.peel_floor(e)
        if floors:
            chk.bad("C03.R3", site, "absmax_scale", "scale has a lower bound", f"absmax_scale: the scale is floored ({floors}): for a tensor whose absmax is below qmax x floor the scale is larger than absmax/qmax", "activations (or a row) of very small magnitude, e.g. absmax < 1.5e-5 in float32 with an eps floor: the codes use a fraction of the range")
        if not (isinstance(e, ast.BinOp) and isinstance(e.op, ast.Div)):
            chk.bad("C03.R3", site, "absmax_scale", "scale is a quotient", f"absmax_scale returns `{U(e)[:70]}`, not range / qmax", "any tensor")
            continue
        if scales.alternative_route(p, e.left):
            chk.unknown("C03.R1", site, f"absmax_scale: the range `{U(e.left)[:50]}` comes from an alternative route on the path [{' & '.join(p.cond_texts())[:60]}]: not followed")
            continue
        r = scales.reduction(e.left)
        f = path_facts(p)
        if r is None:
            chk.unknown("C03.R1", site, "absmax_scale numerator not a reduction")
            continue
        chk.require("C03.R2", site, r.n_abs >= 1, "absmax_scale reduces |base|", "absmax_scale", "abs before max", "negative extremes saturate")
        if f.get(f"{axis_a} is None") is False and r.dim is not None:
            uses_helper = U(r.dim) == f"axis_to_dim({U(ast.Name(id=base_a))}, {axis_a})" or "axis_to_dim(" in U(r.dim)
            if uses_helper:
                fold_check(chk, "C03.R1", site, "absmax_scale/axis_to_dim", r.dim, base_a, "absmax", use_axis_to_dim=True)
            else:
                fold_check(chk, "C03.R1", site, "absmax_scale", r.dim, base_a, "absmax", path=p)
            chk.require("C03.R1", site, r.keepdim == "True", "absmax_scale: keepdim=True", "absmax_scale", "keepdim", "scale shape")
        q = scales.storage_max_of(inline(repo, mi_a, e.right))
        chk.require("C03.R3", site, q == f"{qt_a}.dtype" and isinstance(e.right, ast.Attribute) and e.right.attr == "max", f"absmax_scale divides by the storage maximum of {qt_a}.dtype", "absmax_scale", "absmax divisor", "activations of a float8 qtype: range not used / saturation")
    # ---------------- R4 wrappers
    for cname in ("SymmetricOptimizer", "AffineOptimizer"):
        ci = repo.cls(cname)
        call = ci.own("__call__")
        bname = positional_params(call)[1]
        rets = [p for p in paths_of(call) if p.end[0] == "return"]
        # post-condition on every return path (the assert may sit in a private helper: the path engine inlines it)
        ok_post, asserts = bool(rets), []
        for p in rets:
            e = p.end[1]
            sc_e = e.elts[0] if isinstance(e, ast.Tuple) and e.elts else e
            here = [ef[1] for ef in p.effects if ef[0] == "assert"]
            asserts = [U(a) for a in here]
            found = False
            for a in here:
                if isinstance(a, ast.Compare) and len(a.ops) == 1 and isinstance(a.ops[0], ast.Eq):
                    l, r = U(a.left), U(a.comparators[0])
                    for x, y in ((l, r), (r, l)):
                        if x == f"{U(sc_e)}.dtype" and y.endswith(".dtype") and bname in y:
                            found = True
            ok_post = ok_post and found
        chk.require("C03.R4", f"{ci.mod.rel}:{call.lineno}", ok_post, f"{cname}.__call__ asserts scale.dtype == base.dtype on every return path ({asserts})", f"{cname}.__call__", "scale dtype post-condition", "float16 weights: a float32 scale makes the quantized tensor report another dtype")
        for p in rets:
            e = p.end[1]
            txt = U(e)
            grouped = path_facts(p).get("group_size is None") is False
            bexpr = f"group({bname}, axis, group_size)" if grouped else bname
            want = [f"self.optimize({bexpr}, bits, axis)"]
            if cname == "AffineOptimizer":
                # the pair returned by optimize, untouched: anything applied to it on the way out (a clamp of the zero-point, a floor
                # of the scale) changes the range the optimizer chose
                ok = isinstance(e, ast.Tuple) and [U(x) for x in e.elts] == [f"{want[0]}[0]", f"{want[0]}[1]"]
            else:
                ok = txt == want[0]
            chk.require("C03.R5" if cname == "AffineOptimizer" else "C03.R4", f"{ci.mod.rel}:{p.end[2]}", ok, f"{cname}.__call__ [{'grouped' if grouped else 'plain'}] returns optimize({bexpr}, bits, axis): `{txt[:90]}`", f"{cname}.__call__", f"wrapper forwards base ({'grouped' if grouped else 'plain'})",
                        "grouped quantization: ranges are computed on the un-grouped tensor (one scale per row instead of per group), or the optimizer's scale / zero-point is altered on the way out (a clamped zero-point saturates one-sided groups)" if cname == "AffineOptimizer" else "any weight")
    for node in ast.walk(fn):
        if isinstance(node, ast.Call) and isinstance(node.func, ast.Attribute) and node.func.attr in ("to", "float", "half", "double", "type") and (node.func.attr != "to" or any("float" in U(a) for a in node.args)):
            chk.bad("C03.R4", f"{oci.mod.rel}:{node.lineno}", qn, "fixed dtype cast in scale", f"{qn}: `{U(node)[:50]}` casts to a fixed float dtype", "float16/bfloat16 weights")
    # ---------------- R5 quantize_weight passes identical (axis, group_size)
    for p in paths_of(qw):
        if p.end[0] != "return" or path_facts(p).get(f"{qt}.bits == 8") is not False:
            continue
        e = strip_noop_calls(p.end[1]) if p.end[1] is not None else None  # detach / clone / contiguous of the scale do not change what is quantized
        site = f"{mi_q.rel}:{p.end[2]}"
        ok = isinstance(e, ast.Call) and U(e.func) == "AffineQuantizer.apply" and len(e.args) == 6
        if ok:
            a = [U(x) for x in e.args]
            optcall = e.args[4].value if isinstance(e.args[4], ast.Subscript) else None
            ok = a[:4] == [t, qt, ax, gs] and isinstance(optcall, ast.Call) and [U(x) for x in optcall.args] == [t, f"{qt}.bits", ax, gs] and a[4].endswith("[0]") and a[5].endswith("[1]") and U(e.args[5].value) == U(optcall)
        chk.require("C03.R5", site, bool(ok), f"quantize_weight (low-bit): optimizer and quantizer receive the same tensor, axis and group size: `{U(e)[:120]}`", "quantize_weight", "optimizer/quantizer agreement", "int2/int4 weights: scales computed for other groups than the ones quantized")
    # grouping condition in the quantizer
    aq = repo.cls("AffineQuantizer").own("forward")
    from ..core import path_calls
    grp_calls = [U(n) for n in path_calls(aq, "group")]
    ao = repo.cls("AffineOptimizer").own("__call__")
    grp_calls2 = [U(n) for n in path_calls(ao, "group")]
    norm = lambda s_: s_.replace("axis=", "").replace("group_size=", "")
    if chk.pid == "C03":
        from ..report import AliasedCheck
        from . import c12
        c12.run(AliasedCheck(chk, {"C12.R3": "C03.R7", "C12.R4": "C03.R7"}))
        calibrated_scale_dtype(chk)
    grouping_condition(chk, "C03.R5")
    chk.require("C03.R5", f"{repo.cls('AffineQuantizer').mod.rel}:{aq.lineno}", len(grp_calls) == 1 and len(grp_calls2) == 1 and norm(grp_calls[0]) == norm(grp_calls2[0]), f"quantizer groups with `{grp_calls}`, optimizer wrapper with `{grp_calls2}`", "AffineQuantizer.forward", "same grouping call", "grouped weights: scale layout and code layout disagree")
    # ---------------- R6
    n6 = 0
    for p in paths_of(qw):
        f = path_facts(p)
        if p.end[0] == "return" and f.get(f"{qt}.bits == 8") is True and any(k.endswith(f"{t}.shape[{ax}] == 1") and v is True for k, v in f.items()):
            n6 += 1
            e = strip_noop_calls(p.end[1]) if p.end[1] is not None else None  # detach / clone / contiguous of the scale do not change what is quantized
            a = [U(x) for x in e.args] if isinstance(e, ast.Call) else []
            ok = len(a) == 4 and a[2] == "None" and a[3].endswith(", None)")
            chk.require("C03.R6", f"{mi_q.rel}:{p.end[2]}", ok, f"axis of size 1: optimizer and quantizer are called per-tensor ({a[2:]})", "quantize_weight", "size-1 axis rewrite", "a weight with a single output feature")
    chk.floor("C03.R6", n6, 1, "size-1 axis paths")
    # converse: a per-axis request is only turned into a per-tensor one when the axis has a single index
    for p in paths_of(qw):
        f = path_facts(p)
        e = p.end[1] if p.end[0] == "return" else None
        if e is None or f.get(f"{qt}.bits == 8") is not True or not (isinstance(e, ast.Call) and len(e.args) == 4):
            continue
        if U(e.args[2]) != "None":
            continue
        justified = f.get(f"{ax} is None") is True or any(k.endswith(f"{t}.shape[{ax}] == 1") and v is True for k, v in f.items())
        chk.require("C03.R6", f"{mi_q.rel}:{p.end[2]}", justified, f"quantize_weight quantizes per-tensor only when no axis is requested or the axis has one index ({' & '.join(p.cond_texts())[:120]})", "quantize_weight", "per-axis request turned per-tensor",
                    "a weight whose other dimensions have size 1, e.g. (N, 1) along axis 0 (Linear(in_features=1)) or a (C,1,1,1) depthwise kernel: one scale for all rows instead of one per row")
    from . import c04_layout
    c04_layout.group_ungroup(chk, "C03.R5")
    chk.assume("amax/amin with a dim list reduce exactly those dims; storage ranges of the dtypes (table)")


def grouping_condition(chk, rule):
    """The optimizer wrapper and the quantizer group the tensor exactly when a group size is given: on every accepting path,
    `group_size is None` <=> no group(...) call met.  (A fast path that skips the grouping on one side only - e.g. when the group
    spans the whole axis - makes scales and codes disagree in shape.)"""
    repo = chk.repo
    for cname, mname in (("AffineOptimizer", "__call__"), ("AffineQuantizer", "forward")):
        ci = repo.cls(cname)
        fn = ci.own(mname)
        qn = f"{cname}.{mname}"
        n = 0
        for p in paths_of(fn):
            if p.end[0] == "raise":
                continue
            grouped = False
            vals = [p.end[1]] + [x for ef in p.effects for x in ef if isinstance(x, ast.AST)] + list(p.env.values())
            for v in vals:
                if isinstance(v, ast.AST) and any(isinstance(n_, ast.Call) and U(n_.func) == "group" for n_ in ast.walk(v)):
                    grouped = True
            none = path_facts(p).get("group_size is None")
            n += 1
            ok = (none is True and not grouped) or (none is False and grouped)
            conds = " & ".join(p.cond_texts())[:140]
            chk.require(rule, f"{ci.mod.rel}:{p.end[2]}", ok, f"{qn} [{conds}]: group_size is None = {none}, tensor grouped = {grouped}", qn, "grouping applied iff a group size is given",
                        "a group size for which one side skips the grouping (e.g. a group spanning the whole axis of a rank-3/4 weight): scales of shape (N,1,1) meet codes of shape (N*G, g) - wrong values or a tensor that cannot be dequantized")
        chk.floor(rule, n, 2, f"{qn} accepting paths")


_FIXED_DTYPE_METHODS = {"float", "double", "half", "bfloat16"}


def _dtype_conversions(repo, mod, e, depth=0, seen=None):
    """Texts of the conversions to a FIXED dtype met in an expression and in the returns of the package functions it calls."""
    from ..core import paths_of as _paths
    seen = set() if seen is None else seen
    out = []
    # a conversion that sits inside an operand which is itself cast (back) to the dtype of a tensor - `codes.to(torch.int16).abs().amax().to(scale.dtype)` -
    # does not decide the dtype of the value: only conversions outside every such cast count
    shielded = set()
    for nd in ast.walk(e):
        if isinstance(nd, ast.Call) and isinstance(nd.func, ast.Attribute) and nd.func.attr in ("to", "type") and len(nd.args) == 1 and U(nd.args[0]).endswith(".dtype") and not U(nd.args[0]).startswith("torch."):
            for x in ast.walk(nd.func.value):
                shielded.add(id(x))
    for nd in ast.walk(e):
        if not isinstance(nd, ast.Call) or id(nd) in shielded:
            continue
        f = nd.func
        if isinstance(f, ast.Attribute) and f.attr in _FIXED_DTYPE_METHODS and not nd.args:
            out.append(U(nd)[-40:])
        elif isinstance(f, ast.Attribute) and f.attr in ("to", "type") and any(U(a).startswith("torch.") for a in nd.args):
            out.append(U(nd)[-40:])
        for k in nd.keywords:
            if k.arg == "dtype" and U(k.value).startswith("torch."):
                out.append(f"{U(f)}(dtype={U(k.value)})")
        if isinstance(f, ast.Name) and depth < 4:
            r = repo.resolve(mod, f.id)
            if r is not None and isinstance(r[1], ast.FunctionDef) and id(r[1]) not in seen:
                seen.add(id(r[1]))
                for p in _paths(r[1]):
                    if p.end[0] == "return" and p.end[1] is not None:
                        out += _dtype_conversions(repo, r[0], p.end[1], depth + 1, seen)
    return out


def calibrated_scale_dtype(chk):
    repo = chk.repo
    names = ("input_scale", "output_scale")
    n = 0
    ci = repo.cls("Calibration")
    for fname in ("calibrate_input", "calibrate_output"):
        fn = ci.own(fname)
        if fn is None:
            continue
        seen = set()
        for p in paths_of(fn):
            for ef in p.effects:
                if ef[0] == "store" and ef[2] in names and (ef[4], U(ef[3])) not in seen:
                    seen.add((ef[4], U(ef[3])))
                    n += 1
                    val = ef[3]
                    back = isinstance(val, ast.Call) and isinstance(val.func, ast.Attribute) and val.func.attr in ("to", "type") and val.args and U(val.args[0]).endswith(".dtype")
                    conv = _dtype_conversions(repo, ci.mod, val)
                    chk.require("C03.R8", f"{ci.mod.rel}:{ef[4]}", back or not conv, f"{fname}: `module.{ef[2]} = {U(val)[:60]}` keeps the dtype of the measured tensor (fixed-dtype conversions on the way: {sorted(set(conv))[:3]})", f"Calibration.{fname}", f"calibrated {ef[2]} converted to a fixed dtype",
                                "a float16 / bfloat16 model calibrated on two batches or more: the scale buffers become float32 and the module emits float32-typed quantized activations")
    chk.floor("C03.R8", n, 3, "stores of calibrated scales")
