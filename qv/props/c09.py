"""C09 - freeze() preserves outputs, is idempotent and compacts storage (structural clauses)."""
import ast

from ..core import AnalysisError, U, bind_call, path_facts, paths_of, positional_params
from ..registries import handlers, qmodules

TITLE = "freeze() preserves outputs bit-for-bit, is idempotent and compacts storage"

RULES = {
    "C09.R1": "freeze assigns self.weight = Parameter(self.qweight) iff qweight is not None and writes nothing else; module-level freeze visits every QModuleMixin of named_modules()",
    "C09.R2": "idempotence: qweight returns self.weight itself when it already is a quantized tensor",
    "C09.R3": "single source: the dynamic path (qforward) and freeze obtain the quantized weight only through self.qweight; quantize_weight is called nowhere else under nn/ and with the module's own configuration",
    "C09.R4": "packing typestate: QBitsTensor.__init__ stores a packed payload on every path; create() forwards all its arguments in order",
    "C09.R6": "lifecycle ops keep the tensor: the detach and _to_copy handlers (run by Parameter(), freeze and Module.to on a frozen weight) rebuild with the source's own qtype, axis, group size, size and stride, and pass payload / scale / zero-point through the op only",
    "C09.R7": "compact storage: the packer every frozen low-bit weight goes through stores ceil(rows x bits / 8) payload rows for every row count (rules C04.R2/R3), the detach / clone / move re-wraps of the packed payload keep bits, size and stride (the re-wrap clause of C04.R5: Parameter(), copy.deepcopy and Module.to run them on a frozen low-bit weight), and the 8-bit detach/move handlers that Parameter(), freeze and Module.to run keep payload and scale through the op only (rules of C05.R5)",
    "C09.R10": "what a twin exposes is what it computes with: until freeze() the `weight` attribute of a twin is the float tensor while its forward uses the quantized one, so a parent that reads a child's weight directly (nn.MultiheadAttention with out_proj, the fast path of TransformerEncoderLayer) computes with float weights before freeze and quantized ones after",
    "C09.R9": "a calibrated model can be copied: every value stored into the input_scale / output_scale buffers is detached from the graph it was computed in (a non-leaf tensor that requires grad makes copy.deepcopy of the model raise, and keeps the graph of the calibration batch alive)",
    "C09.R8": "copies keep behaving: a qtype is a value object (a dataclass that deepcopy duplicates), so qtypes are compared with == / in, never with `is` (identity holds for the library's singletons only until a frozen model is copied)",
    "C09.R5": "lifecycle ops: every class that can be a frozen weight has handlers for detach (Parameter), _to_copy (.to) and clone (deepcopy)",
}


def _first_arg(call: ast.Call, name: str):
    """the first parameter of a call, passed by position or by keyword"""
    if call.args:
        return call.args[0]
    for k in call.keywords:
        if k.arg == name:
            return k.value
    return ast.Constant(value=None)


def run(chk):
    for k, v in RULES.items():
        chk.rule(k, v)
    repo = chk.repo
    ci = repo.cls("QModuleMixin")
    mi = ci.mod
    fz = ci.own("freeze")
    n = 0
    for p in paths_of(fz):
        if p.end[0] == "raise":
            continue
        n += 1
        f = path_facts(p)
        stores = [ef for ef in p.effects if ef[0] in ("store", "substore", "augstore", "del")]
        others = [ef for ef in p.effects if ef[0] == "expr"]
        notnone = f.get("self.qweight is None")
        site = f"{mi.rel}:{p.end[2]}"
        already = f.get("self.frozen") is True or any(v is True and k.startswith("isinstance(self.weight, Q") for k, v in f.items())
        if already and not stores and not others and notnone is None:
            chk.ok("C09.R1", site, "freeze (already frozen): an early exit that writes nothing - freezing again changes nothing")
            continue
        if notnone is False:
            ok = len(stores) == 1 and stores[0][0] == "store" and U(stores[0][1]) == "self" and stores[0][2] == "weight" and isinstance(stores[0][3], ast.Call) and U(stores[0][3].func) == "torch.nn.Parameter" and U(_first_arg(stores[0][3], "data")) == "self.qweight"
            chk.require("C09.R1", site, ok and not others, f"freeze (weights quantized): self.weight = Parameter(self.qweight) and nothing else ({[U(s[3])[:60] if s[0]=='store' else s[0] for s in stores]})", "QModuleMixin.freeze", "freeze assignment", "freeze(): the stored weight is not the quantized weight the dynamic path computes")
        elif notnone is True:
            chk.require("C09.R1", site, not stores and not others, "freeze (weights not quantized): nothing is written", "QModuleMixin.freeze", "freeze no-op", "freeze() of a module that does not quantize its weights alters it")
        else:
            chk.bad("C09.R1", site, "QModuleMixin.freeze", "freeze not conditioned on qweight", "freeze path is not conditioned on `self.qweight is not None`", "a module without quantized weights: Parameter(None)")
    chk.floor("C09.R1", n, 2, "freeze paths")
    # module-level freeze
    mif, ff = repo.func("freeze")
    model = positional_params(ff)[0]
    src = U(ff)
    from ..core import loop_body_paths, strip_identity
    loops = [x for x in ff.body if isinstance(x, ast.For)]
    ok = len(loops) == 1 and U(strip_identity(loops[0].iter)) in (f"{model}.named_modules()", f"{model}.modules()")
    if ok:
        tgt = loops[0].target
        mvar = U(tgt.elts[-1]) if isinstance(tgt, ast.Tuple) else U(tgt)
        n_yes = 0
        for bp in loop_body_paths(ff, loops[0]):
            fb = path_facts(bp)
            is_q = None
            for k_, v_ in fb.items():
                if k_.startswith("isinstance(") and "QModuleMixin" in k_ and k_.count(",") <= 2:
                    is_q = v_
            calls = [U(ef[1]) for ef in bp.effects if ef[0] == "expr"]
            other = [ef for ef in bp.effects if ef[0] in ("store", "substore", "augstore", "del")]
            if is_q is True:
                n_yes += 1
                ok = ok and len(calls) == 1 and calls[0].endswith(".freeze()") and not other
                extra_conds = [k2 for k2 in fb if "QModuleMixin" not in k2]
                ok = ok and not extra_conds
            else:
                ok = ok and not calls and not other
        ok = ok and n_yes >= 1
    chk.require("C09.R1", f"{mif.rel}:{ff.lineno}", ok, "freeze(model) calls m.freeze() on every QModuleMixin of model.named_modules() and does nothing else", "freeze", "module-level walk", "a nested quantized module is left unfrozen")
    qweight_source(chk)
    packing(chk)
    lifecycle(chk)
    qtype_identity(chk)
    detached_scales(chk)
    exposed_weight(chk)
    from .c06 import moves_rule
    moves_rule(chk, r2="C09.R6", r4="C09.R6")
    from ..report import AliasedCheck
    from . import c04
    c04.run(AliasedCheck(chk, {"C04.R2": "C09.R7", "C04.R3": "C09.R7"}))

    # Of C04.R5 only the detach / clone / move re-wraps belong here: Parameter(), freeze-again, copy.deepcopy and Module.to run them on the
    # packed payload of a frozen low-bit weight (seed C09-51). What in-place ops do to a packed tensor is C04's own clause (F52).
    from ..report import TagFilteredAlias
    c04.run(TagFilteredAlias(chk, {"C04.R5": "C09.R7"}, {"dispatch re-wrap"}, " - run on the payload of a frozen int2/int4 weight by Parameter(), copy.deepcopy and Module.to"))
    if chk.pid == "C09":
        # "one scale (and zero-point) per output index or group": the optimizers reduce over every other dimension (C03.R1)
        from . import c03
        c03.run(AliasedCheck(chk, {"C03.R1": "C09.R7"}))
    from .. import handrules
    n7 = 0
    for r in handrules.analyse(repo, chk.tier):
        if r.pid == "C05" and r.rule in ("C05.R4", "C05.R5") and r.function in ("detach", "_to_copy", "clone"):
            n7 += 1
            if r.verdict == "ok":
                chk.ok("C09.R7", r.site, r.detail)
            elif r.verdict == "bad":
                chk.bad("C09.R7", r.site, r.function, r.tag, r.detail, (r.witness or "") + " - run by Parameter() in freeze(), by freeze-again and by Module.to on a frozen 8-bit weight")
            else:
                chk.unknown("C09.R7", r.site, r.detail)
    chk.floor("C09.R7", n7, 2, "8-bit lifecycle handler obligations")


def qweight_source(chk, r2="C09.R2", r3="C09.R3"):
    """The quantized weight every consumer sees is the quantization of the module's current weight (shared by C08)."""
    repo = chk.repo
    ci = repo.cls("QModuleMixin")
    mi = ci.mod
    # qweight
    qw = ci.own("qweight")
    is_prop = [U(d) for d in qw.decorator_list] == ["property"]
    chk.require(r2, f"{mi.rel}:{qw.lineno}", is_prop, f"qweight is a plain property (decorators {[U(d) for d in qw.decorator_list]})", "QModuleMixin.qweight", "qweight is a plain property", "an optimizer step after the first forward is not reflected (cached value)")
    n = 0
    for p in paths_of(qw):
        if p.end[0] != "return":
            continue
        n += 1
        f = path_facts(p)
        e = p.end[1]
        site = f"{mi.rel}:{p.end[2]}"
        stores = [ef for ef in p.effects if ef[0] in ("store", "substore", "augstore")]
        chk.require(r2, site, not stores, "qweight writes nothing", "QModuleMixin.qweight", "qweight store", "qweight caches or mutates module state")
        if f.get("self.weight_qtype is None") is True:
            chk.require(r2, site, U(e) == "None", "qweight is None when the module does not quantize its weights", "QModuleMixin.qweight", "qweight None", "a weight-less quantized module")
        elif f.get("isinstance(self.weight, QTensor)") is True:
            chk.require(r2, site, U(e) == "self.weight", f"frozen: qweight returns self.weight itself (`{U(e)}`)", "QModuleMixin.qweight", "frozen qweight", "freeze() twice, or a forward after freeze: the frozen weight is quantized again")
        else:
            mi_q, qwf = repo.func("quantize_weight")
            b = bind_call(qwf, e) if isinstance(e, ast.Call) and U(e.func) == "quantize_weight" else None
            want = {"t": "self.weight", "qtype": "self.weight_qtype", "axis": "0", "group_size": "self.weight_group_size", "optimizer": "self.optimizer"}
            ok = b is not None and {k: U(v) for k, v in b.items()} == want and f.get("isinstance(self.weight, QTensor)") is False
            chk.require(r3, site, ok, f"unfrozen: qweight = quantize_weight(self.weight, qtype=self.weight_qtype, axis=0, group_size=self.weight_group_size, optimizer=self.optimizer)", "QModuleMixin.qweight", "dynamic quantization arguments", "any unfrozen module: weights quantized with another qtype/axis/group/optimizer than configured")
    chk.floor(r2, n, 3, "qweight paths")
    # quantize_weight called nowhere else under nn/
    others = []
    for m in repo.modules.values():
        if "/nn/" in m.rel:
            for node in ast.walk(m.tree):
                if isinstance(node, ast.Call) and U(node.func) == "quantize_weight":
                    others.append(f"{m.rel}:{node.lineno}")
    chk.require(r3, mi.rel, len(others) == 1, f"quantize_weight is called at exactly one site under nn/ ({others})", "nn/", "second quantize_weight site", "freeze and the dynamic path quantize the weight differently")
    # users of the quantized weight go through self.qweight
    for tname, qci in sorted(qmodules(repo).items()):
        qf = qci.own("qforward")
        if qf is None:
            continue
        uses_w = [U(n) for n in ast.walk(qf) if isinstance(n, ast.Attribute) and U(n.value) == "self" and n.attr in ("weight", "qweight")]
        if tname == "torch.nn.LayerNorm":
            continue
        chk.require(r3, f"{qci.mod.rel}:{qf.lineno}", uses_w == ["self.qweight"], f"{qci.name}.qforward reads the weight only as self.qweight ({uses_w})", f"{qci.name}.qforward", "weight source", "dynamic and frozen outputs differ (float weight or a second quantization used)")


def packing(chk):
    repo = chk.repo
    ci = repo.cls("QBitsTensor")
    init = ci.own("__init__")
    n = 0
    for p in paths_of(init):
        if p.end[0] == "raise":
            continue
        n += 1
        f = path_facts(p)
        st = {ef[2]: ef[3] for ef in p.effects if ef[0] == "store" and U(ef[1]) == "self"}
        d = U(st.get("_data")) if st.get("_data") is not None else None
        raw = f.get("type(data) == torch.Tensor")
        site = f"{ci.mod.rel}:{p.end[2]}"
        if raw is True:
            chk.require("C09.R4", site, d == "PackedTensor.pack(data, qtype.bits)", f"QBitsTensor.__init__: a raw payload is packed with the qtype's bit width (`{d}`)", "QBitsTensor.__init__", "raw payload packed", "every low-bit tensor: the payload is stored unpacked (2-4x memory) or packed with the wrong width")
        elif raw is False:
            chk.require("C09.R4", site, d == "data", f"QBitsTensor.__init__: an already packed payload is stored as is (`{d}`)", "QBitsTensor.__init__", "packed payload kept", "deserialized / moved tensors")
        else:
            chk.bad("C09.R4", site, "QBitsTensor.__init__", "payload class not tested", "QBitsTensor.__init__ stores the payload without testing whether it is a raw tensor", "quantize_weight(..., qint4): raw uint8 codes stored unpacked")
        want = {"_scale": "scale", "_zeropoint": "zeropoint", "_group_size": "group_size"}
        ok = all(U(st.get(k)) == v for k, v in want.items() if st.get(k) is not None) and set(want) <= set(st)
        chk.require("C09.R4", site, ok, "QBitsTensor.__init__ stores scale, zeropoint and group_size from its arguments", "QBitsTensor.__init__", "fields stored", "any low-bit tensor")
    chk.floor("C09.R4", n, 2, "QBitsTensor.__init__ paths")
    create = ci.own("create")
    cparams = positional_params(create)
    for p in paths_of(create):
        if p.end[0] != "return":
            continue
        e = p.end[1]
        site = f"{ci.mod.rel}:{p.end[2]}"
        if isinstance(e, ast.Call) and U(e.func) in ("QBitsTensor", "AWQBitsTensor"):
            args = [U(a) for a in e.args]
            want = list(cparams)
            if U(e.func) == "AWQBitsTensor":
                # an optimised subclass receives the unpacked payload
                okd = args[5] in ("data", "data.unpack()")
                args2 = args[:5] + ["data"] + args[6:]
            else:
                okd, args2 = True, args
            chk.require("C09.R4", site, args2 == want and okd and not e.keywords, f"create forwards all arguments in order to {U(e.func)}", "QBitsTensor.create", f"create -> {U(e.func)} arguments", "any low-bit tensor: fields swapped or dropped")


def lifecycle(chk):
    repo = chk.repo
    hs = handlers(repo)
    tables = {"QBytesTensor": {o for h in hs["qbytes"] for o in h.ops}, "QBitsTensor": {o for h in hs["qbits"] for o in h.ops}}
    need = {"aten.detach": "torch.nn.Parameter(q) / q.detach()", "aten._to_copy": "model.to(device)", "aten.clone": "copy.deepcopy(model) (Parameter.__deepcopy__ clones the data)"}
    for cls, ops in tables.items():
        ci = repo.cls(cls)
        for op, use in need.items():
            ok = op in ops
            site = f"{ci.mod.rel}:{ci.node.lineno}"
            if ok:
                chk.ok("C09.R5", site, f"{cls} has a handler for {op} ({use})")
            else:
                chk.bad("C09.R5", site, cls, f"{cls} lacks {op}", f"{cls} has no handler for {op}: the fallback dequantizes, so {use} does not return a {cls}", f"{use} on a frozen model whose weights are {cls}")


def qtype_identity(chk):
    """C09.R8: no identity comparison between qtypes anywhere in the package."""
    from ..registries import qtype_table
    repo = chk.repo
    consts = set(qtype_table(repo))
    n = 0

    def is_qtype_expr(e):
        t = U(e)
        last = t.split(".")[-1]
        return last.lstrip("_").endswith("qtype") or t in consts

    for mi in repo.modules.values():
        if not mi.rel.startswith("optimum/"):
            continue
        for nd in ast.walk(mi.tree):
            if isinstance(nd, ast.Compare):
                n += 1
                operands = [nd.left] + list(nd.comparators)
                for op, a, b in zip(nd.ops, operands, operands[1:]):
                    if isinstance(op, (ast.Is, ast.IsNot)):
                        none = any(isinstance(x, ast.Constant) and x.value is None for x in (a, b))
                        if not none and (is_qtype_expr(a) or is_qtype_expr(b)) and not any(isinstance(x, ast.Call) and U(x.func) == "type" for x in (a, b)):
                            chk.bad("C09.R8", f"{mi.rel}:{nd.lineno}", "", f"qtype compared by identity: {U(nd)[:60]}", f"`{U(nd)[:80]}` compares qtypes by identity: copy.deepcopy of a (frozen) model duplicates the qtype objects, so the test is false in the copy although the qtypes are equal",
                                    "a frozen model with quantized activations, deep-copied, fed an already quantized input: the copy re-quantizes it with its own input scale and its outputs differ from the original's")
    chk.ok("C09.R8", "package", f"{n} comparisons scanned: no qtype is compared with `is`")


def detached_scales(chk):
    """C09.R9: stores into the activation-scale buffers are detached (x.detach(), or evaluated under torch.no_grad())."""
    repo = chk.repo
    names = ("input_scale", "output_scale")
    n = 0
    for mi in repo.modules.values():
        if not mi.rel.startswith("optimum/"):
            continue
        for fn in [x for x in ast.walk(mi.tree) if isinstance(x, ast.FunctionDef)]:
            if not any(isinstance(x, ast.Attribute) and x.attr in names for x in ast.walk(fn)):
                continue  # (an in-place `buffer.copy_(v)`, directly or through a setter procedure, reads the attribute: the path engine reports it as a store)
            decorated = any(U(d).startswith("torch.no_grad") for d in fn.decorator_list)
            seen = set()
            for p in paths_of(fn):
                nograd = decorated
                for ef in p.effects:
                    if ef[0] == "with" and U(ef[1]).startswith("torch.no_grad"):
                        nograd = True  # conservative the other way round would need block ends: the path engine records `with` entries only
                    if ef[0] == "store" and ef[2] in names and (ef[4], U(ef[3])) not in seen:
                        seen.add((ef[4], U(ef[3])))
                        n += 1
                        v = ef[3]
                        det = False
                        e = v
                        while isinstance(e, ast.Call) and isinstance(e.func, ast.Attribute) and not e.args and not e.keywords and e.func.attr in ("detach", "clone", "contiguous"):
                            if e.func.attr == "detach":
                                det = True
                            e = e.func.value
                        if isinstance(v, ast.Attribute) and v.attr == "data":
                            det = True
                        # a python number / a factory call carries no graph
                        factory = isinstance(v, ast.Call) and U(v.func) in ("torch.ones", "torch.zeros", "torch.tensor", "torch.full", "torch.empty")
                        chk.require("C09.R9", f"{mi.rel}:{ef[4]}", det or nograd or factory, f"{fn.name}: `{U(ef[1])}.{ef[2]} = {U(v)[:70]}` carries no autograd history (detached={det}, no_grad={nograd})", fn.name, f"{ef[2]} stored with its graph",
                                    "quantize(model, activations=qint8); with Calibration(): model(x) (no torch.no_grad()); copy.deepcopy(model) raises `Only Tensors created explicitly by the user support the deepcopy protocol`")
    chk.floor("C09.R9", n, 3, "stores into the activation-scale buffers")


def exposed_weight(chk):
    repo = chk.repo
    mixin = repo.cls("QModuleMixin")
    qw = mixin.own("qweight")
    dynamic = qw is not None and any(isinstance(x, ast.Call) and U(x.func) == "quantize_weight" for x in ast.walk(qw))
    # the float weight stays under `weight` until freeze() (freeze is the only writer: C09.R1)
    fz = mixin.own("freeze")
    writes_weight = fz is not None and any(isinstance(x, ast.Attribute) and x.attr == "weight" and isinstance(x.ctx, ast.Store) for x in ast.walk(fz))
    chk.require("C09.R10", f"{mixin.mod.rel}:{qw.lineno if qw else mixin.node.lineno}", not (dynamic and writes_weight), "an unfrozen twin exposes under `weight` the tensor its forward computes with", "QModuleMixin.qweight", "unfrozen twin exposes the float weight",
                "Sequential(attn=nn.MultiheadAttention(16, 2)) quantized to qint8: the parent reads out_proj.weight directly, so the outputs before and after freeze() differ by 2.2e-3 (TransformerEncoderLayer(32, 4, 64).eval(): 4.8e-3)")
