"""Layout obligations shared by C02 (group/ungroup), C04 (pack_weights / unpack) and C15 (AWQ)."""
import ast
from fractions import Fraction

from .. import layout_ast as la
from ..core import AnalysisError, U
from ..layout import LayoutError, Mono, input_tensor


def group_ungroup(chk, rule):
    """ungroup(group(x)) == x as layouts for axis 0 and -1; a group never mixes two indexes of the kept axis."""
    repo = chk.repo
    mg, g = repo.func("group")
    mu, ug = repo.func("ungroup")
    a, G, gs, b = Mono(1, "a"), Mono(1, "G"), Mono(1, "g"), Mono(1, "b")
    cases = [(0, [a, G * gs], "2-D, kept axis first"), (-1, [G * gs, a], "2-D, kept axis last"), (0, [a, b, G * gs], "3-D, kept axis first"), (-1, [b, G * gs, a], "3-D, kept axis last"),
             # degenerate extents: a dimension that equals the group size (early exits compare sizes)
             (0, [a, gs], "2-D, one group per row"), (-1, [gs, a], "2-D, one group per column"),
             (0, [a, b, gs], "3-D, last dim equal to the group size"), (-1, [b, gs, a], "3-D, middle dim equal to the group size")]
    n = 0
    for axis, shape, what in cases:
        site = f"{mg.rel}:{g.lineno}"
        x = input_tensor(shape)
        kept = 0 if axis == 0 else len(shape) - 1
        try:
            for ch_, grp in la.run_all(lambda ch: la.Interp(g, [x, axis, gs], {}, choices=ch)):
                # (a question about strides - `base.is_contiguous()` - has no answer in a layout: each answer is an instance, labelled here)
                lab = what + (f" [is_contiguous answers {ch_}]" if ch_ else "")
                if grp is None or not hasattr(grp, "dims"):
                    chk.unknown(rule, site, f"group ({lab}) did not produce a tensor")
                    continue
                sizes = grp.sizes()
                gdim = 1 if axis == 0 else 0
                ok_shape = len(sizes) == 2 and sizes[gdim] == gs
                chk.require(rule, site, ok_shape, f"group(axis={axis}; {lab}): shape {shape} -> {sizes} with the group size on dim {gdim}", "group", f"group shape axis {axis}", f"grouped quantization along axis {axis}: scales are evaluated over the wrong dimension")
                mixes = any(at.axis == kept for at in grp.dims[gdim])
                chk.require(rule, site, not mixes, f"group(axis={axis}; {lab}): the elements of one group all come from a single index of the kept axis", "group", f"group locality axis {axis}", f"grouped quantization along axis {axis}: a group mixes two rows / columns")
                und = la.Interp(ug, [grp, axis, tuple(shape)], {}).run()
                same = und is not None and hasattr(und, "key") and und.key() == x.key()
                chk.require(rule, f"{mu.rel}:{ug.lineno}", same, f"ungroup(group(x), axis={axis}) == x as a layout ({lab}, symbolic sizes)", "ungroup", f"ungroup inverts group axis {axis}", f"grouped tensors along axis {axis}: the dequantized tensor is a permutation of the original")
                n += 1
        except LayoutError as e:
            chk.bad(rule, site, "group/ungroup", f"layout error axis {axis}", f"group/ungroup ({what}): {e}", f"any admissible grouped shape along axis {axis}")
        except la.Unknown as e:
            chk.unknown(rule, site, f"group/ungroup ({what}): {e}")
    chk.floor(rule, n, 3, "group/ungroup layout instances")
    # the helpers receive whatever tensor the caller holds (transposed kernels, channels_last, slices): `view` on it requires a
    # compatible stride, `reshape` does not
    for mi_, fn_ in ((mg, g), (mu, ug)):
        tp = fn_.args.args[0].arg
        derived = {tp}
        for st in ast.walk(fn_):
            if isinstance(st, ast.Assign) and isinstance(st.value, ast.Call) and isinstance(st.value.func, ast.Attribute) and st.value.func.attr in ("permute", "transpose", "t") \
                    and any(isinstance(x, ast.Name) and x.id in derived for x in ast.walk(st.value.func.value)):
                derived |= {t_.id for t_ in st.targets if isinstance(t_, ast.Name)}
        views = [nd for nd in ast.walk(fn_) if isinstance(nd, ast.Call) and isinstance(nd.func, ast.Attribute) and nd.func.attr == "view" and isinstance(nd.func.value, ast.Name) and nd.func.value.id in derived]
        chk.require(rule, f"{mi_.rel}:{fn_.lineno}", not views, f"{fn_.name}: no `.view(...)` on the caller's (possibly non-contiguous) tensor or on a permuted one ({[U(v)[:40] for v in views]})", fn_.name, "view on a possibly non-contiguous tensor",
                    "a non-contiguous weight (w.t() of an (in, out) matrix, a channels_last kernel, w[:, ::2]): RuntimeError where the contiguous copy quantizes fine")
