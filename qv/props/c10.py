"""C10 - state_dict save/load round trips reproduce the quantized model (structural clauses)."""
import ast

from .. import serial
from ..core import AnalysisError, U, atoms, bind_call, path_facts, paths_of, positional_params
from ..registries import qmodules

TITLE = "state_dict save/load round trips reproduce the quantized model exactly"

RULES = {
    "C10.R1": "per-class writer/reader agreement: flatten/unflatten key sets, and load_from_state_dict pops exactly the inner tensors (recursing with '<name>.' for nested payloads)",
    "C10.R2": "module keys: _save_to_state_dict writes weight|weight.*, bias?, both scales and both qtype names; _load_from_state_dict pops both qtype names, rebuilds a flattened weight and delegates the rest",
    "C10.R3": "value domain: every value stored by the save paths is a plain-tensor expression or a string expression",
    "C10.R4": "literal round trip: for each meta key the writer's encoding and the reader's decoding agree (str <-> ast.literal_eval, qtype.name <-> qtypes[...])",
    "C10.R5": "safetensors: plain tensors go to tensors, everything else to metadata; loading merges both",
    "C10.R10": "a reloaded unfrozen model computes with the weights it was given: the quantized weight is derived from the current self.weight on every access (no cache survives the in-place copy of load_state_dict) - the weight-source rule shared with C08.R7 / C09.R2-R3",
    "C10.R14": "what was saved is what is loaded: nothing reachable from _load_from_state_dict writes the activation-scale buffers (the base class copies the saved values into them; a reset or a normalisation there replaces a calibrated scale)",
    "C10.R13": "a sub-byte weight rebuilt on load reports the geometry that was saved: no QBits constructor / factory call takes size or stride from the (grouped) payload (rule C06.R10 re-checked)",
    "C10.R12": "the activation-scale buffers of every target have the dtype and device of the module, whatever the configuration it was quantized with: load_state_dict copies the saved scales into them (rule C08.R9 re-checked)",
    "C10.R15": "(= C06.R12) the payload / scale fields of an existing quantized tensor are written in place, never rebound: what the state_dict saves for a frozen weight (and what calibration adopts from an activation) keeps the contiguity, ownership and dtype it was created with",
    "C10.R11": "state_dict tensors are the module's own: from_module copies weight and bias into the (contiguous, unshared) parameters the constructor allocated (C08.R4 re-checked), and every value written to the input_scale / output_scale buffers is a freshly computed tensor - never a reference to, or a view of, a tensor another object owns (safetensors refuses shared or non-contiguous tensors)",
    "C10.R6": "derived state: attributes that __init__ derives from weight_qtype are re-derived wherever weight_qtype is reassigned",
    "C10.R7": "requantize coverage: a kwarg that gates the creation of a registered module class is derived from the state_dict when re-quantizing",
    "C10.R8": "requantize order: device captured -> to(meta) -> quantize -> to_empty(cpu) -> load_state_dict -> to(device)",
    "C10.R9": "rebuilt weights are moved to the device of the module's current weight",
}

STR_OK = "string"
TENSOR_OK = "tensor"


TENSOR_ATTRS = None  # set by module_save from the class: {"weight", "bias"} + the names passed to register_buffer / register_parameter


def value_class(e: ast.AST):
    """tensor | string | None (unknown)"""
    if isinstance(e, ast.IfExp):
        a, b = value_class(e.body), value_class(e.orelse)
        return a if a == b else None
    if isinstance(e, ast.Constant) and isinstance(e.value, str):
        return STR_OK
    if isinstance(e, ast.Attribute) and e.attr == "name":
        return STR_OK
    if isinstance(e, ast.Call) and isinstance(e.func, ast.Name) and e.func.id == "str":
        return STR_OK
    if isinstance(e, ast.JoinedStr):
        return STR_OK
    if isinstance(e, ast.Attribute) and U(e.value) == "self":
        # the tensors a module holds are its parameters and registered buffers; any other attribute is configuration (a qtype, a group size, an optimizer)
        if TENSOR_ATTRS is not None and e.attr not in TENSOR_ATTRS:
            return "other"
        return TENSOR_OK
    if isinstance(e, ast.Call) and isinstance(e.func, ast.Attribute) and e.func.attr == "detach" and not e.args:
        return value_class(e.func.value) if isinstance(e.func.value, ast.Attribute) else (TENSOR_OK if isinstance(e.func.value, ast.Name) else None)
    return None


def run(chk):
    for k, v in RULES.items():
        chk.rule(k, v)
    repo = chk.repo
    classes = serial.flatten_classes(repo)
    chk.floor("C10.R1", len(classes), 5, "classes with __tensor_flatten__")
    for ci_, base_, line_, names_ in [x for x in serial.inherited_readers(repo) if not x[0].name.startswith("AWQ")]:  # AWQ tensors are converted back before they are serialized (C06.R5 / C15.R13 judge their flattened form)
        chk.bad("C10.R1", f"{ci_.mod.rel}:{line_}", ci_.name, "reader inherited from a base that rebuilds the base class", f"{ci_.name} has its own constructor but inherits __tensor_unflatten__ from {base_.name}, which builds {names_}: a flattened {ci_.name} comes back as a {base_.name} wrapping the subclass's fields",
                "any tensor of that class taken through __tensor_flatten__ / __tensor_unflatten__ (torch.compile, FakeTensor tracing, state_dict helpers)")
    on_path = {"QBytesTensor", "QBitsTensor", "PackedTensor"}
    for ci in classes:
        for suffix, verdict, line, tag, detail, witness in serial.analyse_class(repo, ci):
            site = f"{ci.mod.rel}:{line}"
            rule = {"R5": "C10.R1", "R5w": "C10.R1", "R4": "C10.R4", "R4note": "C10.R4"}[suffix]
            if verdict == "note":
                chk.ok("C10.R4", site, "NOTE (not on a state_dict path, conversion back to QBitsTensor precedes serialization): " + detail)
            elif verdict == "ok":
                chk.ok(rule, site, detail)
            elif verdict == "bad" and ci.name not in on_path and suffix == "R4":
                chk.ok("C10.R4", site, "NOTE (not on a state_dict path, conversion back to QBitsTensor precedes serialization; judged by C06.R5 / C15.R13): " + detail)
            elif verdict == "bad":
                chk.bad(rule, site, ci.name, tag, detail, witness)
            else:
                chk.unknown(rule, site, detail)
        for suffix, verdict, line, tag, detail, witness in serial.analyse_loader(repo, ci):
            site = f"{ci.mod.rel}:{line}"
            if verdict == "ok":
                chk.ok("C10.R1", site, detail)
            elif verdict == "bad":
                chk.bad("C10.R1", site, f"{ci.name}.load_from_state_dict", tag, detail, witness)
            else:
                chk.unknown("C10.R1", site, detail)
    qtensor_save(chk)
    frozen_predicate(chk, repo.cls("QModuleMixin"))
    module_save(chk)
    module_load(chk)
    safetensors(chk)
    derived_state(chk)
    from .c09 import qweight_source
    qweight_source(chk, r2="C10.R10", r3="C10.R10")
    requantize_rules(chk)
    owned_tensors(chk)
    chk.assume("torch.save/torch.load and safetensors store plain tensors and strings faithfully", "nn.Module.load_state_dict loads registered buffers and parameters by name")


def qtensor_save(chk):
    """QTensor.save_to_state_dict: leaves are written detached, nested subclasses recursed with prefix + name + '.'; meta values copied."""
    from ..core import loop_body_paths
    repo = chk.repo
    ci = repo.cls("QTensor")
    fn = ci.own("save_to_state_dict")
    site = f"{ci.mod.rel}:{fn.lineno}"
    qn = "QTensor.save_to_state_dict"
    # the function that flattens: the method itself, a closure of it, or a module-level helper it calls
    cands = [n for n in ast.walk(fn) if isinstance(n, ast.FunctionDef)]
    for n in ast.walk(fn):
        if isinstance(n, ast.Call) and isinstance(n.func, ast.Name):
            r = repo.resolve(ci.mod, n.func.id)
            if r is not None and isinstance(r[1], ast.FunctionDef):
                cands.append(r[1])
    hs_ = [c for c in cands if any(isinstance(x, ast.Call) and isinstance(x.func, ast.Attribute) and x.func.attr == "__tensor_flatten__" for x in ast.walk(c))]
    h = min(hs_, key=lambda c: sum(1 for _ in ast.walk(c))) if hs_ else None
    if h is None:
        chk.unknown("C10.R1", site, f"{qn}: the function calling __tensor_flatten__() was not found")
        return
    hp = positional_params(h)
    if h is fn:
        hp = hp[1:]
        t = "self"
        dest, prefix, keep = hp[:3]
    else:
        t, dest, prefix, keep = hp[:4]
    loops = [n for n in h.body if isinstance(n, ast.For)]
    inner_loop = meta_loop = None
    for lp in loops:
        paths = loop_body_paths(h, lp)
        it = None
        for pth in paths:
            pass
        # classify by the iterable after substitution of the flatten() unpacking
        from ..core import subst
        env = {}
        for st in h.body:
            if st is lp:
                break
            if isinstance(st, ast.Assign) and isinstance(st.targets[0], ast.Tuple) and isinstance(st.value, ast.Call) and isinstance(st.value.func, ast.Attribute) and st.value.func.attr == "__tensor_flatten__":
                for i, x in enumerate(st.targets[0].elts):
                    env[x.id] = i
        itx = lp.iter
        if isinstance(itx, ast.Name) and env.get(itx.id) == 0:
            inner_loop = (lp, paths)
        elif isinstance(itx, ast.Call) and isinstance(itx.func, ast.Attribute) and itx.func.attr == "items" and isinstance(itx.func.value, ast.Name) and env.get(itx.func.value.id) == 1:
            meta_loop = (lp, paths)
    if inner_loop is None or meta_loop is None:
        chk.unknown("C10.R1", site, f"{qn}: loops over the inner tensor names / meta items not recognised")
        return
    lp, paths = inner_loop
    name_e = None
    leaf_ok = rec_ok = False
    leaf_test = False
    leaf_forms = set()
    for pth in paths:
        stores = [ef for ef in pth.effects if ef[0] == "substore" and U(ef[1]) == dest]
        recs = [ef[1] for ef in pth.effects if ef[0] == "expr" and isinstance(ef[1], ast.Call) and isinstance(ef[1].func, ast.Name) and ef[1].func.id == h.name]
        # the inner tensor is getattr(t, <elem>)
        for ef in stores:
            key, val = ef[2], ef[3]
            if isinstance(key, ast.BinOp) and isinstance(key.op, ast.Add) and U(key.left) == prefix:
                nm = U(key.right)
                v = f"getattr({t}, {nm})"
                facts = path_facts(pth)
                is_leaf = facts.get(f"type({v}) == torch.Tensor")
                leaf_test = leaf_test or is_leaf is True
                if is_leaf is True and U(val) == f"{v} if {keep} else {v}.detach()":
                    leaf_ok = True
                elif is_leaf is True and facts.get(keep) is True and U(val) == v:
                    leaf_forms.add("kept")
                elif is_leaf is True and facts.get(keep) is False and U(val) == f"{v}.detach()":
                    leaf_forms.add("detached")
                if leaf_forms >= {"kept", "detached"}:
                    leaf_ok = True
        for rc in recs:
            a = [U(x) for x in rc.args]
            if len(a) == 4 and a[1] == dest and a[3] == keep and a[0].startswith(f"getattr({t}, "):
                nm = a[0][len(f"getattr({t}, "):-1]
                facts = path_facts(pth)
                if a[2] == f"{prefix} + {nm} + '.'" and facts.get(f"type({a[0]}) == torch.Tensor") is False:
                    rec_ok = True
                elif a[2] == f"{prefix} + {nm}" :
                    chk.bad("C10.R1", site, qn, "nested prefix", f"{qn}: a nested tensor subclass is flattened under `{a[2]}` (no '.' separator)", "frozen int2/int4 weights: the packed payload keys do not match what the loader pops")
                    rec_ok = None
    if rec_ok is not None:
        chk.require("C10.R1", site, rec_ok, f"{qn}: a nested tensor subclass is flattened recursively under prefix + name + '.'", qn, "nested prefix", "frozen int2/int4 weights: the packed payload keys do not match what the loader pops")
    chk.require("C10.R1", site, leaf_ok, f"{qn}: every plain inner tensor of __tensor_flatten__ is stored under prefix + name (detached unless keep_vars)", qn, "leaf tensors stored", "any frozen model: a payload/scale is missing from the state_dict")
    chk.require("C10.R3", site, leaf_test, "only `type(x) == torch.Tensor` leaves are stored as tensors (subclasses are never stored as such)", qn, "leaf test", "a tensor subclass lands in the state_dict: weights_only loading and safetensors fail")
    lp, paths = meta_loop
    ok_meta = False
    for pth in paths:
        for ef in pth.effects:
            if ef[0] == "substore" and U(ef[1]) == dest and isinstance(ef[2], ast.BinOp) and U(ef[2].left) == prefix:
                k, v = U(ef[2].right), U(ef[3])
                if k.endswith("[0]") and v.endswith("[1]") and k[:-3] == v[:-3]:
                    ok_meta = True
    chk.require("C10.R1", site, ok_meta, f"{qn}: every meta entry is stored under prefix + name", qn, "meta stored", "any frozen model: qtype/axis/size are missing")
    if h is not fn:
        calls = [n for n in ast.walk(fn) if isinstance(n, ast.Call) and isinstance(n.func, ast.Name) and n.func.id == h.name and not any(n is x for x in ast.walk(h))]
        ok_entry = len(calls) == 1 and [U(a) for a in calls[0].args] == ["self"] + positional_params(fn)[1:4]
        chk.require("C10.R1", site, ok_entry, f"{qn} starts the recursion on self with its own (destination, prefix, keep_vars)", qn, "entry call", "any frozen model")


def module_save(chk):
    repo = chk.repo
    ci = repo.cls("QModuleMixin")
    mi = ci.mod
    fn = ci.own("_save_to_state_dict")
    dest, prefix, keep = positional_params(fn)[1:4]
    want_always = {"input_scale", "output_scale", "weight_qtype", "activation_qtype"}
    global TENSOR_ATTRS
    TENSOR_ATTRS = {"weight", "bias"} | {n.args[0].value for m_ in ci.node.body if isinstance(m_, ast.FunctionDef) for n in ast.walk(m_)
                                         if isinstance(n, ast.Call) and U(n.func) in ("self.register_buffer", "self.register_parameter") and n.args and isinstance(n.args[0], ast.Constant)}
    for p in paths_of(fn):
        if p.end[0] == "raise":
            continue
        keys = {}
        weight_mode = None
        for ef in p.effects:
            if ef[0] == "substore" and U(ef[1]) == dest:
                k = ef[2]
                if isinstance(k, ast.BinOp) and U(k.left) == prefix and isinstance(k.right, ast.Constant):
                    keys[k.right.value] = ef[3]
                else:
                    chk.unknown("C10.R2", f"{mi.rel}:{ef[4]}", f"_save_to_state_dict: key `{U(k)}` not of the form prefix + <literal>")
            if ef[0] == "expr" and isinstance(ef[1], ast.Call) and U(ef[1].func) == "self.weight.save_to_state_dict":
                args = [U(a) for a in ef[1].args]
                weight_mode = "flattened" if args == [dest, f"{prefix} + 'weight.'", keep] else f"bad args {args}"
        site = f"{mi.rel}:{p.end[2]}"
        conds = " & ".join(p.cond_texts())
        frozen_q = p.holds("self.weight_qtype is None") is False and (p.holds("self.frozen") is True)
        if "weight" in keys:
            ok = not frozen_q and weight_mode is None and _not_frozen_quantized(p)
            chk.require("C10.R2", site, ok, f"save path [{conds[:80]}]: plain weight stored exactly when the weight is not a frozen quantized tensor", "QModuleMixin._save_to_state_dict", "plain weight on frozen path", "a frozen model: a tensor subclass is stored as a value")
        else:
            chk.require("C10.R2", site, weight_mode == "flattened" and frozen_q, f"save path [{conds[:80]}]: frozen quantized weight flattened under prefix + 'weight.' ({weight_mode})", "QModuleMixin._save_to_state_dict", "flattened weight", "a frozen model: weight keys missing or misnamed")
        missing = want_always - set(keys)
        chk.require("C10.R2", site, not missing, f"save path writes {sorted(want_always)} (missing: {sorted(missing)})", "QModuleMixin._save_to_state_dict", f"missing keys {sorted(missing)}", "any quantized model: the reloaded model has default scales or qtypes")
        has_bias = "bias" in keys
        bias_guard = p.holds("self.bias is None")
        chk.require("C10.R2", site, has_bias == (bias_guard is False), f"bias stored iff self.bias is not None (stored={has_bias}, guard={bias_guard})", "QModuleMixin._save_to_state_dict", "bias guard", "a module without bias (AttributeError on None.detach) or with bias (bias lost)")
        for k, v in keys.items():
            cls = value_class(v)
            want = STR_OK if k.endswith("_qtype") else TENSOR_OK
            chk.require("C10.R3", site, cls == want, f"value stored under '{k}' is a {want} expression: `{U(v)[:70]}`", "QModuleMixin._save_to_state_dict", f"value class of {k}", "weights_only / safetensors loading of the state_dict fails on a non-tensor non-string value")
            # the value is the attribute named like the key
            attrs = {n.attr for n in ast.walk(v) if isinstance(n, ast.Attribute) and U(n.value) == "self"}
            chk.require("C10.R2", site, attrs == {k}, f"'{k}' stores self.{k} (reads {sorted(attrs)})", "QModuleMixin._save_to_state_dict", f"key {k} stores another attribute", "any model whose input and output scales (or qtypes) differ")
            if k.endswith("_qtype"):
                ok = U(v) == f"'none' if self.{k} is None else self.{k}.name"
                chk.require("C10.R4", site, ok, f"'{k}' encodes None as 'none' and a qtype by its name", "QModuleMixin._save_to_state_dict", f"{k} encoding", "a module with that qtype unset (or set): decoding fails or yields another qtype")
    # both scales are registered buffers
    init = ci.own("__init__")
    regs = {U(n.args[0]) for n in ast.walk(init) if isinstance(n, ast.Call) and U(n.func) == "self.register_buffer" and n.args}
    chk.require("C10.R2", f"{mi.rel}:{init.lineno}", {"'input_scale'", "'output_scale'"} <= regs, f"input_scale and output_scale are registered buffers ({sorted(regs)}) so the base class loads them", "QModuleMixin.__init__", "scales are buffers", "any calibrated model: activation scales are not restored")


def frozen_predicate(chk, mixin, rule="C10.R2"):
    """`self.frozen` decides which branch of the save path runs: it must be a function of the weight the module holds (loading a
    frozen state_dict installs a quantized weight without calling freeze()), not a stored flag."""
    mi = mixin.mod
    fz = mixin.own("frozen")
    if fz is None:
        chk.unknown(rule, f"{mi.rel}:{mixin.node.lineno}", "QModuleMixin.frozen not found")
        return
    is_prop = any(U(d) == "property" for d in fz.decorator_list)
    n = 0
    for p in paths_of(fz):
        if p.end[0] != "return" or p.end[1] is None:
            continue
        n += 1
        e = p.end[1]
        attrs = {nd.attr for nd in ast.walk(e) if isinstance(nd, ast.Attribute) and U(nd.value) == "self"}
        ok = is_prop and attrs == {"weight"} and any(isinstance(nd, ast.Call) and U(nd.func) in ("isinstance", "type") for nd in ast.walk(e))
        chk.require(rule, f"{mi.rel}:{p.end[2]}", ok, f"QModuleMixin.frozen is a property computed from the type of self.weight alone: `{U(e)[:60]}` (reads self.{sorted(attrs)})", "QModuleMixin.frozen", "frozen state not derived from the weight",
                    "load a frozen state_dict into a freshly quantized model (or requantize()), then call state_dict() again: the quantized weight is stored as a tensor subclass under '<name>.weight' instead of its flattened form")
    chk.floor(rule, n, 1, "return paths of QModuleMixin.frozen")


NOT_FROZEN_LITS = {("self.weight_qtype is None", True), ("self.frozen", False), ("isinstance(self.weight, QTensor)", False)}


def _not_frozen_quantized(p) -> bool:
    """Some path condition implies that self.weight is not a frozen quantized tensor: every disjunct of it is such a literal."""
    for c, t, _ in p.conds:
        core, truth = c, t
        while isinstance(core, ast.UnaryOp) and isinstance(core.op, ast.Not):
            core, truth = core.operand, not truth
        if isinstance(core, ast.BoolOp) and ((isinstance(core.op, ast.Or) and truth) or (isinstance(core.op, ast.And) and not truth)):
            pol = truth
            lits = []
            for v in core.values:
                a = atoms(v, pol)
                lits.append(a[0] if len(a) == 1 else None)
            if all(l in NOT_FROZEN_LITS for l in lits):
                return True
        else:
            a = atoms(c, t)
            if any(l in NOT_FROZEN_LITS for l in a):
                return True
    return False


def module_load(chk):
    repo = chk.repo
    ci = repo.cls("QModuleMixin")
    mi = ci.mod
    fn = ci.own("_load_from_state_dict")
    ps = positional_params(fn)
    sd, prefix = ps[1], ps[2]
    n_paths = 0
    n_flat_assign = {True: 0, False: 0}
    for p in paths_of(fn):
        if p.end[0] == "raise":
            continue
        n_paths += 1
        site = f"{mi.rel}:{p.end[2]}"
        stores = {ef[2]: ef for ef in p.effects if ef[0] == "store" and U(ef[1]) == "self"}
        for attr in ("weight_qtype", "activation_qtype"):
            ef = stores.get(attr)
            pop = f"{sd}.pop({prefix} + '{attr}')"
            ok = ef is not None and U(ef[3]) == f"None if {pop} == 'none' else qtypes[{pop}]"
            chk.require("C10.R2", site, ok, f"load: self.{attr} is decoded from the popped '{attr}' entry ('none' -> None, name -> qtypes[name])", "QModuleMixin._load_from_state_dict", f"{attr} decoded", "any reload: the qtype of the saved model is ignored or mis-decoded; the key stays in the dict as unexpected")
        # super call last, after the pops, with the same arguments
        sup = [ef for ef in p.effects if ef[0] == "expr" and isinstance(ef[1], ast.Call) and U(ef[1].func) == "super()._load_from_state_dict"]
        ok_sup = len(sup) == 1 and [U(a) for a in sup[0][1].args][:3] == [sd, prefix, ps[3]] and [U(a) for a in sup[0][1].args][4:] == ps[5:8]
        chk.require("C10.R2", site, ok_sup, "load: the remaining entries are delegated to super()._load_from_state_dict with the same dict/prefix/error lists", "QModuleMixin._load_from_state_dict", "delegation", "any reload: biases, scales or float weights are not loaded")
        if ok_sup:
            order_ok = all(ef[4] < sup[0][2] for a, ef in stores.items() if a in ("weight_qtype", "activation_qtype", "weight"))
            chk.require("C10.R2", site, order_ok, "load: qtype entries are popped and a flattened weight is rebuilt before delegating", "QModuleMixin._load_from_state_dict", "order", "any reload: the base class sees string entries / a missing weight key")
        # flattened weight
        flat = p.holds("self.weight_qtype is None") is False and p.holds(f"{prefix} + 'weight' in {sd}") is False
        w = stores.get("weight")
        if flat:
            # a path that writes the deserialized tensor INTO the current weight (a copy procedure that receives both): not a rebinding, so
            # outside what this rule describes
            into = [ef for ef in p.effects if len(ef) > 1 and isinstance(ef[1], ast.AST) and any(U(x).startswith("self.weight") for x in ast.walk(ef[1]) if isinstance(x, (ast.Attribute, ast.Name))) and ef[0] in ("expr", "store", "substore", "augstore")] if w is None else []
            # `self.weight.copy_(x)` goes through the dispatch of the weight's class, and the sub-byte class has no copy_ (C05.R18 (c)): that stays a
            # path on which the flattened weight is not rebuilt; writes into the inner tensors themselves are the undecided case
            whole = [ef for ef in into if any(isinstance(x, ast.Call) and isinstance(x.func, ast.Attribute) and x.func.attr == "copy_" and U(x.func.value) == "self.weight" for x in ast.walk(ef[1]))]
            if w is None and into and not whole:
                chk.unknown("C10.R2", site, f"load: on this path self.weight is not rebound but written into (`{U(into[0][1])[:60]}`): outside what the rule describes, not decided")
                continue
            elif w is None:
                chk.bad("C10.R2", site, "QModuleMixin._load_from_state_dict", "flattened weight not rebuilt", "load: a flattened weight is present but self.weight is not rebuilt on this path", "reloading any frozen model")
                continue
            val = w[3]
            vt = U(val)
            bits8 = p.holds("self.weight_qtype.bits == 8")
            cls = "QBytesTensor" if bits8 else "QBitsTensor"
            from ..core import canon_text
            loader = canon_text(f"{cls}.load_from_state_dict({sd}, {prefix} + 'weight' + '.')")
            ok_cls = loader in vt and (bits8 or f"{loader}.optimize()" in vt)
            chk.require("C10.R2", site, ok_cls, f"load: {'8-bit' if bits8 else 'low-bit'} flattened weight rebuilt by {cls}.load_from_state_dict(state_dict, prefix + 'weight.'){'' if bits8 else '.optimize()'}", "QModuleMixin._load_from_state_dict", f"weight loader for bits8={bits8}", "reloading a frozen model of that bit width: wrong class or prefix")
            is_param = isinstance(val, ast.Call) and U(val.func) == "torch.nn.Parameter"
            chk.require("C10.R2", site, is_param, "load: the rebuilt weight is wrapped in a Parameter", "QModuleMixin._load_from_state_dict", "parameter", "reloading a frozen model")
            assign = p.holds("local_metadata.get('assign_to_params_buffers', False)")
            if is_param:
                n_flat_assign[assign is True] += 1
            if assign is True and is_param:
                inner = U(val.args[0]) if val.args else ""
                chk.require("C10.R9", site, ".to(" not in inner and ".cpu()" not in inner and ".cuda(" not in inner, f"load (assign mode): the checkpoint weight is assigned as it is, not moved to the placeholder device (`{inner[-60:]}`)", "QModuleMixin._load_from_state_dict", "assign mode keeps the checkpoint tensor",
                            "load_state_dict(assign=True) into a model built on the meta device: the frozen weight is moved to `meta`, its codes and scales are lost")
            if assign is not True and is_param:
                inner = U(val.args[0]) if val.args else ""
                # the device move may be wrapped by a copy of the moved tensor (`owned(x.to(self.weight.device), ...)`, `.clone()`)
                chk.require("C10.R9", site, inner.endswith(".to(self.weight.device)") or ".to(self.weight.device)" in inner, f"load: rebuilt weight moved to the device of the current weight (`...{inner[-40:]}`)", "QModuleMixin._load_from_state_dict", "rebuilt weight device", "loading a CPU state_dict into a model on another device: weight and bias/scales end up on different devices")
        else:
            chk.require("C10.R2", site, w is None, "load: the weight is only replaced when a flattened quantized weight is present", "QModuleMixin._load_from_state_dict", "weight replaced on plain path", "reloading an unfrozen model")
    if n_flat_assign[False]:
        chk.require("C10.R9", f"{mi.rel}:{fn.lineno}", n_flat_assign[True] >= 1, f"load: {n_flat_assign[True]} path(s) rebuild the weight under `local_metadata.get('assign_to_params_buffers')` (assign mode is consulted)", "QModuleMixin._load_from_state_dict", "assign mode consulted",
                    "load_state_dict(assign=True) into a model built on the meta device: the weight follows the copy route and lands on `meta`")
    chk.floor("C10.R2", n_paths, 4, "load paths")


def safetensors(chk):
    from ..core import loop_body_paths
    repo = chk.repo
    mi, save = repo.func("safe_save")
    sdn, fname = positional_params(save)[:2]
    site = f"{mi.rel}:{save.lineno}"
    # which dict goes where: from the save_file(...) call (after inlining of private helpers)
    tens = meta = None
    for p in paths_of(save):
        for ef in p.effects:
            if ef[0] == "expr" and isinstance(ef[1], ast.Call) and U(ef[1].func) in ("save_file", "safetensors.torch.save_file"):
                c = ef[1]
                a = [x for x in c.args]
                kw = {k.arg: k.value for k in c.keywords}
                if len(a) >= 2 and U(a[1]) == fname:
                    tens = a[0]
                    meta = a[2] if len(a) > 2 else kw.get("metadata")
    if tens is None or meta is None:
        chk.unknown("C10.R5", site, "safe_save: save_file(tensors, filename, metadata) call not found")
    else:
        # where do the two dicts get their entries?  (a) a loop storing into them (b) comprehensions
        verdict = None
        # a local that holds the items of the state_dict (`items = list(state_dict.items())`) iterates over the same pairs
        sd_alias = {U(a.targets[0]) for a in ast.walk(save) if isinstance(a, ast.Assign) and len(a.targets) == 1 and isinstance(a.targets[0], ast.Name)
                    and U(a.value) in (f"list({sdn}.items())", f"tuple({sdn}.items())", f"{sdn}.items()")}
        loops = [n for n in ast.walk(save) if isinstance(n, ast.For) and (sdn in U(n.iter) or U(n.iter) in sd_alias)]
        helper_loops = []
        if not loops:
            for n in ast.walk(save):
                if isinstance(n, ast.Call) and isinstance(n.func, ast.Name):
                    r = repo.resolve(mi, n.func.id)
                    if r is not None and isinstance(r[1], ast.FunctionDef):
                        for lp in ast.walk(r[1]):
                            if isinstance(lp, ast.For):
                                helper_loops.append((r[1], lp))
        cands = [(save, lp) for lp in loops] + helper_loops
        extension_branches = []
        for outer, lp in cands:
            yes = no = None
            for bp in loop_body_paths(outer, lp):
                fb = path_facts(bp)
                leaf = None
                type_fact = [v_ for k_, v_ in fb.items() if k_.startswith("type(") and k_.endswith(") == torch.Tensor")]
                # other class tests that HOLD on this path (`isinstance(value, QTensor)`, `type(value) == torch.nn.Parameter`): a branch that serves one more
                # kind of entry before / after the plain-tensor test - an extension of what safe_save accepts, not the split of a state_dict
                other_true = [k_ for k_, v_ in fb.items() if v_ is True and (k_.startswith("isinstance(") or (k_.startswith("type(") and " == " in k_ and not k_.endswith(") == torch.Tensor")))]
                if type_fact:
                    if type_fact[-1] is False and other_true:
                        extension_branches.append(other_true[0])
                        continue
                    leaf = type_fact[-1]
                elif other_true and any(k_.startswith("type(") and k_.endswith(") == torch.Tensor") for bp2 in loop_body_paths(outer, lp) for k_ in path_facts(bp2)):
                    extension_branches.append(other_true[0])
                    continue
                else:
                    for k_, v_ in fb.items():
                        if k_.startswith("isinstance(") and "Tensor" in k_:
                            leaf = ("isinstance", v_)
                        elif k_.startswith("isinstance(") and ", str)" in k_:
                            leaf = ("isstr", v_)
                stores = [U(ef[1]) for ef in bp.effects if ef[0] == "substore"]
                if leaf is True:
                    yes = stores
                elif leaf is False:
                    no = stores
                elif isinstance(leaf, tuple):
                    verdict = ("bad", f"the split tests `{leaf[0]}` instead of `type(value) == torch.Tensor`")
            if yes is not None and no is not None and verdict is None:
                verdict = ("ok", "") if (len(yes) == 1 and len(no) == 1 and yes != no) else ("bad", f"plain tensors stored into {yes}, other values into {no}")
        if verdict is None:
            # comprehension form: {k: v for k, v in sd.items() if type(v) == torch.Tensor}
            comps = [n for n in ast.walk(save) if isinstance(n, ast.DictComp)]
            tests = [U(c) for n in comps for g in n.generators for c in g.ifs]
            if any(t.startswith("type(") and t.endswith("== torch.Tensor") for t in tests) and any(t.startswith("type(") and t.endswith("!= torch.Tensor") for t in tests):
                verdict = ("ok", "")
            elif any("isinstance(" in t for t in tests):
                verdict = ("bad", "the split uses isinstance")
        if verdict is not None and verdict[0] == "ok" and extension_branches:
            chk.unknown("C10.R5", site, f"safe_save also serves entries that are not plain tensors or strings ({sorted(set(extension_branches))[:2]}): what it writes for them is not followed")
        if verdict is None:
            chk.unknown("C10.R5", site, "safe_save: how the state_dict is split was not recognised")
        else:
            chk.require("C10.R5", site, verdict[0] == "ok", f"safe_save: plain tensors (type(value) == torch.Tensor) -> tensors, everything else -> metadata, both passed to save_file {verdict[1]}", "safe_save", "safe_save split", "any quantized state_dict: strings are dropped or sent to the tensor section, or a tensor subclass is sent to safetensors")
    mi2, load = repo.func("safe_load")
    site2 = f"{mi2.rel}:{load.lineno}"
    ok_meta = ok_tensors = ok_ret = False
    base_name = None
    for n in ast.walk(load):
        if isinstance(n, ast.Assign) and isinstance(n.value, ast.Call) and isinstance(n.value.func, ast.Attribute) and n.value.func.attr == "metadata" and isinstance(n.targets[0], ast.Name):
            base_name = n.targets[0].id
            ok_meta = True
        if isinstance(n, ast.Assign) and isinstance(n.value, ast.Call) and U(n.value.func) == "dict" and n.value.args and "metadata()" in U(n.value.args[0]) and isinstance(n.targets[0], ast.Name):
            base_name = n.targets[0].id
            ok_meta = True
    for n in ast.walk(load):
        from ..core import strip_identity
        it_ = strip_identity(n.iter) if isinstance(n, ast.For) else None
        if isinstance(n, ast.For) and isinstance(it_, ast.Call) and isinstance(it_.func, ast.Attribute) and it_.func.attr == "keys" and isinstance(n.target, ast.Name):
            k = n.target.id
            for st in n.body:
                if isinstance(st, ast.Assign) and isinstance(st.targets[0], ast.Subscript) and U(st.targets[0].value) == base_name and U(st.targets[0].slice) == k and isinstance(st.value, ast.Call) and isinstance(st.value.func, ast.Attribute) and st.value.func.attr == "get_tensor" and [U(a) for a in st.value.args] == [k]:
                    ok_tensors = True
        if isinstance(n, ast.Return) and n.value is not None and U(n.value) == base_name:
            ok_ret = True
    reads_meta = any(isinstance(n, ast.Call) and isinstance(n.func, ast.Attribute) and n.func.attr == "metadata" for n in ast.walk(load))
    if not reads_meta:
        chk.bad("C10.R5", site2, "safe_load", "safe_load merge", "safe_load never reads the file's metadata(): the string entries (qtype names, axis, size...) are not restored", "any file saved with safe_save: qtype/axis/size entries are missing after loading")
    elif base_name is None:
        chk.unknown("C10.R5", site2, "safe_load: metadata() assignment not found")
    else:
        chk.require("C10.R5", site2, ok_meta and ok_tensors and ok_ret, "safe_load: starts from the metadata strings, adds every tensor of f.keys() and returns the merged dict", "safe_load", "safe_load merge", "any file: qtype/axis/size entries or tensors are missing after loading")


def self_reads(ci, fn, repo, depth=3, seen=None):
    """self attributes read by a method, following self.helper() calls."""
    seen = seen or set()
    out = set()
    if id(fn) in seen or depth < 0:
        return out
    seen.add(id(fn))
    for n in ast.walk(fn):
        if isinstance(n, ast.Attribute) and isinstance(n.ctx, ast.Load) and U(n.value) == "self":
            m = repo.method(ci, n.attr)
            if m is not None and isinstance(m[1], ast.FunctionDef):
                out |= self_reads(ci, m[1], repo, depth - 1, seen)
            else:
                out.add(n.attr)
    return out


def expr_reads(ci, e, repo):
    out = set()
    for n in ast.walk(e):
        if isinstance(n, ast.Attribute) and isinstance(n.ctx, ast.Load) and U(n.value) == "self":
            m = repo.method(ci, n.attr)
            if m is not None:
                out |= self_reads(ci, m[1], repo)
            else:
                out.add(n.attr)
    return out


def derived_state(chk, rule="C10.R6"):
    repo = chk.repo
    ci = repo.cls("QModuleMixin")
    mi = ci.mod
    init = ci.own("__init__")
    SRC = "weight_qtype"
    derived = {}
    stores_by_attr = {}
    for p in paths_of(init):
        for ef in p.effects:
            if ef[0] == "store" and U(ef[1]) == "self":
                stores_by_attr.setdefault(ef[2], []).append((p, ef))
    for attr, lst in stores_by_attr.items():
        if attr == SRC:
            continue
        for p, ef in lst:
            reads = expr_reads(ci, ef[3], repo)
            ctrl = set()
            for c, t, ln in p.conds:
                ctrl |= expr_reads(ci, c, repo)
            if SRC in reads:
                derived[attr] = f"value `{U(ef[3])[:50]}` reads self.{SRC}"
            elif SRC in ctrl and len({U(e[3]) for _, e in lst}) > 1:
                derived[attr] = f"assigned under a condition on self.{SRC}"
    chk.floor(rule, len(derived), 1, f"attributes derived from {SRC} in __init__")
    for m in ci.node.body:
        if not isinstance(m, ast.FunctionDef) or m is init:
            continue
        for p in paths_of(m):
            if p.end[0] == "raise":
                continue
            st = {ef[2]: ef for ef in p.effects if ef[0] == "store" and U(ef[1]) == "self"}
            if SRC in st:
                for attr, why in derived.items():
                    ok = attr in st and st[attr][4] >= st[SRC][4]
                    chk.require(rule, f"{mi.rel}:{st[SRC][4]}", ok, f"{m.name} reassigns self.{SRC} and re-derives self.{attr} ({why})", f"QModuleMixin.{m.name}", f"stale {attr} after {SRC} reassigned",
                                "loading a state_dict saved with another weight qtype (e.g. unfrozen qint4 weights into a default-quantized model): the stale value is used by the next forward")


def requantize_rules(chk):
    repo = chk.repo
    mi, rq = repo.func("requantize")
    model, sd = positional_params(rq)[:2]
    # creation-gating kwargs
    gating = {}
    for tname, qci in qmodules(repo).items():
        qc = repo.method(qci, "qcreate")
        if qc is None:
            continue
        for p in paths_of(qc[1]):
            if p.end[0] == "return" and p.end[1] is not None and U(p.end[1]) == "None":
                for c, t, _ in p.conds:
                    for a, pol in atoms(c, t):
                        if a.endswith(" is None") and pol:
                            gating.setdefault(a[: -len(" is None")], []).append(qci.name)
    calls = [n for n in ast.walk(rq) if isinstance(n, ast.Call) and isinstance(n.func, ast.Name) and n.func.id == "quantize"]
    if len(calls) != 1:
        chk.unknown("C10.R7", f"{mi.rel}:{rq.lineno}", f"requantize: {len(calls)} quantize() calls")
        return
    kw = {k.arg: k.value for k in calls[0].keywords}

    def helper_returns(v):
        """v = h(args) with h a module-level helper: (helper, the expressions it can return with its parameters bound to the arguments), else None"""
        if not (isinstance(v, ast.Call) and isinstance(v.func, ast.Name)):
            return None
        r = repo.resolve(mi, v.func.id)
        if r is None or not isinstance(r[1], ast.FunctionDef) or not r[0].rel.startswith("optimum/"):
            return None
        env = bind_call(r[1], v)
        if env is None:
            return None
        try:
            rets = [p_.end[1] for p_ in paths_of(r[1], env) if p_.end[0] == "return" and p_.end[1] is not None]
        except AnalysisError:
            return None
        return r[1], rets

    for g, classes in gating.items():
        v = kw.get(g)
        ok = v is not None and not isinstance(v, ast.Constant)
        dep = False
        hr = helper_returns(v) if ok else None
        if hr is not None:
            # computed by a helper from the state_dict it is handed: the state_dict is an argument and the helper iterates over / indexes that parameter
            h_, rets_ = hr
            sd_params = [pn for pn, a_ in (bind_call(h_, v) or {}).items() if isinstance(a_, ast.AST) and U(a_) == sd]
            dep = bool(sd_params) and any((isinstance(n, ast.For) and any(sp in U(n.iter) for sp in sd_params)) or (isinstance(n, ast.Subscript) and U(n.value) in sd_params) for n in ast.walk(h_))
            for t_ in rets_:
                chk.require("C10.R7", f"{mi.rel}:{calls[0].lineno}", U(t_) != "None", f"requantize: `{g}` = `{U(v)[:40]}` returns `{U(t_)[:30]}`, never None", "requantize", f"gating kwarg {g} is None on a path",
                            f"quantize(model, weights=qint8, activations=qint8); with Calibration(): model(x) (the default streamlining turns every activation_qtype into None); freeze; requantize(new_model, state_dict): {sorted(set(classes))} is not recreated -> unexpected keys")
        if ok and isinstance(v, ast.Name):
            # the value must be computed from the state_dict
            for n in ast.walk(rq):
                if isinstance(n, ast.For) and sd in U(n.iter) and any(isinstance(s, ast.Assign) and U(s.targets[0]) == v.id for s in ast.walk(n)):
                    dep = True
                if isinstance(n, ast.Assign) and U(n.targets[0]) == v.id and sd in U(n.value):
                    dep = True
        chk.require("C10.R7", f"{mi.rel}:{calls[0].lineno}", ok and dep, f"requantize passes `{g}` (which gates the creation of {sorted(set(classes))}) derived from the state_dict", "requantize", f"gating kwarg {g} not derived from state_dict",
                    f"a state_dict saved from a model quantized with {g}: {sorted(set(classes))} modules are not recreated (unexpected keys)")
    chk.floor("C10.R7", len(gating), 1, "creation-gating kwargs of registered qmodules")
    # (b) the gating value is a qtype on every path: the state_dict of a model whose activations were all disabled afterwards
    #     (Calibration streamlining sets activation_qtype to None module by module) still holds the modules created under the gate
    for g, classes in gating.items():
        v = kw.get(g)
        if not isinstance(v, ast.Name):
            continue
        for p in paths_of(rq):
            if p.end[0] == "raise":
                continue
            vals = [U(ef[1].keywords[[k.arg for k in ef[1].keywords].index(g)].value) for ef in p.effects
                    if ef[0] == "expr" and isinstance(ef[1], ast.Call) and U(ef[1].func) == "quantize" and g in [k.arg for k in ef[1].keywords]]
            for t in vals:
                chk.require("C10.R7", f"{mi.rel}:{calls[0].lineno}", t != "None", f"requantize path ({' & '.join(p.cond_texts())[:60] or 'straight'}): `{g}` = `{t[:40]}` is never None", "requantize", f"gating kwarg {g} is None on a path",
                            f"quantize(model, weights=qint8, activations=qint8); with Calibration(): model(x) (the default streamlining turns every activation_qtype into None); freeze; requantize(new_model, state_dict): {sorted(set(classes))} is not recreated -> unexpected keys")
        # the value the variable holds when no entry of the state_dict overrides it: its last unconditional assignment before the call
        last = None
        for st in rq.body:
            if st.lineno >= calls[0].lineno:
                break
            if isinstance(st, ast.Assign) and U(st.targets[0]) == v.id:
                last = st.value
            elif isinstance(st, ast.If) and U(st.test) in (f"{v.id} is None", f"not {v.id}") and any(isinstance(x, ast.Assign) and U(x.targets[0]) == v.id and U(x.value) != "None" for x in st.body):
                last = ast.Constant(value="<replaced when None>")
        if last is not None:
            chk.require("C10.R7", f"{mi.rel}:{calls[0].lineno}", U(last) != "None", f"requantize: `{g}` defaults to `{U(last)[:30]}` (not None) when no entry of the state_dict names a qtype", "requantize", f"gating kwarg {g} is None on a path",
                        f"quantize(model, weights=qint8, activations=qint8); with Calibration(): model(x) (the default streamlining turns every activation_qtype into None); freeze; requantize(new_model, state_dict): {sorted(set(classes))} is not recreated -> unexpected keys")
    # (d) a default-quantized target: quantize(model) with no argument must be able to hold every module class a state_dict can contain
    for g, classes in gating.items():
        chk.require("C10.R7", f"{mi.rel}:{rq.lineno}", False, f"every registered module class is created by quantize() whatever `{g}` is (gated classes: {sorted(set(classes))})", "quantize", f"default-quantized target lacks the classes gated by {g}",
                    f"a state_dict saved from a model quantized with {g}, loaded with load_state_dict() into quantize(fresh_model): Unexpected key(s) ln.input_scale, ln.output_scale, ln.weight_qtype, ln.activation_qtype")
    # (d') the converse: a default-quantized target wraps EVERY eligible module, a source quantized with a module filter left some in float - the loader of
    #      the target pops `<name>.weight_qtype` / `<name>.activation_qtype` without a default
    qmx = repo.cls("QModuleMixin")
    ld = qmx.own("_load_from_state_dict")
    pops = [c for c in ast.walk(ld) if isinstance(c, ast.Call) and isinstance(c.func, ast.Attribute) and c.func.attr == "pop" and c.args and "_qtype" in U(c.args[0])]
    bare = [c for c in pops if len(c.args) == 1 and not c.keywords]
    guarded_in = any(isinstance(c, ast.Compare) and isinstance(c.ops[0], (ast.In, ast.NotIn)) and "_qtype" in U(c.left) for c in ast.walk(ld))
    if pops:
        chk.require("C10.R7", f"{qmx.mod.rel}:{bare[0].lineno if bare else ld.lineno}", not bare or guarded_in, f"_load_from_state_dict reads the qtype entries of its module with a default (or after testing for them): {len(bare)} bare pop(s)", "QModuleMixin._load_from_state_dict",
                    "qtype entries popped without a default", "quantize(source, modules=[subset]); quantize(target) (default: every Linear): target.load_state_dict(source.state_dict()) -> KeyError '2.weight_qtype' for each module the source left in float (requantize() handles the same state_dict)")
    # (e) tensors that are not in the state_dict survive requantize(): moving the whole model to meta and back to empty loses non-persistent buffers
    whole_meta = any(isinstance(x, ast.Call) and U(x.func) == f"{model}.to" and "meta" in U(x) for x in ast.walk(rq)) and any(isinstance(x, ast.Call) and U(x.func) == f"{model}.to_empty" for x in ast.walk(rq))
    chk.require("C10.R8", f"{mi.rel}:{rq.lineno}", not whole_meta, "requantize keeps the tensors of the model that the state_dict does not hold (it does not move the whole model to meta and back to empty)", "requantize", "non-persistent buffers lost",
                "a model with a buffer registered with persistent=False (rotary embeddings, position ids): after requantize() the buffer is uninitialised memory and the outputs differ; quantize() + load_state_dict() of the same state_dict is exact")
    # (c) exactly the modules recorded in the state_dict are quantized
    mv = kw.get("modules")
    ok_mod = False
    if mv is not None:
        src = mv
        if isinstance(mv, ast.Name):
            for n in ast.walk(rq):
                if isinstance(n, ast.Assign) and U(n.targets[0]) == mv.id:
                    src = n.value
        from ..core import inline
        src = inline(repo, mi, src)  # a single-expression helper (`_recorded_modules(model, state_dict)`) is the expression it returns
        t = U(src)
        ok_mod = f"{model}.named_modules()" in t and f"in {sd}" in t and "weight_qtype" in t
    chk.require("C10.R7", f"{mi.rel}:{calls[0].lineno}", ok_mod, f"requantize quantizes exactly the modules that have a `<name>.weight_qtype` entry in the state_dict (modules={U(mv)[:30] if mv is not None else None})", "requantize", "requantize quantizes every eligible module",
                "a model quantized with a module filter (quantize(model, modules=[...])): requantize() also replaces the modules that were left in float, and loading fails with KeyError '<name>.weight_qtype'")
    # order
    ps = [p for p in paths_of(rq) if p.end[0] != "raise"]
    seq_ok = True
    detail = ""
    for p in ps:
        events = []
        for ef in p.effects:
            if ef[0] == "expr" and isinstance(ef[1], ast.Call):
                t = U(ef[1])
                events.append((ef[2], t))
        order = [t for _, t in sorted(events)]
        def idx(pred):
            for i, t in enumerate(order):
                if pred(t):
                    return i
            return -1
        i_meta = idx(lambda t: t.startswith(f"{model}.to(") and "meta" in t)
        i_q = idx(lambda t: t.startswith("quantize("))
        i_empty = idx(lambda t: t.startswith(f"{model}.to_empty(") and "cpu" in t)
        i_load = idx(lambda t: t.startswith(f"{model}.load_state_dict({sd}"))
        i_back = idx(lambda t: t.startswith(f"{model}.to(") and "meta" not in t)
        seq = [i_meta, i_q, i_empty, i_load, i_back]
        good = all(i >= 0 for i in seq) and seq == sorted(seq)
        dev = order[i_back] if i_back >= 0 else ""
        dev_ok = "next(" in dev and ".device" in dev
        if not (good and dev_ok):
            seq_ok = False
            detail = f"{order}"
    chk.require("C10.R8", f"{mi.rel}:{rq.lineno}", seq_ok and bool(ps), f"requantize: device captured from the model, to(meta), quantize, to_empty(cpu), load_state_dict(state_dict), to(original device) in that order {detail[:120]}", "requantize", "requantize order", "requantize(model, state_dict): weights loaded into meta tensors / model left on the wrong device")


_FRESH_METHODS = {"max", "min", "amax", "amin", "abs", "mean", "sum", "clone", "mul", "div", "add", "sub", "norm", "sqrt", "clamp", "dequantize", "maximum", "minimum", "new_ones", "new_zeros", "new_tensor"}
_ALIAS_METHODS = {"to", "detach", "view", "reshape", "squeeze", "unsqueeze", "flatten", "t", "contiguous", "expand", "float", "half", "bfloat16", "type", "cpu", "cuda", "requires_grad_", "view_as", "expand_as", "data"}
_FRESH_TORCH = {"ones", "zeros", "tensor", "empty", "full", "ones_like", "zeros_like", "max", "min", "amax", "amin", "abs", "mean", "sum", "clone", "maximum", "minimum", "mul", "div", "add", "sub", "sqrt", "clamp", "stack", "cat", "where", "scalar_tensor"}
_ALIAS_TORCH = {"reshape", "squeeze", "unsqueeze", "flatten", "t", "detach", "as_strided", "broadcast_to", "atleast_1d", "as_tensor", "asarray"}


def freshness(repo, mod, e, bind, depth=0):
    """'fresh' | 'alias <what>' | 'unknown <what>' for the tensor an expression evaluates to."""
    from ..core import positional_params
    if isinstance(e, (ast.BinOp, ast.UnaryOp)):
        return "fresh"
    if isinstance(e, ast.IfExp):
        a, b = freshness(repo, mod, e.body, bind, depth), freshness(repo, mod, e.orelse, bind, depth)
        return a if a != "fresh" else b
    if isinstance(e, ast.Name):
        return bind.get(e.id, f"unknown name {e.id}")
    if isinstance(e, (ast.Attribute, ast.Subscript)):
        if isinstance(e, ast.Attribute) and e.attr == "data":
            return freshness(repo, mod, e.value, bind, depth)
        return "alias " + U(e)
    if isinstance(e, ast.Call):
        f = e.func
        if isinstance(f, ast.Attribute):
            t = U(f)
            if t.startswith("torch."):
                n = t.split(".")[-1]
                if n in _FRESH_TORCH:
                    return "fresh"
                if n in _ALIAS_TORCH and e.args:
                    return freshness(repo, mod, e.args[0], bind, depth)
                return "unknown " + t
            if f.attr in _FRESH_METHODS:
                return "fresh"
            if f.attr in _ALIAS_METHODS:
                return freshness(repo, mod, f.value, bind, depth)
            return "unknown method " + f.attr
        if isinstance(f, ast.Name) and depth < 4:
            r = repo.resolve(mod, f.id)
            if r is not None and isinstance(r[1], ast.FunctionDef):
                cm, cf = r
                params = positional_params(cf)
                b2 = {}
                for i, a in enumerate(e.args):
                    if i < len(params):
                        b2[params[i]] = freshness(repo, mod, a, bind, depth)
                for k in e.keywords:
                    if k.arg:
                        b2[k.arg] = freshness(repo, mod, k.value, bind, depth)
                worst = None
                for p in paths_of(cf):
                    if p.end[0] != "return" or p.end[1] is None:
                        continue
                    v = freshness(repo, cm, p.end[1], b2, depth + 1)
                    if v != "fresh" and (worst is None or v.startswith("alias")):
                        worst = v
                return worst or "fresh"
        return "unknown call " + U(f)
    return "unknown " + type(e).__name__


def load_keeps_scales(chk):
    """C10.R14: the methods reachable from QModuleMixin._load_from_state_dict (through calls on self) neither rebind nor write in place input_scale / output_scale."""
    from .c13 import INPLACE_METHODS
    repo = chk.repo
    ci = repo.cls("QModuleMixin")
    load = ci.own("_load_from_state_dict")
    names = ("input_scale", "output_scale")
    seen, todo, reach = set(), [load], []
    while todo:
        fn = todo.pop()
        if id(fn) in seen:
            continue
        seen.add(id(fn))
        reach.append(fn)
        for n in ast.walk(fn):
            if isinstance(n, ast.Call) and isinstance(n.func, ast.Attribute) and isinstance(n.func.value, ast.Name) and n.func.value.id == "self":
                m = repo.method(ci, n.func.attr)
                if m is not None:
                    todo.append(m[1])
    for fn in reach:
        for n in ast.walk(fn):
            w = None
            if isinstance(n, ast.Attribute) and n.attr in names and isinstance(n.ctx, (ast.Store, ast.Del)):
                w = U(n)
            elif isinstance(n, ast.Call) and isinstance(n.func, ast.Attribute) and n.func.attr in INPLACE_METHODS and isinstance(n.func.value, ast.Attribute) and n.func.value.attr in names:
                w = U(n)[:50]
            elif isinstance(n, ast.Call) and U(n.func) in ("setattr", "self.register_buffer") and n.args and any(isinstance(a, ast.Constant) and a.value in names for a in n.args[:2]):
                w = U(n)[:50]
            if w is not None:
                chk.bad("C10.R14", f"{ci.mod.rel}:{n.lineno}", f"QModuleMixin.{fn.name}", "scale buffer written while loading", f"NOT: `{w}` in {fn.name}, reached from _load_from_state_dict, writes an activation-scale buffer the state_dict restores",
                        "a model calibrated with the default (streamlining) Calibration - modules whose activations were switched off keep their calibrated scales in the state_dict: after loading they are back to one, and the state_dict saved again differs")
    chk.ok("C10.R14", f"{ci.mod.rel}:{load.lineno}", f"{len(reach)} method(s) reachable from _load_from_state_dict scanned for writes of {names}")
    chk.floor("C10.R14", len(reach), 2, "methods reachable from _load_from_state_dict")


def owned_tensors(chk):
    from ..report import AliasedCheck
    from . import c08
    repo = chk.repo
    if chk.pid == "C10":
        load_keeps_scales(chk)
    if chk.pid == "C10":
        c08.copy_rule(AliasedCheck(chk, {"C08.R4": "C10.R11"}))
        # the buffers a state_dict is loaded into have the dtype of the model whatever the configuration the target was quantized with:
        # load_state_dict copies INTO them, so a float32 placeholder turns a saved float16 scale into a float32 one
        c08.scale_buffers(AliasedCheck(chk, {"C08.R9": "C10.R12"}), repo.cls("QModuleMixin"))
        # a reloaded sub-byte weight is rebuilt (optimize()): the geometry it reports - and writes into the next state_dict - is the tensor's
        from . import c06
        c06.qbits_geometry(AliasedCheck(chk, {"C06.R10": "C10.R13"}), "C06.R10")
        # the inner tensors of a frozen weight ARE state_dict entries: rebinding one to another tensor can make it non-contiguous, shared or of
        # another dtype than the one a freshly quantized target gives it
        c06.field_rebinding_rule(AliasedCheck(chk, {"C06.R12": "C10.R15"}), "C06.R12")
    names = ("input_scale", "output_scale")
    n = 0
    for mi in repo.modules.values():
        fns = []
        for node in ast.walk(mi.tree):
            if isinstance(node, (ast.FunctionDef,)):
                fns.append(node)
        for fn in fns:
            nodes = list(ast.walk(fn))
            # a rebinding (`m.input_scale = v`), an in-place copy (`m.input_scale.copy_(v)`) or a setter procedure called on the buffer
            stores = any(isinstance(x, ast.Attribute) and x.attr in names and isinstance(x.ctx, ast.Store) for x in nodes) or \
                any(isinstance(x, ast.Call) and ((isinstance(x.func, ast.Attribute) and x.func.attr == "copy_" and isinstance(x.func.value, ast.Attribute) and x.func.value.attr in names)
                                                 or (isinstance(x.func, ast.Name) and any(isinstance(a, ast.Attribute) and a.attr in names for a in x.args[:1]))) for x in nodes)
            regs = any(isinstance(x, ast.Constant) and x.value in names for x in nodes) and any(isinstance(x, ast.Attribute) and x.attr == "register_buffer" for x in nodes)
            if not stores and not regs:
                continue
            try:
                ps = paths_of(fn)
            except AnalysisError as ex:
                chk.unknown("C10.R11", f"{mi.rel}:{fn.lineno}", f"{fn.name}: paths not enumerated ({ex})")
                continue
            seen = set()
            for p in ps:
                for ef in p.effects:
                    tgt = val = None
                    if ef[0] == "store" and ef[2] in names:
                        tgt, val, line = f"{U(ef[1])}.{ef[2]}", ef[3], ef[4]
                    elif ef[0] == "expr" and isinstance(ef[1], ast.Call) and U(ef[1].func).endswith(".register_buffer") and len(ef[1].args) >= 2 and isinstance(ef[1].args[0], ast.Constant) and ef[1].args[0].value in names:
                        tgt, val, line = f"{U(ef[1].func.value)}.{ef[1].args[0].value}", ef[1].args[1], ef[2]
                    if tgt is None or (line, U(val)) in seen:
                        continue
                    seen.add((line, U(val)))
                    n += 1
                    v = freshness(repo, mi, val, {})
                    site = f"{mi.rel}:{line}"
                    own = v == "alias " + tgt
                    what = f"{fn.name}: `{tgt} = {U(val)[:80]}` is a freshly computed tensor ({v})"
                    if v == "fresh" or own:
                        chk.ok("C10.R11", site, what)
                    elif v.startswith("alias"):
                        chk.bad("C10.R11", site, fn.name, "scale buffer aliases another tensor", "NOT: " + what,
                                "two chained quantized modules calibrated with quantized activations: the second module's input_scale is the first one's output_scale (or a quantized tensor's scale); the state_dict holds tensors sharing memory and safe_save() refuses it")
                    else:
                        chk.unknown("C10.R11", site, what)
    chk.floor("C10.R11", n, 4, "writes of the activation scale buffers")
