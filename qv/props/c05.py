"""C05 - operations on quantized tensors equal the operations on dequantized values (structural clauses)."""
import ast

from .. import handrules
from ..core import AnalysisError
from ..registries import handlers, register_functions

TITLE = "Operations on quantized tensors equal the same operations on dequantized values"

RULES = {
    "C05.R1": "registry extraction: every handler is registered for classified aten ops; floors 27 ops / 21 handlers (QBytes), 2 (QBits), 7 torch functions",
    "C05.R2": "operand-kind typestate: no quantized-only attribute on a possibly plain operand, no raw packed payload in compute, no re-dispatch cycle",
    "C05.R3": "every qfallback / float re-issue passes the aten op and the handler's own operands in the aten order",
    "C05.R4": "scale algebra: the (payload, scale) terms of every returned quantized tensor fit the algebraic class of the op",
    "C05.R5": "a data-movement handler keeps an unchanged scale only under `axis is None` (or co-moves the scale)",
    "C05.R6": "arithmetic/comparison on raw payloads is guarded against float8 storage",
    "C05.R7": "raise/assert statements reachable in handlers are documented refusals only",
    "C05.R8": "dispatch totality: __torch_dispatch__/__torch_function__ forward *args/**kwargs to the handler or the fallback",
    "C05.R9": "qfallback dequantizes every QTensor in args and kwargs",
    "C05.R10": "re-quantizing handlers compute on dequantized values and re-quantize with the operand qtype and documented scale",
    "C05.R18": "mutation is local and atomic: (a) a handler that writes a scale in place (copy_) must not meet scale tensors shared between a result and its operand (neg / relu / where / views hand their operand's scale object to the result); (b) it checks that source and destination scales have the same layout before it changes anything; (c) every tensor class intercepts the mutating op copy_ (a class without it copies into a dequantized temporary: a silent no-op); (d) a plain source is broadcast before it is quantized with the destination's scale; (e) the dispatch tells mutating ops apart on every path that reaches the out-of-place fallback, and the write-back fallback re-issues the op with its arguments, copies into every destination it recorded and hands the destinations back; (f) aliasing ops return views of their operand, not of a dequantized temporary - per-axis handlers and ops without a handler (one obligation per view op of aten); (g) the scale a written-back destination ends up with cannot be null; (h) the write-back fallback refuses nothing",
    "C05.R21": "moves are operations: to(dtype) / to(device) / clone / detach of a quantized tensor denote the move of its dequantized values - the payload keeps its storage dtype, a dtype the scale cannot take (integer, 8-bit float) converts the dequantized values (the move rules C06.R2 / C06.R4 re-checked)",
    "C05.R20": "overloads: the dispatch hands every overload of an aten packet to one handler, so a handler of `view` must tell view(dtype) - a reinterpretation of the bytes, meaningless on the codes - from view(size) and fall back",
    "C05.R19": "a handler accepts the optional arguments of the aten ops it is registered for (div: rounding_mode; copy_: non_blocking): as a named parameter or through **kwargs",
    "C05.R17": "integer payload arithmetic does not wrap: neg / abs are applied to a raw int8 payload only after the lowest code (which has no positive counterpart) has been clamped away",
    "C05.R12": "scale positivity: a handler that rescales by a scalar preserves the sign of the scale whenever another handler works on raw payloads assuming a positive scale",
    "C05.R13": "guard helpers mean what the rules assume: is_scalar = python number or plain 0-dim tensor; cannot_mm = grouped payload",
    "C05.R16": "in-place variants: a handler registered for an in-place aten op (trailing underscore) updates and returns its first operand on every path (a handler that returns a fresh tensor leaves the operand and its aliases unchanged)",
    "C05.R15": "contractions: the default kernel behind mm/bmm/linear multiplies raw codes in float32 for every 8-bit operand pair with half-precision scales (error stays within one float accumulation, no intermediate overflow)",
    "C05.R14": "contractions (mm/bmm handlers): the raw-code route is well-typed for every combination of per-tensor / per-axis operands that reaches it: each scale lines up with a kept dimension of the output and is applied exactly once",
    "C05.R11": "rank beliefs (fixed-size unpacking of size()) are implied by the aten schema or an ndim guard",
}


def run(chk):
    for k, v in RULES.items():
        chk.rule(k, v)
    repo = chk.repo
    hs = handlers(repo)
    n_ops = sum(len(h.ops) for h in hs["qbytes"])
    chk.floor("C05.R1", n_ops, 27, "aten ops registered for QBytesTensor")
    chk.floor("C05.R1", len(hs["qbytes"]), 21, "QBytesTensor handlers")
    chk.floor("C05.R1", len(hs["qbits"]), 2, "QBitsTensor handlers")
    chk.floor("C05.R1", sum(len(h.ops) for h in hs["qfunc"]), 7, "torch functions registered")
    seen = {}
    for table in ("qbytes", "qbits", "qfunc"):
        for h in hs[table]:
            for o in h.ops:
                key = (table, o)
                if key in seen:
                    chk.bad("C05.R1", f"{h.mi.rel}:{h.fn.lineno}", h.name, f"duplicate registration {o}", f"{o} is registered twice ({seen[key]} and {h.name}): the later one silently wins", f"any {o} call")
                seen[key] = h.name
    # the decorators store partial(handler, aten_op) under the aten op
    for name, (mi, fn) in register_functions(repo).items():
        import ast
        from ..core import U
        from ..core import subst, positional_params
        ops_param = fn.args.args[0].arg
        # the function applied to the handler: a closure returned by the decorator factory, or partial(<helper>, table, ops)
        applied = []  # (body function, env of its parameters, name of the handler parameter)
        for w in [n for n in ast.walk(fn) if isinstance(n, ast.FunctionDef) and n is not fn]:
            if w.args.args:
                applied.append((w, {}, w.args.args[0].arg))
        for r in [n for n in ast.walk(fn) if isinstance(n, ast.Return) and isinstance(n.value, ast.Call)]:
            c = r.value
            if U(c.func) in ("partial", "functools.partial") and c.args and isinstance(c.args[0], ast.Name) and not c.keywords:
                res = repo.resolve(mi, c.args[0].id)
                if res is not None and isinstance(res[1], ast.FunctionDef):
                    hp = positional_params(res[1])
                    bound = c.args[1:]
                    if len(hp) == len(bound) + 1:
                        applied.append((res[1], dict(zip(hp, bound)), hp[-1]))
        ok = False
        for w, env, impl in applied:
            for n in ast.walk(w):
                if isinstance(n, ast.For) and isinstance(n.target, ast.Name):
                    for st in n.body:
                        if isinstance(st, ast.Assign) and isinstance(st.targets[0], ast.Subscript):
                            key, val = U(st.targets[0].slice), U(st.value)
                            it = subst(n.iter, env)
                            if isinstance(it, ast.Call) and isinstance(it.func, ast.Name) and it.func.id in ("tuple", "list", "set", "sorted") and len(it.args) == 1:
                                it = it.args[0]
                            if key == n.target.id and val == f"partial({impl}, {n.target.id})" and U(it) == ops_param:
                                ok = True
        if ok:
            chk.ok("C05.R1", f"{mi.rel}:{fn.lineno}", f"{name} stores partial(handler, op) under each listed op")
        else:
            # a store into a table with another key or another value is a violation; a registration mechanism outside the recognised
            # forms (callable class, update() of a comprehension, index loops) is undecided
            wrong = []
            for w, env, impl in applied:
                for n in ast.walk(w):
                    if isinstance(n, ast.For) and isinstance(n.target, ast.Name):
                        for st in n.body:
                            if isinstance(st, ast.Assign) and isinstance(st.targets[0], ast.Subscript) and U(st.targets[0].value).isupper() is False and "TABLE" in U(st.targets[0].value).upper():
                                key, val = U(st.targets[0].slice), U(st.value)
                                if key == n.target.id and val.startswith("partial(") and val != f"partial({impl}, {n.target.id})":
                                    wrong.append(val)
                                elif key != n.target.id and val == f"partial({impl}, {n.target.id})":
                                    wrong.append(f"[{key}] = {val}")
            if wrong:
                chk.bad("C05.R1", f"{mi.rel}:{fn.lineno}", name, "registration decorator", f"{name} stores `{wrong[0][:80]}` (expected table[op] = partial(handler, op))", "every registered op: handler receives the wrong op or is stored under another key")
            else:
                chk.unknown("C05.R1", f"{mi.rel}:{fn.lineno}", f"{name}: registration mechanism not in a recognised form (closure / partial(helper, TABLE, ops) with a loop `TABLE[op] = partial(handler, op)`)")
    chk.ok("C05.R1", "registries", f"{len(hs['qbytes'])} QBytes handlers / {n_ops} ops, {len(hs['qbits'])} QBits handlers, {len(hs['qfunc'])} function wrappers extracted")
    recs = handrules.analyse(repo, chk.tier)
    handrules.emit(chk, recs, "C05")
    from . import c07
    c07.mm_handlers(chk, r1="C05.R14", r2="C05.R14", r5="C05.R14")
    # linear: the typing of QTensorLinear.forward, including a 1-D input (no batch dimension)
    from ..report import AliasedCheck
    hn = {}
    for nm in c07.HELPERS:
        try:
            hn[nm] = repo.func(nm)[1]
        except AnalysisError:
            pass
    c07.linear_forward(AliasedCheck(chk, {"C07.R1": "C05.R14", "C07.R2": "C05.R14", "C07.R6": "C05.R14"}), hn)
    if chk.pid == "C05":
        # dtype / device moves are operations too: `q.to(dtype)` is the move of the dequantized values
        from .c06 import moves_rule
        moves_rule(chk, r2="C05.R21", r4="C05.R21")
    # in-place variants
    from ..core import paths_of, positional_params as _pp
    n_ip = 0
    for table in ("qbytes", "qbits"):
        for h in hs[table]:
            ip = [o for o in h.ops if o.split(".")[1].endswith("_")]
            if not ip:
                continue
            n_ip += 1
            opn, first = _pp(h.fn)[0], _pp(h.fn)[1]
            for p in paths_of(h.fn):
                if p.end[0] != "return":
                    continue
                e = p.end[1]
                ok = e is not None and (U(e) == first or (isinstance(e, ast.Call) and isinstance(e.func, ast.Name) and e.func.id == opn and e.args and U(e.args[0]) == first))
                if not ok:
                    # deferring to the write-back fallback (which hands the written destinations back) with the operand as the written argument: read the
                    # return statement itself, the path engine may have inlined the helper
                    from ..handrules import schema_writeback as _sw
                    for rs in [x for x in ast.walk(h.fn) if isinstance(x, ast.Return) and x.lineno == p.end[2] and isinstance(x.value, ast.Call) and isinstance(x.value.func, ast.Name)]:
                        if len(rs.value.args) >= 2 and U(rs.value.args[1]) == first:
                            sw_ = _sw(repo, rs.value.func.id)
                            ok = sw_ is not None and sw_["returns"] == "mapped" and bool(sw_["copies"])
                chk.require("C05.R16", f"{h.mi.rel}:{p.end[2]}", ok, f"{h.name} (registered for in-place {ip}) returns its first operand `{first}` (`{U(e)[:60] if e is not None else None}`)", h.name, f"in-place {ip} returns a fresh tensor",
                            f"x.{ip[0].split('.')[1]}(...) on a quantized x: x (and every alias of it) keeps its old value, only the returned tensor is updated")
    chk.floor("C05.R16", n_ip, 1, "handlers registered for in-place ops")
    mutation_rules(chk, hs)
    try:
        c07.accumulation(chk, {"qbytes_mm": repo.func("qbytes_mm")}, rule="C05.R15")
        c07.handler_accumulation(chk, rule="C05.R15")
    except AnalysisError:
        chk.unknown("C05.R15", "library/qbytes_mm.py", "default qbytes_mm not found")
    chk.sample({"handlers": [h.name for h in hs["qbytes"]]})
    chk.assume(
        "aten schemas (operand roles) and algebraic classes of aten ops are a table in qv/hand.py and qv/kinds.py",
        "ops without float8 CPU kernels: neg, relu, abs, cat, lt/gt/le/ge/eq/ne, mm, bmm (repo comments + torch 2.14)",
        "scales are positive (C01/C03): positively homogeneous ops commute with the scale",
    )


OPTIONAL_KW = {"aten.div": ["rounding_mode"], "aten.copy_": ["non_blocking"]}  # from the aten schemas (div.Tensor_mode, copy_)


_STORAGE_SHARING = ("detach", "view", "view_as", "reshape", "squeeze", "unsqueeze", "t", "transpose", "permute", "expand", "expand_as", "narrow", "select", "contiguous", "to", "type_as", "requires_grad_", "flatten", "unflatten", "alias")


def aliased_operand_field(repo, mi, e, fields, depth=2):
    """The operand field (`x._scale`, ...) whose OBJECT or storage the value of `e` may be, or None: the field itself, a storage-sharing method of
    it (`detach()`, views; `contiguous()` / `to()` return their receiver when nothing changes), a selection among candidates (`max(a, b)` of the
    builtins, `a if c else b`, `a or b`), or what a helper of the package returns on some path."""
    import ast
    from ..core import U, bind_call, paths_of
    if e is None:
        return None
    t = U(e)
    if t in fields:
        return t
    if isinstance(e, ast.Call):
        f = e.func
        if isinstance(f, ast.Attribute) and f.attr in _STORAGE_SHARING and not U(f.value).startswith("torch"):
            return aliased_operand_field(repo, mi, f.value, fields, depth)
        if isinstance(f, ast.Name) and f.id in ("max", "min") and len(e.args) >= 2:
            for a in e.args:
                r = aliased_operand_field(repo, mi, a, fields, depth)
                if r:
                    return r
            return None
        if isinstance(f, ast.Name) and depth > 0:
            r = repo.resolve(mi, f.id)
            if r is not None and isinstance(r[1], ast.FunctionDef) and not r[1].decorator_list:
                env = bind_call(r[1], e)
                if env is None:
                    return None
                try:
                    ps = paths_of(r[1], env)
                except Exception:
                    return None
                for p in ps:
                    if p.end[0] == "return" and p.end[1] is not None:
                        a = aliased_operand_field(repo, r[0], p.end[1], fields, depth - 1)
                        if a:
                            return a
        return None
    if isinstance(e, ast.Subscript) and isinstance(e.slice, ast.Constant) and isinstance(e.slice.value, int) and isinstance(e.value, ast.Call) and isinstance(e.value.func, ast.Name) and depth > 0:
        # helper(...)[k]: the k-th element of the tuples the helper returns
        r = repo.resolve(mi, e.value.func.id)
        if r is not None and isinstance(r[1], ast.FunctionDef) and not r[1].decorator_list:
            env = bind_call(r[1], e.value)
            if env is None:
                return None
            try:
                ps = paths_of(r[1], env)
            except Exception:
                return None
            for p in ps:
                ret = p.end[1] if p.end[0] == "return" else None
                if isinstance(ret, (ast.Tuple, ast.List)) and -len(ret.elts) <= e.slice.value < len(ret.elts):
                    a = aliased_operand_field(repo, r[0], ret.elts[e.slice.value], fields, depth - 1)
                    if a:
                        return a
        return None
    if isinstance(e, ast.IfExp):
        return aliased_operand_field(repo, mi, e.body, fields, depth) or aliased_operand_field(repo, mi, e.orelse, fields, depth)
    if isinstance(e, ast.BoolOp):
        for v in e.values:
            a = aliased_operand_field(repo, mi, v, fields, depth)
            if a:
                return a
    return None


def ownership_rule(chk, hs, rule="C05.R18", views=True):
    """(a) of C05.R18: while a handler writes scales / payloads in place, every handler result owns its scale and payload (or is a view of its
    operand's).  `views=False` leaves out the view handlers (their residual defect is recorded once, under C05).  Returns the number of obligations."""
    import ast
    from ..core import U, atoms, paths_of, positional_params
    from ..hand import is_ctor, ctor_fields
    repo = chk.repo
    qb = hs["qbytes"]
    # ---- (a) in-place scale writers vs shared scale objects
    writers, sharers = [], []
    for h in qb:
        inplace = [o for o in h.ops if o.split(".")[1].endswith("_")]
        opn = positional_params(h.fn)[0]
        for nd in ast.walk(h.fn):
            if inplace and isinstance(nd, ast.Call) and U(nd.func) == opn and nd.args and U(nd.args[0]).endswith("._scale"):
                writers.append((h, nd))
        if not inplace:
            tparams = [p_ for p_ in positional_params(h.fn)[1:]]
            for p in paths_of(h.fn):
                if p.end[0] == "return" and is_ctor(p.end[1]):
                    f = ctor_fields(repo, "QBytesTensor", p.end[1], raw=True)
                    al = aliased_operand_field(repo, h.mi, f["scale"], [f"{x}._scale" for x in tparams] + [f"{x}[{i_}]._scale" for x in tparams for i_ in (0, 1)]) if f else None
                    if al:
                        sharers.append((h, p.end[2], U(f["scale"]) if U(f["scale"]) == al else f"{U(f['scale'])[:50]} (may be {al})"))
                        break
    # the same for payloads: the scalar mul / div handlers wrap their operand's `_data` object with a new scale, and copy_ writes payloads in place
    dwriters, dsharers = [], []
    for h in qb:
        inplace = [o for o in h.ops if o.split(".")[1].endswith("_")]
        opn = positional_params(h.fn)[0]
        if inplace:
            for nd in ast.walk(h.fn):
                if isinstance(nd, ast.Call) and U(nd.func) == opn and nd.args and U(nd.args[0]).endswith("._data"):
                    dwriters.append((h, nd))
        else:
            tparams = positional_params(h.fn)[1:]
            for p in paths_of(h.fn):
                if p.end[0] == "return" and is_ctor(p.end[1]):
                    f = ctor_fields(repo, "QBytesTensor", p.end[1], raw=True)
                    # a payload that is the operand's own object (views made by the op itself are new tensor objects over shared storage: the aliasing ops)
                    al = None
                    if f and not (isinstance(f["data"], ast.Call) and U(f["data"].func) == opn):
                        al = aliased_operand_field(repo, h.mi, f["data"], [f"{x}._data" for x in tparams] + [f"{x}[{i_}]._data" for x in tparams for i_ in (0, 1)])
                    if al:
                        dsharers.append((h, p.end[2], U(f["data"]) if U(f["data"]) == al else f"{U(f['data'])[:50]} (may be {al})"))
                        break
    n = len(writers) + len(dwriters)
    for h, nd in dwriters:
        chk.ok(rule, f"{h.mi.rel}:{nd.lineno}", f"{h.name} writes a payload in place (`{U(nd)[:50]}`): every handler result must own its payload or be a view of its operand's ({len(dsharers)} handler(s) wrap their operand's payload object)")
    for h, line, txt in dsharers:
        n += 1
        chk.require(rule, f"{h.mi.rel}:{line}", not dwriters, f"{h.name} wraps its operand's payload object `{txt}` in its result under another scale, and {sorted({w.name for w, _ in dwriters})} write(s) payloads in place", h.name, "result shares its operand's payload object",
                    "r = q * 2.0; r.copy_(y) (or r.add_(1)): q is overwritten too (r and q hold the same `_data` tensor under different scales); q moves by 2.3 .. 3.7 where the float program leaves it unchanged")
    # one obligation per handler that hands its operand's scale object to its result while some handler writes scales in place.  The aliasing
    # handlers (views) are told apart: their payload is a view of the operand's, so a shared scale is what keeps both consistent - the
    # defect there is that a per-tensor scale cannot change for the written part only
    from ..hand import MOVE_OPS as _MOVES
    _ALIAS = {"aten.select", "aten.slice", "aten.transpose", "aten.view", "aten.unsqueeze", "aten.permute", "aten.expand", "aten.t", "aten.squeeze", "aten._unsafe_view", "aten.narrow", "aten.unbind", "aten.split", "aten.detach", "aten.alias",
              "aten.diagonal", "aten.unfold", "aten.as_strided", "aten.split_with_sizes", "aten.movedim", "aten.swapaxes", "aten.swapdims", "aten.view_as", "aten.reshape", "aten.flatten", "aten.unflatten", "aten.chunk", "aten.tensor_split", "aten.hsplit", "aten.vsplit", "aten.mT", "aten.mH", "aten.adjoint"}
    wnames = sorted({h.name for h, _ in writers})
    for h, nd in writers:
        chk.ok(rule, f"{h.mi.rel}:{nd.lineno}", f"{h.name} writes a scale in place (`{U(nd)[:50]}`): every handler result must own its scale ({len(sharers)} handler(s) examined hand their operand's)")
    for h, line, txt in sharers:
        is_view = all(o in _ALIAS for o in h.ops)
        if is_view and not views:
            continue
        n += 1
        if is_view:
            chk.require(rule, f"{h.mi.rel}:{line}", not writers, f"{h.name} (a view: {sorted(h.ops)[:3]}) shares `{txt}` with its operand, and {wnames} write(s) scales in place", h.name, "write through a per-tensor view rescales the whole operand",
                        "q[0:2].copy_(p[0:2]) rescales the rows of q that were not written (the view and q hold the same per-tensor scale)")
        else:
            chk.require(rule, f"{h.mi.rel}:{line}", not writers, f"{h.name} hands its operand's scale object `{txt}` to its result (a new tensor, not a view), and {wnames} write(s) scales in place", h.name, "result shares its operand's scale object",
                        "r = -q; r.copy_(p) (or r.add_(1)): q is rescaled too - r and q hold the same scale tensor")
    return n


def mutation_rules(chk, hs):
    import ast
    from ..core import U, atoms, paths_of, positional_params
    from ..hand import is_ctor, ctor_fields
    from ..handrules import writeback_fallback, schema_writeback
    repo = chk.repo
    qb = hs["qbytes"]
    n = ownership_rule(chk, hs, "C05.R18", views=True)
    # ---- (b) layout agreement before the first mutation of copy_
    for h in qb:
        if "aten.copy_" not in h.ops:
            continue
        dest, src = positional_params(h.fn)[1:3]
        for p in paths_of(h.fn):
            if p.end[0] != "return":
                continue
            muts = [ef for ef in p.effects if ef[0] == "store" and U(ef[1]) == dest]
            if not muts:
                continue
            n += 1
            facts = {a for c, t, ln in p.conds for a, tr in atoms(c, t) if tr}
            agree = any(("_scale.shape" in a or ".axis" in a) and dest in a and ("==" in a) for a in facts)
            chk.require("C05.R18", f"{h.mi.rel}:{muts[0][4]}", agree, f"{h.name}: the layouts of the two scales are compared before the destination is changed (facts: {sorted(facts)[:3]})", h.name, "copy_ mutates before the layouts are known to agree",
                        "per_tensor_q.copy_(per_axis_q) (or axis 0 <- axis -1): the codes are overwritten, then the scale copy raises a broadcast RuntimeError; the destination holds the new codes under its old scale")
    # ---- (d) a plain source is broadcast to the destination before it is quantized with the destination's (per-axis) scale
    for h in qb:
        if "aten.copy_" not in h.ops:
            continue
        dest, src = positional_params(h.fn)[1:3]
        for nd in ast.walk(h.fn):
            if isinstance(nd, ast.Call) and U(nd.func).endswith("Quantizer.apply") and nd.args:
                a0 = U(nd.args[0])
                n += 1
                chk.require("C05.R18", f"{h.mi.rel}:{nd.lineno}", a0 != src, f"{h.name}: the plain source is broadcast to the destination before quantization (`{a0[:40]}`)", h.name, "copy_ quantizes an un-broadcast source",
                            "per_axis_q.copy_(torch.tensor(0.5)) / copy_ of a row (8,) into an axis-0 (4, 8) destination: ValueError / IndexError from the quantizer, the float program broadcasts")
    # ---- (c) every tensor class intercepts copy_
    for table, cname in (("qbytes", "QBytesTensor"), ("qbits", "QBitsTensor")):
        has = any("aten.copy_" in h.ops for h in hs[table])
        n += 1
        chk.require("C05.R18", f"{repo.cls(cname).mod.rel}:{repo.cls(cname).node.lineno}", has, f"{cname}: aten.copy_ is intercepted", cname, f"{cname} lacks aten.copy_",
                    "q4.copy_(x) on a packed low-bit tensor: the fallback copies into a dequantized temporary and returns q4 unchanged, without an error")
    chk.floor("C05.R18", n, 3, "mutation obligations")
    # ---- optional arguments
    m = 0
    for h in qb:
        for o, kws in OPTIONAL_KW.items():
            if o in h.ops:
                m += 1
                names = {a.arg for a in h.fn.args.args + h.fn.args.kwonlyargs}
                ok = h.fn.args.kwarg is not None or all(k in names for k in kws)
                chk.require("C05.R19", f"{h.mi.rel}:{h.fn.lineno}", ok, f"{h.name} accepts {kws} of {o}", h.name, f"{h.name} rejects optional arguments of {o}",
                            "torch.div(q, 2., rounding_mode='floor') (even rounding_mode=None) / q.copy_(q2, non_blocking=True): TypeError, the float program is valid")
    # ---- (e) mutating operations that have no handler: the dispatch of the quantized tensor classes hands every op without a handler to qfallback,
    #      which runs it on dequantized temporaries - an in-place op (relu_, mul_, masked_fill_, zero_, out=...) then modifies a temporary and torch
    #      returns the untouched operand
    for cname in ("QBytesTensor", "QBitsTensor"):
        ci_ = repo.cls(cname)
        disp = ci_.own("__torch_dispatch__") if ci_ is not None else None
        if disp is None:
            continue
        falls_back = any(isinstance(x, ast.Call) and U(x.func) == "qfallback" for x in ast.walk(disp))
        # the mutation test has to govern the fallback: every path that returns qfallback(...) has decided "not mutating" on its way
        # helpers of the package that read the mutability of a schema (`written_arguments(op._schema)`): a test on their result is a mutability test
        mut_helpers = {f_.name for m_ in repo.modules.values() if m_.rel.startswith("optimum/") for f_ in ast.walk(m_.tree) if isinstance(f_, ast.FunctionDef)
                       and any(isinstance(x, ast.Attribute) and x.attr in ("is_write", "is_mutable") for x in ast.walk(f_)) and not f_.name.startswith("__") and f_.name != "qbytes_inplace_fallback"}

        def _is_mut_atom(a: str) -> bool:
            if any(f"{h_}(" in a for h_ in mut_helpers) and " and " not in a and " or " not in a:
                return True
            # a single test, not a conjunction that merely mentions it (the falsity of `is_mutable and <other>` says nothing about is_mutable)
            return any(k in a for k in ("is_mutable", "is_write", "alias_info", ".endswith('_')")) and " and " not in a and " or " not in a
        fb_paths = [p_ for p_ in paths_of(disp) if p_.end and p_.end[0] == "return" and isinstance(p_.end[1], ast.Call) and U(p_.end[1].func) == "qfallback"]
        tells_mutation = bool(fb_paths) and all(any(_is_mut_atom(str(a)) and pol is False for c, t, _ in p_.conds for a, pol in atoms(c, t)) for p_ in fb_paths)
        # ... and the write-back fallback, where there is one, leaves a quantized destination to the out-of-place fallback on no path
        for p_ in paths_of(disp):
            if p_.end and p_.end[0] == "return" and isinstance(p_.end[1], ast.Call):
                sw = schema_writeback(repo, U(p_.end[1].func))
                if sw is not None:
                    hname = U(p_.end[1].func)
                    site_ = f"{sw['mi'].rel}:{sw['fn'].lineno}"
                    n += 1
                    if not sw["copies"] and sw.get("other_copies"):
                        chk.unknown("C05.R18", site_, f"{hname}: a `copy_` at line {sw['other_copies'][0]} is not in a loop over the recorded destinations that the rule recognises: whether every destination is written is not decided")
                    elif not sw["copies"]:
                        chk.bad("C05.R18", site_, hname, "write-back fallback never writes back", f"NOT: {hname} re-issues the op on dequantized stand-ins but no `<destination>.copy_(...)` is found in a loop over the recorded destinations (list: {sw['pairs']})",
                                "q.relu_() / q.zero_() / q.masked_fill_(m, 0): the operand comes back unchanged, no error")
                    elif any(g for _, g in sw["copies"]):
                        chk.unknown("C05.R18", site_, f"{hname}: the write-back at line {sw['copies'][0][0]} is under a condition that is not a size test ({[g for _, g in sw['copies'] if g][0][:2]})")
                    else:
                        chk.ok("C05.R18", site_, f"{hname}: every recorded destination is copied into (line {sw['copies'][0][0]}), under size tests only")
                    q_ = sw["quant"]
                    n += 1
                    if q_ is None:
                        chk.unknown("C05.R18", site_, f"{hname}: the scale of the written-back values was not found (a `...Quantizer.apply(values, qtype, axis, scale)` in the helper or in one callee)")
                    else:
                        sc, dpar, qfn = q_
                        dscale = f"{dpar}._scale"
                        bounded = U(sc) == dscale or (isinstance(sc, ast.Call) and U(sc.func).split(".")[-1] in ("maximum", "max", "fmax", "where", "clamp", "clamp_min") and any(U(x) == dscale for x in ast.walk(sc)))
                        quotient = isinstance(sc, ast.BinOp) and not any(U(x) == dscale for x in ast.walk(sc))
                        what = f"{qfn.name}: the written-back values are quantized with `{U(sc)[:70]}`: bounded below by the destination's scale = {bounded}"
                        qsite = f"{sw['mi'].rel}:{qfn.lineno}"
                        if bounded:
                            chk.ok("C05.R18", qsite, what)
                        elif quotient:
                            chk.bad("C05.R18", qsite, hname, "written-back scale can be null", "NOT: " + what,
                                    "q.zero_() (or fill_(0), clamp_(0, 0), masked_fill_ of every element) leaves a null scale; q.copy_(x) / q[i] = x then quantize x with it: zeros instead of x (each step alone is within tolerance)")
                        else:
                            chk.unknown("C05.R18", qsite, what)
                        # a scale that may come out SMALLER than the destination's (a selection between the old scale and a fitted one) is the scale of the
                        # whole base when the destination is a view of a part of it: the helper has to tell such destinations apart
                        may_shrink = isinstance(sc, ast.Call) and U(sc.func).split(".")[-1] == "where" and any(U(x) == dscale for x in ast.walk(sc))
                        if may_shrink:
                            n += 1
                            tells_views = any(isinstance(x, ast.Attribute) and x.attr in ("untyped_storage", "storage_offset", "_base", "is_view", "_is_view", "data_ptr") for x in ast.walk(qfn))
                            chk.require("C05.R18", qsite, tells_views, f"{qfn.name}: the scale can be reduced (`{U(sc)[:50]}`) and destinations that are views of a part of another tensor are told apart: {tells_views}", hname, "shared scale of a partial view reduced",
                                        "q[0].fill_(0.1), q[0] /= 1.5, q.fill_diagonal_(0.5) on a per-tensor tensor: the other rows of q are read under the reduced scale (off by 2.2 for a step of 0.018)")
                    continue
                wb = writeback_fallback(repo, U(p_.end[1].func))
                # (g) the scale a written-back destination ends up with is bounded below by the one it had: `absmax(result) / qmax` alone is null for a null
                #     result (zero_, fill_(0), masked_fill_ of everything), and copy_ quantizes every later plain source with the destination's scale
                for kind, hp_ in wb or ():
                    if kind != "writeback" or hp_.end[1] is None:
                        continue
                    for c in ast.walk(hp_.end[1]):
                        if isinstance(c, ast.Call) and U(c.func).endswith("Quantizer.apply") and len(c.args) >= 4:
                            sc = c.args[3]
                            dests = {U(x.value) for x in ast.walk(hp_.end[1]) if isinstance(x, ast.Attribute) and x.attr == "copy_"} | {U(hp_.end[1])}
                            dscale = {f"{d}._scale" for d in dests}
                            bounded = U(sc) in dscale or (isinstance(sc, ast.Call) and U(sc.func).split(".")[-1] in ("maximum", "max", "fmax", "where", "clamp", "clamp_min") and any(U(x) in dscale for x in ast.walk(sc)))
                            quotient = isinstance(sc, ast.BinOp) and not any(U(x) in dscale for x in ast.walk(sc))
                            n += 1
                            site_ = f"{ci_.mod.rel}:{hp_.end[2]}"
                            what = f"{U(p_.end[1].func)}: the written-back result is quantized with `{U(sc)[:70]}`: bounded below by the destination's scale = {bounded}"
                            if bounded:
                                chk.ok("C05.R18", site_, what)
                            elif quotient:
                                chk.bad("C05.R18", site_, U(p_.end[1].func), "written-back scale can be null", "NOT: " + what,
                                        "q.zero_() (or fill_(0), clamp_(0, 0), masked_fill_ of every element) leaves a null scale; q.copy_(x) / q[i] = x then quantize x with it: zeros instead of x (each step alone is within tolerance)")
                            else:
                                chk.unknown("C05.R18", site_, what)
                            break
                for kind, hp_ in wb or ():
                    if kind != "fallback":
                        continue
                    plain = any(str(a).startswith("isinstance(") and ("QBytesTensor" in str(a) or "QTensor" in str(a) or "QBitsTensor" in str(a)) and pol is False for c, t, _ in hp_.conds for a, pol in atoms(c, t))
                    n += 1
                    chk.require("C05.R18", f"{ci_.mod.rel}:{hp_.end[2]}", plain, f"{U(p_.end[1].func)}: the out-of-place fallback is taken only when the destination is not a quantized tensor (`isinstance` decided false on the path: {plain})",
                                U(p_.end[1].func), "write-back fallback hands a quantized destination to qfallback",
                                "q.relu_() / q.zero_() / q.masked_fill_(m, 0): the operand comes back unchanged, no error")
        chk.require("C05.R18", f"{ci_.mod.rel}:{disp.lineno}", not falls_back or tells_mutation, f"{cname}.__torch_dispatch__: an op that writes into its operand is not answered by the out-of-place fallback (fallback: {falls_back}, mutation told apart: {tells_mutation})",
                    f"{cname}.__torch_dispatch__", "in-place op without a handler runs on a temporary",
                    "nn.ReLU(inplace=True) after a module with quantized activations (or q.relu_(), q.mul_(c), q += c, q.masked_fill_(m, 0), q.zero_()): the operand comes back unchanged, no error - Sequential(QLinear, ReLU(inplace=True), QLinear) is off by 0.38 where inplace=False is off by 0.005")
    # ---- (f) views of a per-axis tensor: the handlers of the aliasing ops return `op(x.dequantize(), ...)` - a view of a temporary - so a write through the
    #      view (q[0:2].copy_(v), q[0] = row, q.t().copy_(y)) never reaches q
    from ..hand import MOVE_OPS
    ALIASING = {"aten.select", "aten.slice", "aten.transpose", "aten.view", "aten.unsqueeze", "aten.permute", "aten.expand", "aten.t", "aten.squeeze", "aten._unsafe_view", "aten.narrow", "aten.unbind", "aten.split"}
    lost = []
    for h in qb:
        if not (set(h.ops) & ALIASING):
            continue
        x_ = positional_params(h.fn)[1]
        for p_ in paths_of(h.fn):
            e_ = p_.end[1]
            if p_.end[0] == "return" and isinstance(e_, ast.Call) and U(e_.func) == positional_params(h.fn)[0] and e_.args and U(e_.args[0]) == f"{x_}.dequantize()":
                lost.append((h, p_.end[2]))
                break
    for h, line_ in lost[:1]:
        chk.bad("C05.R18", f"{h.mi.rel}:{line_}", h.name, "view of a per-axis tensor is a view of a temporary", f"NOT: {len(lost)} handler(s) of aliasing ops ({sorted({o for h_, _ in lost for o in h_.ops & ALIASING if True} if False else {o for h_, _ in lost for o in set(h_.ops) & ALIASING})[:6]}) return the op applied to `{positional_params(h.fn)[1]}.dequantize()` for per-axis operands: the result does not alias the operand",
                "q[0:2].copy_(x), q[0] = row, q.select(-1, 1).copy_(col), q.transpose(0, 1).copy_(y) or q.view(-1).copy_(z) on a per-axis QBytesTensor: q.dequantize() is bit-identical before and after, no error (the same program on a per-tensor tensor writes the codes)")
    # ---- (f') aliasing aten ops that reach the dispatch and have no handler at all: the generic fallback applies them to a dequantized temporary,
    #      so the "view" they return never reaches the operand - whatever its quantization axis (one obligation per op of the table below:
    #      the view ops of native_functions.yaml that are not decomposed before the dispatch of a tensor subclass)
    VIEW_TABLE = ("aten.alias", "aten.as_strided", "aten.detach", "aten.diagonal", "aten.expand", "aten.permute", "aten.select", "aten.slice", "aten.split",
                  "aten.split_with_sizes", "aten.squeeze", "aten.t", "aten.transpose", "aten.unbind", "aten.unfold", "aten.unsqueeze", "aten.view", "aten._unsafe_view")
    handled = {o for h in qb for o in h.ops}
    disp_b = repo.cls("QBytesTensor").own("__torch_dispatch__")
    for o in VIEW_TABLE:
        n += 1
        chk.require("C05.R18", f"{repo.cls('QBytesTensor').mod.rel}:{disp_b.lineno}", o in handled, f"QBytesTensor: the aliasing op {o} has a handler (without one its result is a view of a dequantized temporary)", o, "aliasing op without a handler",
                    f"a write through the result of {o} on a per-tensor QBytesTensor (q.diagonal().zero_(), `for row in q: row.relu_()`, q.split([1, 3])[0].copy_(x), q.unfold(0, 2, 2)[0].zero_()): q is unchanged, no error")
    # ---- (h) the write-back fallback refuses what it cannot write: a raise there is a refusal of a valid float program
    for p_ in paths_of(disp_b):
        if p_.end and p_.end[0] == "return" and isinstance(p_.end[1], ast.Call):
            sw = schema_writeback(repo, U(p_.end[1].func))
            if sw is not None:
                for rs in [x for x in ast.walk(sw["fn"]) if isinstance(x, ast.Raise)]:
                    n += 1
                    chk.bad("C05.R18", f"{sw['mi'].rel}:{rs.lineno}", U(p_.end[1].func), "write-back fallback refuses an operation", f"NOT: {U(p_.end[1].func)} raises `{U(rs.exc)[:90] if rs.exc is not None else 're-raise'}`: a valid float program is refused (the property lists two documented refusals, this is neither)",
                            "q.unsqueeze_(0), q.squeeze_(), q.t_(), q.transpose_(0, 1), q.resize_(6, 4) (F.dropout1d(q, training=False, inplace=True) on an unbatched activation does unsqueeze_ ... squeeze_): RuntimeError, the wrapper cannot change its shape in place")
                break
    # positional overloads: aten.to reaches the dispatch undecomposed in inference mode, as to.dtype(self, dtype, non_blocking, copy, memory_format),
    # to.device(self, device, dtype, ...) or to.other(self, other, ...): a handler registered for it takes the extra positional arguments
    for table in ("qbytes", "qbits"):
        for h in hs[table]:
            if "aten.to" in h.ops:
                m += 1
                ok = h.fn.args.vararg is not None
                chk.require("C05.R19", f"{h.mi.rel}:{h.fn.lineno}", ok, f"{h.name} (registered for aten.to) accepts the positional arguments of the to.dtype / to.device / to.other overloads", h.name,
                            f"{h.name} rejects the positional overloads of aten.to",
                            "under torch.inference_mode(): q.to('cpu', torch.float16), q.to(torch.float16, non_blocking=True), q.to(other) or model.to('cpu', torch.float16) on a frozen model: TypeError `_to_copy() takes from 2 to 3 positional arguments`")
    chk.floor("C05.R19", m, 2, "handlers of ops with optional arguments")
    # ---- overloads with another meaning
    v = 0
    for h in qb:
        if "aten.view" in h.ops:
            v += 1
            guarded = any(isinstance(x, ast.Call) and U(x.func) == "isinstance" and len(x.args) == 2 and U(x.args[1]) == "torch.dtype" for x in ast.walk(h.fn))
            chk.require("C05.R20", f"{h.mi.rel}:{h.fn.lineno}", guarded, f"{h.name} tests for the dtype overload of view before it applies the op to the codes", h.name, "view(dtype) applied to the codes",
                        "q.view(torch.float32) on a per-tensor qint8 tensor of shape (4, 8): a (4, 2) 'qint8' tensor with a float32 payload; q.view(torch.uint8): a qint8 tensor holding uint8 codes (the float program reinterprets the float values)")
    chk.floor("C05.R20", v, 1, "view handlers")
