"""C12 - calibration scales are the configured-momentum average of batch absmax ranges (structural clauses)."""
import ast

from .. import poly, scales
from ..core import AnalysisError, U, atoms, bind_call, defaults_of, inline, paths_of, positional_params

TITLE = "Calibration scales are the configured-momentum average of batch absmax ranges"

RULES = {
    "C12.R1": "momentum provenance: the momentum reaching every EMA update is self.momentum, whose only definition is the constructor parameter",
    "C12.R2": "EMA term: momentum*old + (1-momentum)*new (as a polynomial identity); the new scale alone is returned exactly when the buffer still holds the marker it was created with, and that marker is not a value a measured scale can take",
    "C12.R3": "input hook: quantized input -> torch.max(input._scale); float input -> EMA(module.input_scale, absmax_scale(input, module.activation_qtype)) stored in module.input_scale",
    "C12.R4": "output hook: raw output of module.qforward(input[0]) (dequantized), absmax_scale(., activation_qtype, axis=None), EMA with and stored to module.output_scale, then module.forward(input[0]) returned",
    "C12.R5": "absmax_scale = max|x| / StorageRange(qtype.dtype).max, per-tensor when axis is None",
    "C12.R7": "every context calibrates: the hooks are registered on each entry of the mode object and released on each exit (the pairing rule C13.R1 re-checked) - a context entered without its hooks leaves the averages where they were",
    "C12.R6": "both hooks update scales only for QModuleMixin modules with activation_qtype not None, and are the hooks registered on entry",
}


def hooks_of(chk, ci):
    enter = ci.own("__enter__")
    if enter is None:
        raise AnalysisError("Calibration.__enter__ not found")
    pre = post = None
    # (the registrations may sit in a private method __enter__ calls: `self.hook_handles.append(self._register_hooks())`)
    nodes, seen, todo = [], set(), [enter]
    while todo:
        fn_ = todo.pop()
        if id(fn_) in seen:
            continue
        seen.add(id(fn_))
        for n in ast.walk(fn_):
            nodes.append(n)
            if isinstance(n, ast.Call) and isinstance(n.func, ast.Attribute) and isinstance(n.func.value, ast.Name) and n.func.value.id in ("self", "cls") and n.func.attr.startswith("_") and not n.func.attr.startswith("__"):
                m_ = chk.repo.method(ci, n.func.attr)
                if m_ is not None:
                    todo.append(m_[1])
    for n in nodes:
        if isinstance(n, ast.Call) and isinstance(n.func, ast.Name) and n.args:
            a = n.args[0]
            if isinstance(a, ast.Attribute) and U(a.value) == "self":
                r = chk.repo.resolve(ci.mod, n.func.id)
                full = chk.repo.qualify(ci.mod, n.func.id)
                if "register_module_forward_pre_hook" in (n.func.id, full):
                    pre = a.attr
                elif "register_module_forward_hook" in (n.func.id, full):
                    post = a.attr
    if pre is None or post is None:
        raise AnalysisError("Calibration.__enter__: hook registrations not found")
    return ci.own(pre), ci.own(post)


def run(chk):
    for k, v in RULES.items():
        chk.rule(k, v)
    repo = chk.repo
    ci = repo.cls("Calibration")
    mi = ci.mod
    pre, post = hooks_of(chk, ci)
    if pre is None or post is None:
        raise AnalysisError("hook methods not defined on Calibration")
    # -- the hook signatures: torch calls pre-hooks as hook(module, args) and hooks as hook(module, args, output)
    for fn, n in ((pre, 2), (post, 3)):
        ps = positional_params(fn)[1:]
        extra = ps[n:]
        ok = len(ps) >= n
        chk.require("C12.R6", f"{mi.rel}:{fn.lineno}", ok, f"{fn.name} accepts the {n} arguments torch passes to a global {'pre-' if n == 2 else ''}hook", f"Calibration.{fn.name}", "hook arity", "every forward under calibration (TypeError)")
    # -- self.momentum: single definition from the constructor parameter
    init = ci.own("__init__")
    stores = []
    for lst in repo.classes.values():
        for c in lst:
            for n in ast.walk(c.node):
                if isinstance(n, ast.Attribute) and n.attr == "momentum" and isinstance(n.ctx, ast.Store):
                    stores.append((c, n))
    init_ok = False
    for p in paths_of(init):
        for ef in p.effects:
            if ef[0] == "store" and U(ef[1]) == "self" and ef[2] == "momentum":
                init_ok = U(ef[3]) == "momentum" and "momentum" in [a.arg for a in init.args.args + init.args.kwonlyargs]
    chk.require("C12.R1", f"{mi.rel}:{init.lineno}", init_ok and len(stores) == 1, f"self.momentum is assigned once, from the constructor parameter `momentum` ({len(stores)} store(s) in the package)", "Calibration.__init__", "self.momentum definition", "Calibration(momentum=m) with m != the value actually stored")
    # -- EMA helper: the module-level function whose result is stored into module.<x>_scale
    # (the helper may also be a private method of the mode: such a method is kept as a call - not expanded - when a hook hands it a scale buffer and it
    #  does more than forward its arguments to another function)
    from .. import core as _core
    skip_of = {}
    for n_ in ci.node.body:
        if isinstance(n_, ast.FunctionDef) and n_.name.startswith("_") and not n_.name.startswith("__"):
            static = any(U(d) == "staticmethod" for d in n_.decorator_list)
            ps_ = positional_params(n_)[0 if static else 1:]
            handed = any(isinstance(c_, ast.Call) and isinstance(c_.func, ast.Attribute) and c_.func.attr == n_.name and c_.args and U(c_.args[0]) in ("module.input_scale", "module.output_scale")
                         for h_ in (pre, post) for c_ in ast.walk(h_))
            rets_ = [_val(r_.value) for r_ in ast.walk(n_) if isinstance(r_, ast.Return) and r_.value is not None]
            forwards = bool(rets_) and all(isinstance(r_, ast.Call) and r_.args and ps_ and U(r_.args[0]) == ps_[0] for r_ in rets_)
            if handed and not forwards and len(ps_) >= 3:
                skip_of[n_.name] = (n_, 0 if static else 1)
    added = set(skip_of) - set(_core.KEEP_METHODS)
    _core.KEEP_METHODS |= added
    ema_calls = []
    ema_skip = {}
    for fn in (pre, post):
        for p in paths_of(_with_boolean_helpers(fn), inline_helpers="methods"):
            for ef in p.effects:
                v_ = _val(ef[3]) if ef[0] == "store" and ef[2] in ("input_scale", "output_scale") else None
                if isinstance(v_, ast.Call) and isinstance(v_.func, ast.Name):
                    r = repo.resolve(mi, v_.func.id)
                    if r is not None and isinstance(r[1], ast.FunctionDef):
                        ema_calls.append((fn, p, ef, r[1]))
                elif isinstance(v_, ast.Call) and isinstance(v_.func, ast.Attribute) and v_.func.attr in skip_of and U(v_.func.value) in ("self", "cls", ci.name, "type(self)"):
                    ema_calls.append((fn, p, ef, skip_of[v_.func.attr][0]))
                    ema_skip[id(skip_of[v_.func.attr][0])] = skip_of[v_.func.attr][1]
    _core.KEEP_METHODS -= added
    emas = {id(x[3]): x[3] for x in ema_calls}
    chk.floor("C12.R1", len(emas), 1, "EMA helper functions reached from the hooks")
    if len(emas) > 1:
        chk.bad("C12.R2", f"{mi.rel}:{pre.lineno}", "Calibration", "hooks use different update helpers", f"input and output hooks update scales through different helpers {[f.name for f in emas.values()]}", "any history of two or more batches")
    seen_sites = set()
    for fn, p, ef, ema in ema_calls:
        call = _val(ef[3])
        b = bind_call(ema, call, skip_first=ema_skip.get(id(ema), 0))
        eparams = positional_params(ema)[ema_skip.get(id(ema), 0):]
        if b is None or len(eparams) < 3:
            chk.unknown("C12.R1", f"{mi.rel}:{ef[4]}", "EMA call not bindable")
            continue
        mom = U(b[eparams[2]])
        key = (fn.name, ef[2], mom)
        if key in seen_sites:
            continue
        seen_sites.add(key)
        chk.require("C12.R1", f"{mi.rel}:{ef[4]}", mom == "self.momentum", f"{fn.name}: momentum argument of the {ef[2]} update is `{mom}`", f"Calibration.{fn.name}", f"momentum argument of {ef[2]} update",
                    "Calibration(momentum=m) with m != 0.9 and at least two batches: the scale is averaged with another momentum")
        old = U(b[eparams[0]])
        chk.require("C12.R3" if fn is pre else "C12.R4", f"{mi.rel}:{ef[4]}", old == f"module.{ef[2]}", f"{fn.name}: EMA is seeded with the current `{old}` and stored to module.{ef[2]}", f"Calibration.{fn.name}", f"EMA old value for {ef[2]}", "two or more batches: the average is taken against another buffer")
    # -- R2: the EMA helper itself
    for ema in emas.values():
        emi = repo.module_of(ema)
        s, n, m = positional_params(ema)[ema_skip.get(id(ema), 0):][:3]
        ps = paths_of(ema)
        first = [p for p in ps if p.end[0] == "return" and U(p.end[1]) == n]
        rest_ = [p for p in ps if p.end[0] == "return" and p not in first]

        def atoms_of(p):
            return {(a, bool(t)) for c, tr, _ in p.conds for a, t in atoms(c, tr)}

        # the atom that is true on every first-batch path and false on every averaging path
        marker = None
        if first and rest_:
            common = set.intersection(*[{a for a, t in atoms_of(p) if t} for p in first]) & set.intersection(*[{a for a, t in atoms_of(p) if not t} for p in rest_])
            marker = sorted(common)[0] if common else None
        site2 = f"{emi.rel}:{ema.lineno}"
        witness_first = "the first batch of a calibration: scale averaged with the initial value of the buffer"
        if marker is None:
            chk.bad("C12.R2", site2, ema.name, "first-batch initialisation", f"NOT: {ema.name} has a path returning the new scale alone, taken exactly when the buffer is uninitialised (first={len(first)} averaging={len(rest_)} paths, no common discriminating condition)", witness_first)
        else:
            import re
            mm = re.fullmatch(r"torch\.all\((\w+) == (-?[\w.]+)\)|\((\w+) == (-?[\w.]+)\)\.all\(\)|torch\.equal\((\w+), torch\.ones_like\(\5\)\)", marker)
            if mm and (mm.group(1) or mm.group(3) or mm.group(5)) == s:
                k_txt = mm.group(2) or mm.group(4) or "1"
                init_vals = initial_scale_values(repo)
                try:
                    k = float(k_txt)
                except ValueError:
                    k = None
                if k is None or init_vals is None:
                    chk.unknown("C12.R2", site2, f"{ema.name}: first-batch test `{marker}`: marker value or initial buffer value not a literal ({k_txt}, {init_vals})")
                else:
                    chk.require("C12.R2", site2, all(v == k for v in init_vals), f"{ema.name}: returns the new scale alone exactly when `{marker}`, the value the buffers are created with ({sorted(set(init_vals))})", ema.name, "first-batch initialisation", witness_first)
                    import math
                    legit = k > 0 and math.isfinite(k)
                    chk.require("C12.R2", site2, not legit, f"{ema.name}: the uninitialised marker {k_txt} is not a value a measured scale can take (a scale is max|x|/qmax: any positive finite number)", ema.name, "first-batch marker is a legitimate scale value",
                                f"a batch whose max|x| equals qmax * {k_txt} exactly (e.g. absmax 127.0 for qint8) at any step: the buffer then looks uninitialised and the next batch REPLACES the average instead of being averaged into it")
            elif marker == s or marker.startswith(s + "."):
                chk.unknown("C12.R2", site2, f"{ema.name}: first-batch test `{marker}` on the buffer not recognised")
            else:
                # a flag handed in by the hooks: where does it live?
                flags = set()
                for fn_ in (pre, post):
                    local = {}
                    for nd in ast.walk(fn_):
                        if isinstance(nd, ast.Assign) and len(nd.targets) == 1 and isinstance(nd.targets[0], ast.Name):
                            local.setdefault(nd.targets[0].id, []).append(nd.value)
                    for nd in ast.walk(fn_):
                        if isinstance(nd, ast.Call) and isinstance(nd.func, ast.Name) and nd.func.id == ema.name:
                            b_ = bind_call(ema, nd)
                            for prm, val in (b_ or {}).items():
                                if prm in marker.replace("not ", "").split() or prm == marker:
                                    vals_ = local.get(val.id, [val]) if isinstance(val, ast.Name) else [val]
                                    flags.update(U(v_) for v_ in vals_)
                on_self = [f_ for f_ in flags if _state_owner(ast.parse(f_, mode="eval").body) == "self"]
                if on_self:
                    chk.bad("C12.R2", site2, ema.name, "first-batch state kept on the Calibration object", f"NOT: the first-batch flag `{marker}` = {sorted(flags)} belongs to the modules being calibrated (it is state of the Calibration object)",
                            "two successive Calibration contexts over the same model: the second one restarts the average from its own first batch and forgets the history")
                else:
                    chk.unknown("C12.R2", site2, f"{ema.name}: first-batch flag `{marker}` = {sorted(flags)}: persistence across contexts / reloads not decided")
        first_atom = marker
        want = poly.parse(f"{m} * {s} + {n} - {m} * {n}")
        rest = [p for p in ps if p.end[0] == "return" and p not in first]
        ok = len(rest) >= 1
        got_txt = ""
        for p in rest:
            got = poly.poly(p.end[1])
            got_txt = U(p.end[1])
            if got != want:
                ok = False
            if first_atom is not None and not any(a == first_atom and not t for c, tr, _ in p.conds for a, t in atoms(c, tr)):
                ok = False
        chk.require("C12.R2", f"{emi.rel}:{ema.lineno}", ok, f"{ema.name}: otherwise returns `{got_txt}` == {m}*{s} + (1-{m})*{n} as polynomials", ema.name, "EMA formula", "any second batch: the update is not the exponential moving average with the given momentum")
    # -- R3 / R6: the input hook
    _core.KEEP_METHODS |= added
    try:
        hook_paths(chk, repo, mi, pre, "input_scale", "C12.R3")
        hook_paths(chk, repo, mi, post, "output_scale", "C12.R4")
    finally:
        _core.KEEP_METHODS -= added
    # -- R5 absmax_scale
    absmax(chk)
    if chk.pid == "C12":
        from ..report import AliasedCheck
        from . import c13
        c13.pairing(AliasedCheck(chk, {"C13.R1": "C12.R7"}))
    chk.assume("torch calls global forward pre-hooks as hook(module, args) and forward hooks as hook(module, args, output)")


from ..core import with_boolean_helpers as _with_boolean_helpers  # noqa: E402


def guard_facts(p):
    f = {}
    for c, t, _ in p.conds:
        for a, pol in atoms(c, t):
            f[a] = pol
    return f


def _val(e):
    """The stored value without the wrappers that keep its numbers: x.detach(), x.clone(), x.contiguous()."""
    while isinstance(e, ast.Call) and isinstance(e.func, ast.Attribute) and not e.keywords and (
            (e.func.attr in ("detach", "clone", "contiguous") and not e.args) or (e.func.attr in ("to", "type") and len(e.args) == 1 and U(e.args[0]).endswith(".dtype"))):
        e = e.func.value  # `.to(x.dtype)` casts (back) to the dtype of a tensor: the scale the property asks for
    return e


def hook_paths(chk, repo, mi, fn, buf, rule):
    qn = f"Calibration.{fn.name}"
    n_store = 0
    for p in paths_of(_with_boolean_helpers(fn), inline_helpers="methods"):
        f = guard_facts(p)
        guarded = any(f.get(g) is True for g in ("isinstance(module, QModuleMixin)", "isinstance(module, (QModuleMixin,))")) and f.get("module.activation_qtype is None") is False
        for ef in p.effects:
            if ef[0] == "store" and ef[2] in ("input_scale", "output_scale") and U(ef[1]) in ("module",):
                n_store += 1
                chk.require("C12.R6", f"{mi.rel}:{ef[4]}", guarded, f"{fn.name}: store to module.{ef[2]} is under isinstance(module, QModuleMixin) and activation_qtype is not None", qn, f"unguarded store to {ef[2]}", "a module without quantized activations (or a non-quantized module) run under calibration")
                chk.require(rule, f"{mi.rel}:{ef[4]}", ef[2] == buf, f"{fn.name} stores into module.{ef[2]} (expected module.{buf})", qn, f"{fn.name} target buffer", "any calibration: the wrong buffer is updated")
                v = _val(ef[3])
                vt = U(v)
                if buf == "input_scale":
                    if f.get("isinstance(input[0], QBytesTensor)") is True:
                        chk.require(rule, f"{mi.rel}:{ef[4]}", vt == "torch.max(input[0]._scale)", f"{fn.name}: a quantized input hands over its scale: `{vt}`", qn, "adopt quantized input scale", "a module fed by a quantized tensor")
                    else:
                        ok = isinstance(v, ast.Call) and len(v.args) >= 2 and U(v.args[1]) in ("absmax_scale(input[0], module.activation_qtype)", "absmax_scale(input[0], module.activation_qtype, None)", "absmax_scale(input[0], module.activation_qtype, axis=None)", "absmax_scale(input[0], qtype=module.activation_qtype)")
                        chk.require(rule, f"{mi.rel}:{ef[4]}", ok, f"{fn.name}: a float input is measured by absmax_scale(input[0], module.activation_qtype): `{vt[:90]}`", qn, "float input measured by absmax_scale", "a float batch: the range is taken from another tensor or for another qtype")
                else:
                    # raw output: module.qforward(input[0]), dequantized when quantized
                    ok = False
                    if isinstance(v, ast.Call) and len(v.args) >= 2:
                        new = v.args[1]
                        nb = bind_call(repo.func("absmax_scale")[1], new) if isinstance(new, ast.Call) and U(new.func) == "absmax_scale" else None
                        if nb is not None:
                            src = U(nb["base"])
                            raw = "module.qforward(input[0])"
                            quantized_branch = f.get(f"isinstance({raw}, QBytesTensor)")
                            want = f"{raw}.dequantize()" if quantized_branch else raw
                            ok = src == want and U(nb["qtype"]) == "module.activation_qtype" and U(nb["axis"]) == "None" and quantized_branch is not None
                    if not ok and isinstance(v, ast.Call) and len(v.args) >= 2 and f.get("isinstance(module.qforward(input[0]), QBytesTensor)") is True \
                            and any(isinstance(x, ast.Call) and isinstance(x.func, ast.Name) and x.func.id.startswith("_") for x in ast.walk(v.args[1])):
                        # a quantized raw output measured on its codes by a private helper (an alternative route that may decline): not followed
                        chk.unknown(rule, f"{mi.rel}:{ef[4]}", f"{fn.name}: the range of a quantized raw output is computed by `{U(v.args[1])[:60]}`: not followed")
                        continue
                    chk.require(rule, f"{mi.rel}:{ef[4]}", ok, f"{fn.name}: output range is absmax_scale(raw qforward output (dequantized if quantized), module.activation_qtype, axis=None): `{vt[:110]}`", qn, "raw output measured by absmax_scale", "any batch: the range is measured on the already quantized (saturated) output or for another qtype")
        if guarded and p.end[0] in ("return", "fall"):
            stored_here = any(ef[0] == "store" and ef[2] == buf and U(ef[1]) == "module" for ef in p.effects)
            conds = " & ".join(p.cond_texts())[:140]
            chk.require(rule, f"{mi.rel}:{p.end[2]}", stored_here, f"{fn.name}: module.{buf} is updated on this path ({conds})", qn, f"batch skipped for {buf}",
                        f"a batch that takes this path (e.g. an all-zero raw output, a zero range): it is left out of the moving average of {buf}, and an all-zero first batch no longer initialises it")
        if buf == "output_scale" and guarded and p.end[0] in ("return", "fall"):
            ret = U(p.end[1]) if p.end[1] is not None else "None"
            chk.require(rule, f"{mi.rel}:{p.end[2]}", ret == "module.forward(input[0])", f"{fn.name}: returns the output re-evaluated with the updated scale: `{ret}`", qn, "hook returns re-evaluated output", "any calibrated forward: downstream modules see an output quantized with the stale scale")
        if buf == "input_scale" and guarded and p.end[0] in ("return", "fall"):
            ret = U(p.end[1]) if p.end[1] is not None else "None"
            chk.require(rule, f"{mi.rel}:{p.end[2]}", ret in ("input[0]", "None", "input", "(input[0],)"), f"{fn.name}: returns the unmodified input (`{ret}`)", qn, "pre-hook returns input", "any calibrated forward: the module receives another input")
    chk.floor(rule, n_store, 1, f"stores to module.{buf}")


def absmax(chk):
    repo = chk.repo
    mi, fn = repo.func("absmax_scale")
    base, qt, axis = positional_params(fn)[:3]
    d = defaults_of(fn)
    chk.require("C12.R5", f"{mi.rel}:{fn.lineno}", U(d.get(axis)) == "None", f"absmax_scale: axis defaults to None (per-tensor)", "absmax_scale", "axis default", "absmax_scale(x, qtype) called by the input hook")
    n = 0
    for p in paths_of(fn):
        if p.end[0] != "return":
            continue
        e = p.end[1]
        site = f"{mi.rel}:{p.end[2]}"
        e, floors = scales.peel_floor(e)
        if floors:
            chk.bad("C12.R5", site, "absmax_scale", "scale has a lower bound", f"absmax_scale floors the scale ({floors}): the calibrated scale is not max|x|/qmax for small-magnitude batches", "a batch whose absmax is below qmax x floor")
        if isinstance(e, ast.BinOp) and isinstance(e.op, ast.Div) and scales.alternative_route(p, e.left):
            chk.unknown("C12.R5", site, f"absmax_scale: on the path [{' & '.join(p.cond_texts())[:80]}] the range `{U(e.left)[:50]}` comes from an alternative route (a helper that may decline, partial reductions, the codes of a quantized operand): not followed")
            continue
        if not (isinstance(e, ast.BinOp) and isinstance(e.op, ast.Div)):
            chk.bad("C12.R5", site, "absmax_scale", "scale is a quotient", f"absmax_scale returns `{U(e)[:80]}`, not range / qmax", "any tensor")
            continue
        n += 1
        r = scales.reduction(e.left)
        q = scales.storage_max_of(inline(repo, mi, e.right))
        is_none = p.holds(f"{axis} is None")
        ok_q = q == f"{qt}.dtype" and isinstance(e.right, ast.Attribute) and e.right.attr == "max"
        chk.require("C12.R5", site, ok_q, f"absmax_scale divides by the maximum of the storage range of {qt}.dtype (`{U(e.right)}`)", "absmax_scale", "divisor is storage max", "any qtype whose maximum is not the hard-coded divisor: activations saturate or waste range")
        if r is None:
            chk.bad("C12.R5", site, "absmax_scale", "range is a max reduction", f"numerator `{U(e.left)[:60]}` is not a max/amax reduction", "any tensor")
            continue
        ok_abs = r.n_abs >= 1 and r.source == base
        chk.require("C12.R5", site, ok_abs, f"absmax_scale reduces |{base}| (abs applied {r.n_abs}x to `{r.source}`)", "absmax_scale", "abs before max", "a tensor whose largest magnitude is negative: it saturates")
        if is_none is True:
            chk.require("C12.R5", site, r.dim is None and r.reduce in ("max", "amax"), f"axis None: full reduction `{r.reduce}` without dim", "absmax_scale", "per-tensor reduction", "any batch: per-tensor scale is not the global maximum")
    chk.floor("C12.R5", n, 2, "absmax_scale return paths")


def initial_scale_values(repo):
    """Literal values the activation-scale buffers are registered with in QModuleMixin.__init__ (None if not literal)."""
    ci = repo.cls("QModuleMixin")
    init = ci.own("__init__")
    vals = []
    for p in paths_of(init):
        for ef in p.effects:
            if ef[0] == "expr" and isinstance(ef[1], ast.Call) and U(ef[1].func).endswith(".register_buffer") and len(ef[1].args) >= 2 and isinstance(ef[1].args[0], ast.Constant) and ef[1].args[0].value in ("input_scale", "output_scale"):
                v = ef[1].args[1]
                if isinstance(v, ast.Call) and U(v.func) in ("torch.ones", "torch.zeros"):
                    vals.append(1.0 if U(v.func) == "torch.ones" else 0.0)
                elif isinstance(v, ast.Call) and U(v.func) in ("torch.full", "torch.tensor") and v.args and isinstance(v.args[-1 if U(v.func) == "torch.full" else 0], ast.Constant):
                    vals.append(float(v.args[-1 if U(v.func) == "torch.full" else 0].value))
                else:
                    return None
    return vals or None


def _state_owner(e):
    """Leftmost name of the object whose state an expression reads (`self.m(x)` -> self, `getattr(o, 'a')` -> o, `module.f is None` -> module)."""
    while True:
        if isinstance(e, ast.Compare):
            e = e.left
        elif isinstance(e, ast.UnaryOp):
            e = e.operand
        elif isinstance(e, ast.BoolOp):
            e = e.values[0]
        elif isinstance(e, ast.Call):
            if isinstance(e.func, ast.Name) and e.func.id in ("getattr", "hasattr", "bool") and e.args:
                e = e.args[0]
            else:
                e = e.func
        elif isinstance(e, (ast.Attribute, ast.Subscript)):
            e = e.value
        elif isinstance(e, ast.Name):
            return e.id
        else:
            return None
