"""C07 - quantized matmul/linear kernels compute scale-corrected products on every path (structural clauses)."""
import ast
import itertools

from .. import labels as lb
from ..core import AnalysisError, U, atoms, bind_call, path_facts, paths_of, positional_params
from ..labels import L, ONE, Q, T, Interp, Obj, batch
from ..registries import handlers, library, qtype_table

TITLE = "Quantized matmul/linear kernels compute scale-corrected products on every path"

RULES = {
    "C07.R1": "label typing: for batch ranks 1..3 every route returns (*batch, out); contractions and scale broadcasts line up; view(-1, in) is undone by view(shape[:-1] + (out,))",
    "C07.R2": "data/scale pairing: each operand whose raw payload reaches a compute primitive has its scale multiplied into the result exactly once",
    "C07.R3": "accumulation dtype: a product of two raw-code operands is promoted to float32 for every pair of 8-bit storage dtypes of the qtype table",
    "C07.R4": "every route casts its result to the scale (activation) dtype last",
    "C07.R7": "operand invariant: every handler that re-lays out a per-axis tensor (t/transpose, cat/stack, moves, copy_) keeps the declared axis and the scale together, so the axis the matmul guards read is where the scale lies",
    "C07.R8": "the kernels are pure: no write to an operand (or to anything outside the call) is reachable from the linear function, the mm/bmm handlers or the library implementations - a scale updated in place makes the second evaluation differ from the reference (the effect rule C13.R3)",
    "C07.R10": "the product of two scales is formed in float32: both factors are converted before they are multiplied (each scale is ~1e-2..1e-4, so their float16 product is subnormal or zero and loses most of its bits)",
    "C07.R9": "every batch shape and memory layout: the kernel helpers and the linear function flatten their operands with reshape, never with view (an operand arrives with whatever stride the caller's tensor has)",
    "C07.R5": "primitive preconditions: every call site of torch._int_mm / torch._weight_int8pack_mm carries the preconditions of the platform table; every route falls through to the default implementation",
    "C07.R6": "the bias is added once, after scaling",
}

HELPERS = ("qbytes_mm", "qbytes_int_mm", "qbytes_int8pack_mm")


def weight_scales():
    """(description, scale labels, axis) of a (out, in) weight"""
    return [("per-axis(0)", (L("out"), ONE), 0), ("per-tensor", (), None)]


def run(chk):
    for k, v in RULES.items():
        chk.rule(k, v)
    repo = chk.repo
    mi = None
    fns = {}
    for name in HELPERS:
        try:
            m, f = repo.func(name)
        except AnalysisError:
            chk.unknown("C07.R1", "library/qbytes_mm.py", f"helper {name} not found")
            continue
        fns[name] = (m, f)
    chk.floor("C07.R1", len(fns), 3, "matmul helper routes")
    ranks = (1, 2, 3) if chk.tier == "quick" else (1, 2, 3, 4, 5)
    helper_nodes = {n: f for n, (m, f) in fns.items()}
    # ---- (a) helpers alone
    for name, (m, f) in fns.items():
        typed = 0
        for r in ranks:
            for sdesc, slabels, _ in weight_scales():
                a = T(batch(r) + (L("in"),), "code", "activations", {"act"})
                w = T((L("out"), L("in")), "code", "weights", {"w"})
                s = T(slabels, "float", "scales", (), ("act", "w"))
                if name == "qbytes_int8pack_mm":
                    a = T(batch(r) + (L("in"),), "float", "activations")
                    s = T(slabels, "float", "scales", (), ("w",))
                    if slabels == ():
                        continue  # a per-tensor scale only arises for out == 1; flatten() of a 0-d tensor has one element
                a.strides = {"stride0", "lastdim", "unaligned", "unitstride"}  # the caller's activations: expanded, transposed, sliced - any strides, any storage offset
                w.strides = {"stride0", "lastdim", "unaligned"}  # and so are the weights of the functional API (quantize_weight keeps the layout of its argument; a reloaded weight is a view of the file)
                want = batch(r) + (L("out"),)
                typed += check_results(chk, m, f, name, Interp(f, dict(zip(positional_params(f), (a, w, s))), helper_nodes).run(), want, f"rank {r + 1} activations, {sdesc} scales")
        chk.floor("C07.R1", typed, 1, f"{name} typed instances")
    # ---- (b) registered implementations
    _, impls = library(repo)
    defines, _ = library(repo)
    defined = {q for _, q, _, _ in defines}
    all_routes = [li for li in impls if li.qualname.endswith("::qbytes_mm")]
    routes = [li for li in all_routes if li.qualname in defined]
    for li in all_routes:
        if li.qualname not in defined:
            chk.ok("C07.R5", f"{li.mi.rel}:{li.fn.lineno}", f"NOTE: {li.fn.name} is registered for `{li.qualname}` which is never defined: dead route, not reachable from torch.ops.quanto.qbytes_mm, not analysed")
    chk.floor("C07.R5", len(routes), 3, "registered qbytes_mm implementations")
    keys = {k for li in routes for k in li.keys}
    chk.require("C07.R5", "library/qbytes_mm.py", "default" in keys, f"a default implementation of quanto::qbytes_mm is registered (keys {sorted(keys)})", "qbytes_mm", "default implementation registered", "any device without a dedicated route")
    for li in routes:
        key = "/".join(li.keys)
        for r in ranks:
            for sdesc, slabels, _ in weight_scales():
                a = T(batch(r) + (L("in"),), "code", "activations", {"act"})
                a.strides = {"stride0", "lastdim", "unaligned", "unitstride"}
                w = T((L("out"), L("in")), "code", "weights", {"w"})
                w.strides = {"stride0", "lastdim", "unaligned"}
                s = T(slabels, "float", "scales", (), ("act", "w"))
                res = Interp(li.fn, dict(zip(positional_params(li.fn), (a, w, s))), helper_nodes).run()
                # routes that dequantize the activation drop its code: the int8pack route is typed with a plain activation above
                res = [x for x in res if not (x[0] == "typeerr" and "not matched by its scales" in x[1])]
                want = batch(r) + (L("out"),)
                ok_r = [x for x in res if not (x[0] == "raise")]
                chk.require("C07.R5", f"{li.mi.rel}:{li.fn.lineno}", bool(ok_r) and not any(x[0] == "raise" and "assert" in str(x[1]).lower() for x in res) or bool(ok_r) and len(ok_r) == len(res),
                            f"{li.fn.name}[{key}] accepts activations of rank {r + 1} ({sdesc} scales): {len(ok_r)} of {len(res)} paths return", f"{li.fn.name}[{key}]", f"route refuses activations of rank {r + 1}",
                            f"a quantized linear on a rank-{r + 1} activation on that device: AssertionError while the other routes return the reference")
                check_results(chk, li.mi, li.fn, f"{li.fn.name}[{key}]", ok_r, want, f"rank {r + 1}, {sdesc} scales", pairing=False)
    route_guards(chk, routes, fns)
    accumulation(chk, fns)
    handler_accumulation(chk)
    linear_forward(chk, helper_nodes)
    mm_handlers(chk)
    from ..core import views_on_inputs
    n9 = 0
    targets9 = [(m, f, name) for name, (m, f) in fns.items()]
    lci = repo.cls("QTensorLinear")
    if lci.own("forward") is not None:
        targets9.append((lci.mod, lci.own("forward"), "QTensorLinear.forward"))
    for m9, f9, nm9 in targets9:
        n9 += 1
        vs = views_on_inputs(f9)
        chk.require("C07.R9", f"{m9.rel}:{f9.lineno}", not vs, f"{nm9}: operands are flattened with reshape ({[U(v)[:40] for v in vs]})", nm9, "view on an operand",
                    "non-contiguous activations (x.transpose(1, 2) fed to a quantized linear): RuntimeError `view size is not compatible` where the float linear works")
    chk.floor("C07.R9", n9, 3, "kernel functions scanned for view()")
    scale_products(chk)
    if chk.pid == "C07":
        bias_before_narrowing(chk)
    if chk.pid == "C07":
        operand_invariants(chk)
        from ..effects import EffectGraph
        from ..report import AliasedCheck
        from . import c13
        c13.inference_effects(AliasedCheck(chk, {"C13.R3": "C07.R8"}), EffectGraph(repo))
    chk.assume(
        "row-major reshape/view, documented semantics of t/matmul/broadcast/sum",
        "platform table (torch 2.x CUDA: _int_mm needs int8 x int8, rows > 16, rows/inner/outer multiples of 8; sandbox torch 2.14 CPU: _int_mm wrong for inner size 1, _weight_int8pack_mm needs bfloat16 plain activations, int8 weights and inner size a multiple of 16) - established by probing once, not derivable from quanto's sources",
    )


def check_results(chk, mi, fn, qual, results, want, what, pairing=True):
    n = 0
    site = f"{mi.rel}:{fn.lineno}"
    for status, val, trace in results:
        path = ", ".join(f"{'' if v else 'not '}{t[:40]}" for t, v in trace) or "straight"
        if status == "unknown":
            chk.unknown("C07.R1", site, f"{qual} ({what}; {path}): {val}")
        elif status == "typeerr":
            rule = "C07.R2" if "not matched by its scales" in val else ("C07.R5" if "(platform table" in val and ("without contiguous()" in val or "16-byte aligned" in val) else "C07.R1")
            fails = f"{what}: shapes that only line up when the symbolic sizes coincide (e.g. square matrices) give silently wrong values, others raise"
            if "16-byte aligned" in val:
                fails = ("a frozen bfloat16 model with qint8 weights saved with safe_save and reloaded with safe_load (the tensors are views of the mapped file at unaligned offsets): "
                         "the first forward dies with SIGSEGV; the same model reloaded through torch.save / torch.load returns the saved model's outputs")
            chk.bad(rule, site, qual, f"{qual}: {_gen(val)}", f"{qual} ({what}; path: {path}): {val}", fails)
        elif status == "raise":
            continue
        else:
            n += 1
            if not isinstance(val, T):
                chk.bad("C07.R1", site, qual, f"{qual}: non-tensor result", f"{qual} ({what}) returns {val!r}", what)
                continue
            if val.labels != tuple(want):
                chk.bad("C07.R1", site, qual, f"{qual}: result labels", f"{qual} ({what}; path: {path}) returns {val}, expected {T(want)}", f"{what}: the output is laid out along the wrong dimensions")
                continue
            chk.ok("C07.R1", site, f"{qual} ({what}; {path[:60]}): result {val}")
            if pairing:
                if val.balanced():
                    chk.ok("C07.R2", site, f"{qual} ({what}): raw payloads {sorted(val.codes)} matched by scales {list(val.scales)}")
                else:
                    chk.bad("C07.R2", site, qual, f"{qual}: payload/scale pairing", f"{qual} ({what}; path: {path}): raw payloads {sorted(val.codes)} but scales applied {list(val.scales)}",
                            "any input: the result is off by a missing or doubled scale factor (invisible to cosine similarity for per-tensor scales)")
    return n


def _gen(msg: str) -> str:
    """a line-free, size-free tag for a typing error"""
    import re
    return re.sub(r"\([^()]*\)", "<T>", msg)[:90]


# ---------------------------------------------------------------------------------------------
def _calls(fn, names):
    return [n for n in ast.walk(fn) if isinstance(n, ast.Call) and U(n.func) in names]


def _has_mod_fact(f, var, k_min, mult=None):
    for t, v in f.items():
        # `x % k == 0` holds, `x % k != 0` fails, or the remainder itself is tested for truth (`not x % k`)
        body = None
        if v is True and t.startswith(f"{var} % ") and t.endswith(" == 0"):
            body = t[len(var) + 3: -5]
        elif v is False and t.startswith(f"{var} % ") and t.endswith(" != 0"):
            body = t[len(var) + 3: -5]
        elif v is False and t.startswith(f"{var} % ") and t[len(var) + 3:].isdigit():
            body = t[len(var) + 3:]
        if body is not None:
            try:
                k = int(body)
            except ValueError:
                continue
            if mult is not None and k % mult == 0:
                return True
            if mult is None and k >= k_min:
                return True
    return False


def route_guards(chk, routes, fns):
    """C07.R5 must-check-before-call + fall-through, C07.R4 result dtype."""
    for li in routes:
        key = "/".join(li.keys)
        ps = paths_of(li.fn)
        a, w, s = positional_params(li.fn)[:3]
        n_default = 0
        for p in ps:
            if p.end[0] != "return":
                continue
            e = p.end[1]
            f = path_facts(p)
            site = f"{li.mi.rel}:{p.end[2]}"
            callee = U(e.func) if isinstance(e, ast.Call) else None
            qual = f"{li.fn.name}[{key}]"
            infeat = f"{a}.shape[-1]"
            outfeat = f"{w}.shape[0]"
            if callee == "qbytes_mm":
                n_default += 1
                chk.ok("C07.R5", site, f"{qual}: falls through to the default implementation on path [{' & '.join(p.cond_texts())[:80]}]")
                chk.require("C07.R4", site, [U(x) for x in e.args] == [a, w, s], f"{qual}: default route receives (activations, weights, scales) unchanged", qual, "default route arguments", "any call on this path")
            elif callee == "qbytes_int_mm":
                int8 = f.get(f"{a}.dtype == torch.int8") is True and f.get(f"{w}.dtype == torch.int8") is True
                chk.require("C07.R5", site, int8, f"{qual}: integer GEMM only for int8 x int8", qual, "int_mm dtype guard", "float8 or float activations reach torch._int_mm (RuntimeError)")
                if "CUDA" in li.keys:
                    tokens_ok = any(v is True and t.endswith(" > 16") for t, v in f.items()) and any(v is True and " % 8 == 0" in t and ("shape[0]" in t) for t, v in f.items())
                    ok = tokens_ok and _has_mod_fact(f, infeat, 8, 8) and _has_mod_fact(f, outfeat, 8, 8)
                    chk.require("C07.R5", site, ok, f"{qual}: CUDA integer GEMM guarded by rows > 16 and rows/in/out multiples of 8", qual, "cuda int_mm size guards", "a CUDA batch of 16 rows or feature sizes that are not multiples of 8 (cuBLASLt error)")
                if "CPU" in li.keys:
                    ok = any(v is True and t in (f"{infeat} > 1", f"{infeat} >= 2") for t, v in f.items()) or _has_mod_fact(f, infeat, 2)
                    chk.require("C07.R5", site, ok, f"{qual}: CPU integer GEMM guarded against inner size 1", qual, "cpu int_mm inner size guard", "qint8 activations x qint8 weights with in_features == 1 and out_features > 1 on CPU: torch._int_mm returns wrong sums")
                chk.require("C07.R4", site, [U(x) for x in e.args] == [a, w, s], f"{qual}: integer route receives (activations, weights, scales) unchanged", qual, "int route arguments", "any call on this path")
            elif callee == "qbytes_int8pack_mm":
                bf = f.get(f"{a}.dtype == torch.bfloat16") is True and f.get(f"{w}.dtype == torch.int8") is True
                chk.require("C07.R5", site, bf, f"{qual}: int8-pack GEMM only for bfloat16 activations x int8 weights", qual, "int8pack dtype guard", "other dtypes reach torch._weight_int8pack_mm")
                args = [U(x) for x in e.args]
                plain = args[0] == a and f.get(f"type({a}) == torch.Tensor") is True or args[0] == f"{a}.dequantize()" and f.get(f"type({a}) == torch.Tensor") is False
                chk.require("C07.R5", site, plain and args[1:] == [w, s], f"{qual}: int8-pack GEMM receives a plain (dequantized) activation: {args[0]}", qual, "int8pack plain activation", "a quantized bfloat16 activation subclass reaches the primitive")
                if "CPU" in li.keys:
                    ok = _has_mod_fact(f, infeat, 16, 16)
                    chk.require("C07.R5", site, ok, f"{qual}: CPU int8-pack GEMM guarded by in_features % 16 == 0", qual, "cpu int8pack inner size guard", "QLinear(8, 3) in bfloat16 with qint8 weights and a float input: segfault in torch._weight_int8pack_mm (any in_features % 16 != 0)")
            else:
                chk.unknown("C07.R5", site, f"{qual}: returns `{U(e)[:60]}`")
        chk.require("C07.R5", f"{li.mi.rel}:{li.fn.lineno}", n_default >= 1, f"{li.fn.name}[{key}] has a fall-through to the default implementation", f"{li.fn.name}[{key}]", "no default fall-through", "any configuration outside the optimised route's guards")
    # R4 in helpers: the value returned is cast to the scale dtype (or produced by the bf16 primitive)
    for name, (m, fn) in fns.items():
        s = positional_params(fn)[2]
        for p in paths_of(fn):
            if p.end[0] != "return":
                continue
            e = p.end[1]
            site = f"{m.rel}:{p.end[2]}"
            t = U(e)
            ok = _has_scale_dtype(chk.repo, m, fn, e, s, 2)
            if ok is None:
                chk.unknown("C07.R4", site, f"{name}: whether `...{t[-50:]}` has the dtype of the scales is not decided (a helper whose results this rule does not follow)")
            else:
                chk.require("C07.R4", site, ok, f"{name}: result cast to the scale dtype last (`...{t[-40:]}`)", name, "result dtype", "float16/bfloat16 activations: the output comes back in float32 / int32")


def _has_scale_dtype(repo, mi, fn, e, s, depth):
    """Does the expression have the dtype of the scales `s`?  True / False / None (not decided).  Followed through shape-only methods, through a local bound
    to an allocation with `dtype=s.dtype`, and through the return paths of a package helper that is handed the scales."""
    t = U(e)
    if isinstance(e, ast.Call) and isinstance(e.func, ast.Attribute) and e.func.attr == "to" and [U(x) for x in e.args] == [f"{s}.dtype"]:
        return True
    if "torch._weight_int8pack_mm(" in t:
        return True
    if isinstance(e, ast.Call) and isinstance(e.func, ast.Attribute) and e.func.attr in ("view", "reshape", "contiguous", "flatten", "squeeze", "unsqueeze"):
        return _has_scale_dtype(repo, mi, fn, e.func.value, s, depth)
    if isinstance(e, ast.Call) and U(e.func) in ("torch.empty", "torch.zeros", "torch.ones", "torch.full", "torch.empty_like", "torch.zeros_like"):
        return any(k.arg == "dtype" and U(k.value) == f"{s}.dtype" for k in e.keywords)
    if isinstance(e, ast.Call) and isinstance(e.func, ast.Name) and depth > 0:
        r = repo.resolve(mi, e.func.id)
        if r is not None and isinstance(r[1], ast.FunctionDef) and r[0].rel.startswith("optimum/"):
            b = bind_call(r[1], e)
            if b is None:
                return None
            ps_ = [k for k, v in b.items() if isinstance(v, ast.AST) and U(v) == s]
            if len(ps_) != 1:
                return None
            rets = [x for x in ast.walk(r[1]) if isinstance(x, ast.Return) and x.value is not None]
            if not rets:
                return None
            outs = []
            for x in rets:
                v = x.value
                if isinstance(v, ast.Name):
                    defs = [a.value for a in ast.walk(r[1]) if isinstance(a, ast.Assign) and any(isinstance(t_, ast.Name) and t_.id == v.id for t_ in a.targets)]
                    outs.append(all(_has_scale_dtype(repo, r[0], r[1], d, ps_[0], depth - 1) for d in defs) if defs else None)
                else:
                    outs.append(_has_scale_dtype(repo, r[0], r[1], v, ps_[0], depth - 1))
            if any(o is False for o in outs):
                return False
            return True if all(o is True for o in outs) else None
        return None
    if isinstance(e, (ast.Call, ast.Name, ast.Subscript)) and not (isinstance(e, ast.Call) and isinstance(e.func, ast.Attribute) and e.func.attr == "to"):
        return None if isinstance(e, ast.Name) else False
    return False


def accumulation(chk, fns, rule="C07.R3"):
    """C07.R3: the default route accumulates in float32 whenever a raw-code operand is multiplied in a half-precision context."""
    if "qbytes_mm" not in fns:
        return
    m, fn = fns["qbytes_mm"]
    a, w, s = positional_params(fn)[:3]
    table = qtype_table(chk.repo)
    storage = sorted({v["dtype"] for v in table.values() if v["bits"] == 8})
    halves = ["torch.float16", "torch.bfloat16"]
    combos = []
    for sd in halves:
        for da in [sd] + storage:  # a plain activation has the dtype of the scales
            for dw in storage:
                combos.append((sd, da, dw))
    bad = {}
    n_ok = 0
    site = f"{m.rel}:{fn.lineno}"
    for sd, da, dw in combos:
        env = {f"{a}.dtype": da, f"{w}.dtype": dw, f"{s}.dtype": sd}
        matched = False
        for p in paths_of(fn, prune=False):
            if p.end[0] != "return":
                continue
            feasible = True
            for c, truth, _ in p.conds:
                v = eval_dtype_cond(c, env)
                if v is None:
                    chk.unknown(rule, site, f"qbytes_mm: condition `{U(c)[:70]}` is not a dtype test the checker can evaluate")
                    return
                if v != truth:
                    feasible = False
                    break
            if not feasible:
                continue
            matched = True
            e = p.end[1]
            casts = {}
            for c in ast.walk(e):
                if isinstance(c, ast.Call) and isinstance(c.func, ast.Attribute) and c.func.attr == "to" and c.args and U(c.func.value) in (a, w):
                    t = U(c.args[0])
                    casts[U(c.func.value)] = env.get(t, t)
            if casts.get(a) == "torch.float32" and casts.get(w) == "torch.float32":
                n_ok += 1
            else:
                kind = "int8" if "int8" in (da + dw) else "float8"
                actk = "plain" if da == sd else "quantized"
                bad.setdefault((kind, actk), []).append((sd, da, dw, casts))
        if not matched:
            chk.unknown(rule, site, f"qbytes_mm: no path for dtypes {env}")
            return
    for (kind, actk), lst in sorted(bad.items()):
        sd, da, dw, casts = lst[0]
        if kind == "float8":
            tag = "no float32 promotion for float8 x float8" if actk == "quantized" else "no float32 promotion for float8 weights"
            wit = "float8 activations x float8 weights in float16 with K=64 and inputs in [-1, 1]: inf" if actk == "quantized" else "float16 activations of magnitude ~10 x float8 weights with K=512: the float16 accumulation of x*code (codes up to 448) overflows although the scaled result fits"
        else:
            tag = f"no float32 promotion for int8 operand ({actk} activations)"
            wit = "float16 activations x int8 weights with in_features=512 and activations of magnitude 8-16: sum of x*code exceeds 65504 before the scale is applied"
        chk.bad(rule, site, "qbytes_mm", tag, f"qbytes_mm multiplies raw codes in half precision for {len(lst)} dtype combination(s), e.g. scales {sd}, activations {da}, weights {dw}: operands cast to {casts}", wit)
    chk.ok(rule, site, f"qbytes_mm accumulates in float32 for {n_ok} of {len(combos)} (scale dtype, activation dtype, weight dtype) combinations with half-precision scales")


def handler_accumulation(chk, rule="C07.R3"):
    """C07.R3 for the mm / bmm handlers: raw payloads handed to the float contraction are first cast to float32 (or wider)."""
    repo = chk.repo
    wide = ("torch.float32", "torch.float", "torch.float64", "torch.double")
    n = 0
    for h in handlers(repo)["qbytes"]:
        if not set(h.ops) & {"aten.mm", "aten.bmm"}:
            continue
        opn = positional_params(h.fn)[0]
        seen = set()
        for p in paths_of(h.fn):
            exprs = [p.end[1]] if p.end[1] is not None else []
            for ef in p.effects:
                exprs += [x for x in ef if isinstance(x, ast.AST)]
            for e in exprs:
                for c in ast.walk(e):
                    if not (isinstance(c, ast.Call) and (U(c.func) == opn or U(c.func) in ("torch.matmul", "torch.bmm", "torch.mm")) or isinstance(c, ast.BinOp) and isinstance(c.op, ast.MatMult)):
                        continue
                    operands = c.args if isinstance(c, ast.Call) else [c.left, c.right]
                    for a in operands:
                        t = U(a)
                        if "._data" not in t or (t, getattr(c, "lineno", 0)) in seen:
                            continue
                        seen.add((t, getattr(c, "lineno", 0)))
                        d = None
                        if isinstance(a, ast.Call) and isinstance(a.func, ast.Attribute) and a.func.attr in ("to", "type") and (a.args or a.keywords):
                            d = U(a.args[0]) if a.args else U(a.keywords[0].value)
                        elif isinstance(a, ast.Call) and isinstance(a.func, ast.Attribute) and a.func.attr in ("float", "double", "half", "bfloat16"):
                            d = {"float": "torch.float32", "double": "torch.float64", "half": "torch.float16", "bfloat16": "torch.bfloat16"}[a.func.attr]
                        if d is None:
                            continue  # a raw payload handed over as it is: the typing of the route decides (integer GEMM)
                        n += 1
                        chk.require(rule, f"{h.mi.rel}:{getattr(c, 'lineno', h.fn.lineno)}", d in wide, f"{h.name}: raw payload `{t[:50]}` enters the contraction as {d} (float32 or wider)", h.name, f"{h.name} accumulates raw codes in a narrow dtype",
                                    "exact small-integer operands: a dot product of 5 terms needs more than the 8 significant bits of bfloat16 (error 63 on codes of magnitude 100); float16 overflows beyond 65504")
    chk.floor(rule, n, 2, "payload casts in front of the mm / bmm contractions")


ITEMSIZE = {"torch.int8": 1, "torch.uint8": 1, "torch.float8_e4m3fn": 1, "torch.float8_e5m2": 1, "torch.float8_e4m3fnuz": 1, "torch.float8_e5m2fnuz": 1,
            "torch.float16": 2, "torch.bfloat16": 2, "torch.int16": 2, "torch.float32": 4, "torch.int32": 4, "torch.float64": 8, "torch.int64": 8}


def dtype_value(e, env):
    """Value of an expression over operand dtypes: a dtype name, an int, a bool, or None (not evaluable)."""
    t = U(e)
    if t in env:
        return env[t]
    if isinstance(e, ast.Constant) and isinstance(e.value, (int, bool)):
        return e.value
    if isinstance(e, ast.Attribute):
        if t.startswith("torch.") and t.count(".") == 1 and t in ITEMSIZE:
            return t
        base = dtype_value(e.value, env)
        if isinstance(base, str):
            if e.attr == "itemsize":
                return ITEMSIZE.get(base)
            if e.attr == "is_floating_point":
                return "float" in base
            if e.attr == "is_signed":
                return base != "torch.uint8"
        return None
    if isinstance(e, ast.Call) and isinstance(e.func, ast.Attribute) and not e.args and not e.keywords:
        # tensor.element_size() / tensor.is_floating_point(): through the tensor's dtype
        d = env.get(U(e.func.value) + ".dtype")
        if d is not None:
            if e.func.attr == "element_size":
                return ITEMSIZE.get(d)
            if e.func.attr == "is_floating_point":
                return "float" in d
        return None
    if isinstance(e, ast.Attribute) or isinstance(e, ast.Name):
        return None
    if isinstance(e, ast.Call) and U(e.func) in ("torch.finfo", "torch.iinfo"):
        return None
    if isinstance(e, ast.Attribute) and e.attr == "bits":
        return None
    return None


def eval_dtype_cond(c, env):
    if isinstance(c, ast.BoolOp):
        vals = [eval_dtype_cond(v, env) for v in c.values]
        if any(v is None for v in vals):
            return None
        return all(vals) if isinstance(c.op, ast.And) else any(vals)
    if isinstance(c, ast.UnaryOp) and isinstance(c.op, ast.Not):
        v = eval_dtype_cond(c.operand, env)
        return None if v is None else not v
    if isinstance(c, ast.Compare) and len(c.ops) == 1:
        op, rhs = c.ops[0], c.comparators[0]
        l = dtype_value(c.left, env)
        if isinstance(op, (ast.In, ast.NotIn)) and isinstance(rhs, (ast.Tuple, ast.List, ast.Set)):
            vals = [dtype_value(x, env) for x in rhs.elts]
            if l is None or any(v is None for v in vals):
                return None
            return (l in vals) if isinstance(op, ast.In) else (l not in vals)
        r = dtype_value(rhs, env)
        if l is None or r is None:
            return None
        if isinstance(op, (ast.Eq, ast.Is)):
            return l == r
        if isinstance(op, (ast.NotEq, ast.IsNot)):
            return l != r
        if isinstance(l, str) or isinstance(r, str):
            return None
        if isinstance(op, ast.Lt):
            return l < r
        if isinstance(op, ast.LtE):
            return l <= r
        if isinstance(op, ast.Gt):
            return l > r
        if isinstance(op, ast.GtE):
            return l >= r
        return None
    v = dtype_value(c, env)
    return v if isinstance(v, bool) else None


# ---------------------------------------------------------------------------------------------
def linear_forward(chk, helper_nodes):
    repo = chk.repo
    ci = repo.cls("QTensorLinear")
    fwd = ci.own("forward")
    mi = ci.mod
    ctxn, inp, oth, bias = positional_params(fwd)[:4]
    default = helper_nodes.get("qbytes_mm")
    if default is None:
        chk.unknown("C07.R1", f"{mi.rel}:{fwd.lineno}", "default qbytes_mm not found")
        return
    ranks = (1, 2, 3) if chk.tier == "quick" else (1, 2, 3, 4)
    if chk.pid != "C07":
        ranks = (0,) + ranks  # C07 quantifies over batch ranks 1..3; C05 / C08 also cover a 1-D input (no batch dimension)

    def qbytes_mm_op(a, w, s):
        res = Interp(default, dict(zip(positional_params(default), (a, w, s))), helper_nodes).run()
        oks = [r for r in res if r[0] == "ok"]
        errs = [r for r in res if r[0] in ("typeerr", "unknown")]
        if errs:
            if errs[0][0] == "typeerr":
                raise lb.TypeErr("in torch.ops.quanto.qbytes_mm: " + errs[0][1])
            raise lb.Unknown(errs[0][1])
        return oks[0][1]

    # the entry point is the function registered for torch.nn.functional.linear: its guards decide what reaches QTensorLinear.forward
    disp = [x for x in handlers(repo)["qfunc"] if any(o.endswith("functional.linear") for o in x.ops)]
    dfn = disp[0].fn if disp else None

    def apply_fn(a, w, b_=None):
        res_ = Interp(fwd, {ctxn: Obj(), inp: a, oth: w, bias: b_, "qbytes_mm": qbytes_mm_op}, helper_nodes).run()
        errs_ = [r_ for r_ in res_ if r_[0] in ("typeerr", "unknown")]
        if errs_:
            if errs_[0][0] == "typeerr":
                raise lb.TypeErr(errs_[0][1])
            raise lb.Unknown(errs_[0][1])
        return [r_ for r_ in res_ if r_[0] == "ok"][0][1]

    def typed(x, wq, b):
        if dfn is None:
            return Interp(fwd, {ctxn: Obj(), inp: x, oth: wq, bias: b, "qbytes_mm": qbytes_mm_op}, helper_nodes).run()
        dp = positional_params(dfn)
        env_ = {dp[0]: lb.Opaque("func"), dp[1]: x, dp[2]: wq, dp[3]: b, ci.name: Obj(apply=apply_fn), "qbytes_mm": qbytes_mm_op}
        return Interp(dfn, env_, helper_nodes).run()

    n = 0
    wscales = weight_scales()
    in_kinds = ["float", "quantized"]
    if chk.pid in ("C07", "C05"):
        # a 2-D weight quantized along its last axis: one scale per INPUT feature, i.e. along the contracted dimension
        wscales = wscales + [("per-axis(-1)", (ONE, L("in")), -1)]
    if chk.pid == "C05":
        # C05 quantifies over per-axis 8-bit operands on either side (activations produced by the library are per-tensor: C07 / C08 stop there)
        in_kinds += ["quantized per-axis(0)", "quantized per-axis(-1)"]
    for r in ranks:
        for sdesc, slabels, axis in wscales:
            for in_kind in in_kinds:
                for has_bias in (True, False):
                    xl = batch(r) + (L("in"),)
                    if in_kind == "quantized":
                        x = Q(xl, None, (), "input")
                    elif in_kind == "quantized per-axis(0)":
                        if r == 0:
                            continue
                        x = Q(xl, 0, (xl[0],) + (ONE,) * (len(xl) - 1), "input")
                    elif in_kind == "quantized per-axis(-1)":
                        x = Q(xl, -1, (ONE,) * (len(xl) - 1) + (xl[-1],), "input")
                    else:
                        x = T(xl, "float", "input")
                    wq = Q((L("out"), L("in")), axis, slabels, "other")
                    b = T((L("out"),), "float", "bias") if has_bias else None
                    res = typed(x, wq, b)
                    want = batch(r) + (L("out"),)
                    what = f"{in_kind} rank-{r + 1} input, {sdesc} weight, bias={has_bias}"
                    site = f"{mi.rel}:{fwd.lineno}"
                    for status, val, trace in res:
                        if status == "typeerr":
                            rule = "C07.R6" if "bias added before scaling" in val and has_bias else ("C07.R2" if "not matched by its scales" in val else "C07.R1")
                            chk.bad(rule, site, "QTensorLinear.forward", f"QTensorLinear.forward: {_gen(val)}", f"QTensorLinear.forward ({what}): {val}", what)
                        elif status == "unknown":
                            chk.unknown("C07.R1", site, f"QTensorLinear.forward ({what}): {val}")
                        elif status == "ok":
                            n += 1
                            ok = isinstance(val, T) and val.labels == tuple(want)
                            chk.require("C07.R1", site, ok, f"QTensorLinear.forward ({what}) returns {val}", "QTensorLinear.forward", "linear result labels", what)
                            if isinstance(val, T):
                                okp = val.balanced()
                                chk.require("C07.R2", site, okp, f"QTensorLinear.forward ({what}): payloads {sorted(val.codes)} matched by scales {list(val.scales)}", "QTensorLinear.forward", "linear payload/scale pairing",
                                            "a quantized activation with a per-tensor scale: the output is off by the activation scale (invisible to cosine similarity)")
    # a rank-1 quantized weight (the float program returns input.shape[:-1]): the kernels assume a matrix, so the dispatcher must not hand it over
    if chk.pid == "C05":
        for r in ranks:
            for in_kind in ("float", "quantized"):
                xl = batch(r) + (L("in"),)
                x = Q(xl, None, (), "input") if in_kind == "quantized" else T(xl, "float", "input")
                wq = Q((L("in"),), None, (), "other")
                what = f"{in_kind} rank-{r + 1} input, rank-1 per-tensor weight"
                site = f"{mi.rel}:{fwd.lineno}"
                for status, val, trace in typed(x, wq, None):
                    if status == "typeerr":
                        chk.bad("C07.R1", site, "QTensorLinear.forward", f"QTensorLinear.forward: rank-1 weight: {_gen(val)}", f"QTensorLinear.forward ({what}): {val}", what)
                    elif status == "unknown":
                        chk.unknown("C07.R1", site, f"QTensorLinear.forward ({what}): {val}")
                    elif status == "ok":
                        n += 1
                        chk.require("C07.R1", site, isinstance(val, T) and val.labels == tuple(batch(r)), f"QTensorLinear.forward ({what}) returns {val}", "QTensorLinear.forward", "linear result labels (rank-1 weight)", what)
    # weights that are neither QBytes nor AWQ (packed low-bit weights, plain tensors) take the float matmul route
    for r in ranks:
        for has_bias in (True, False):
            x = T(batch(r) + (L("in"),), "float", "input")
            wq = T((L("out"), L("in")), "float", "other")
            b = T((L("out"),), "float", "bias") if has_bias else None
            res = Interp(fwd, {ctxn: Obj(), inp: x, oth: wq, bias: b, "qbytes_mm": qbytes_mm_op}, helper_nodes).run()
            want = batch(r) + (L("out"),)
            what = f"float rank-{r + 1} input, weight taking the float route (packed low-bit / plain), bias={has_bias}"
            for status, val, trace in res:
                site = f"{mi.rel}:{fwd.lineno}"
                if status == "typeerr":
                    chk.bad("C07.R1", site, "QTensorLinear.forward", f"QTensorLinear.forward float route: {_gen(val)}", f"QTensorLinear.forward ({what}): {val}", what)
                elif status == "unknown":
                    chk.unknown("C07.R1", site, f"QTensorLinear.forward ({what}): {val}")
                elif status == "ok":
                    n += 1
                    chk.require("C07.R1", site, isinstance(val, T) and val.labels == tuple(want), f"QTensorLinear.forward ({what}) returns {val}", "QTensorLinear.forward", "linear float route labels", what)
    chk.floor("C07.R1", n, 12, "QTensorLinear.forward typed instances")
    # the plain (non-quantized weight) route and the handler's argument order
    h = [x for x in handlers(repo)["qfunc"] if any(o.endswith("functional.linear") for o in x.ops)]
    if h:
        hp = positional_params(h[0].fn)
        for p in paths_of(h[0].fn):
            if p.end[0] == "return":
                ok = dispatch_args_ok(p.end[1], hp)
                chk.require("C07.R1", f"{h[0].mi.rel}:{p.end[2]}", ok, f"linear dispatch passes (input, other, bias) in order: `{U(p.end[1])}`", h[0].name, "linear dispatch arguments", "any quantized linear: weight and input swapped or bias dropped")


def scale_products(chk, rule="C07.R10"):
    """Every product of the scales of two different tensors, anywhere in the package, has both factors converted to float32 first."""
    import re
    repo = chk.repo
    n = 0
    seen = set()

    def scale_of(e):
        """(tensor name, converted to float32?) if e is `<t>._scale`, possibly converted"""
        t = U(e)
        m = re.fullmatch(r"(\w+)\._scale", t)
        if m:
            return m.group(1), False
        m = re.fullmatch(r"(\w+)\._scale\.(?:to\((?:dtype=)?torch\.(?:float32|float)\)|float\(\))", t)
        if m:
            return m.group(1), True
        return None

    for mi in repo.modules.values():
        if not mi.rel.startswith("optimum/"):
            continue
        for fn in [x for x in ast.walk(mi.tree) if isinstance(x, ast.FunctionDef)]:
            if "_scale" not in U(fn):
                continue
            try:
                ps = paths_of(fn)
            except AnalysisError:
                continue
            for p in ps:
                exprs = [p.end[1]] if p.end[1] is not None else []
                for ef in p.effects:
                    exprs += [x for x in ef if isinstance(x, ast.AST)]
                for e in exprs:
                    for nd in ast.walk(e):
                        if not (isinstance(nd, ast.BinOp) and isinstance(nd.op, ast.Mult)):
                            continue
                        # flatten a chain a * b * c
                        fac = []

                        def flat(x):
                            if isinstance(x, ast.BinOp) and isinstance(x.op, ast.Mult):
                                flat(x.left)
                                flat(x.right)
                            else:
                                fac.append(x)
                        flat(nd)
                        sc = [scale_of(x) for x in fac]
                        sc = [x for x in sc if x]
                        if len({x[0] for x in sc}) < 2:
                            continue
                        key = (mi.rel, fn.name, U(nd))
                        if key in seen:
                            continue
                        seen.add(key)
                        n += 1
                        ok = all(c for _, c in sc)
                        qn = fn.name
                        chk.require(rule, f"{mi.rel}:{getattr(nd, 'lineno', fn.lineno)}", ok, f"{qn}: scale product `{U(nd)[:80]}` has both factors in float32", qn, "scale product in the working dtype",
                                    "float16 activations and weights of small magnitude (|x| ~ 0.05, |w| ~ 0.02): the scales are ~4e-4 and ~1.6e-4, their float16 product 6e-8..1e-6 is subnormal, and the output is off by several per cent (25% for |x| ~ 0.02, |w| ~ 0.005)")
    chk.floor(rule, n, 3, "products of two scales")


def bias_before_narrowing(chk, rule="C07.R6"):
    """The bias joins the product while it is still wide: `kernel(...) + bias` adds it after the kernel has cast its float32 product to the
    half-precision output dtype (two roundings; a product beyond the dtype range is inf although product + bias is representable)."""
    repo = chk.repo
    ci = repo.cls("QTensorLinear")
    fwd = ci.own("forward")
    bias = positional_params(fwd)[3]
    n = 0
    for p in paths_of(fwd):
        if p.end[0] != "return" or p.end[1] is None:
            continue
        e = p.end[1]
        if not (isinstance(e, ast.BinOp) and isinstance(e.op, ast.Add) and bias in (U(e.left), U(e.right))):
            continue
        other = e.right if U(e.left) == bias else e.left
        kernel = any(isinstance(x, ast.Call) and U(x.func).startswith("torch.ops.quanto.qbytes_mm") for x in ast.walk(other))
        if not kernel:
            continue
        n += 1
        narrowed = True  # the kernels end with `.to(output_scales.dtype)` / `.to(<dtype of the scales>)`: their result is already in the output dtype
        widened = isinstance(other, ast.Call) and isinstance(other.func, ast.Attribute) and other.func.attr in ("float", "double")
        chk.require(rule, f"{ci.mod.rel}:{p.end[2]}", widened or not narrowed, f"QTensorLinear.forward: the bias is added to the kernel result while it is still float32 (`{U(e)[:70]}`)", "QTensorLinear.forward", "bias added after the product was narrowed",
                    "float16, qint8 per-axis weights [127]*16+[17] (scale 1.0), x = ones, bias = -1: 2047 instead of the exactly representable 2048; product 70000 with bias -10000: inf, the reference 60000 is representable")
    chk.floor(rule, n, 1, "kernel result + bias sites")


def dispatch_args_ok(e, hp):
    """`QTensorLinear.apply(a, b, c)` where a / b are the handler's input / weight parameter, as it is or dequantized (a straight-through
    identity for values and gradients), and c is the bias parameter: nothing swapped, nothing else substituted."""
    if not (isinstance(e, ast.Call) and U(e.func) == "QTensorLinear.apply" and len(e.args) == 3 and not e.keywords):
        return False
    got = [U(a) for a in e.args]
    return got[0] in (hp[1], f"{hp[1]}.dequantize()") and got[1] in (hp[2], f"{hp[2]}.dequantize()") and got[2] == hp[3]


def operand_invariants(chk):
    """C07.R7: the mm/bmm/linear guards read `axis` to decide where the operand's scale lies; that is only right if every handler
    that re-lays a per-axis tensor out (transposes, joins, moves) keeps the declared axis and the scale together (rules shared with C05/C06)."""
    from .. import handrules
    recs = handrules.analyse(chk.repo, chk.tier)
    n = 0
    for r in recs:
        if r.rule == "C06.R8" or (r.rule == "C05.R4" and "transpose" in (r.tag or "")) or (r.rule == "C05.R4" and "transpose" in (r.detail or "")[:60]):
            n += 1
            if r.verdict == "ok":
                chk.ok("C07.R7", r.site, r.detail)
            elif r.verdict == "bad":
                chk.bad("C07.R7", r.site, r.function, r.tag, r.detail, (r.witness or "") + " - then torch.mm / linear take the raw-code route with a scale lying along the contracted dimension")
            else:
                chk.unknown("C07.R7", r.site, r.detail)
    chk.floor("C07.R7", n, 3, "axis/scale agreement obligations of re-laying handlers")


def _kernel_op(repo):
    """torch.ops.quanto.qbytes_mm as an abstract function: the default implementation interpreted over labels."""
    try:
        default = repo.func("qbytes_mm")[1]
    except AnalysisError:
        return None
    helper_nodes = {}
    for name in HELPERS:
        try:
            helper_nodes[name] = repo.func(name)[1]
        except AnalysisError:
            pass

    def qbytes_mm_op(a, w, s):
        res = Interp(default, dict(zip(positional_params(default), (a, w, s))), helper_nodes).run()
        oks = [r for r in res if r[0] == "ok"]
        errs = [r for r in res if r[0] in ("typeerr", "unknown")]
        if errs:
            if errs[0][0] == "typeerr":
                raise lb.TypeErr("in torch.ops.quanto.qbytes_mm: " + errs[0][1])
            raise lb.Unknown(errs[0][1])
        return oks[0][1]

    return qbytes_mm_op


def mm_handlers(chk, r1="C07.R1", r2="C07.R2", r5="C07.R5"):
    repo = chk.repo
    hs = handlers(repo)["qbytes"]
    helpers = {}
    try:
        helpers["cannot_mm"] = repo.func("cannot_mm")[1]
    except AnalysisError:
        pass
    for h in hs:
        if not set(h.ops) & {"aten.mm", "aten.bmm", "aten.mv"}:
            continue
        is_b = "aten.bmm" in h.ops
        is_v = "aten.mv" in h.ops and not is_b  # matrix x vector: the second operand has one dimension (and can only be quantized per-tensor)
        opn, inp, oth = positional_params(h.fn)[:3]
        lead = (L("B"),) if is_b else ()
        scale_opts_in = [("per-tensor", (), None), ("per-axis(0)", lead[:0] + ((L("B"),) if is_b else (L("n"),)) + (ONE,) * (2 if is_b else 1), 0), ("per-axis(-1)", (ONE,) * (2 if is_b else 1) + (L("m"),), -1)]
        scale_opts_oth = [("per-tensor", (), None), ("per-axis(0)", ((L("B"),) if is_b else (L("m"),)) + (ONE,) * (2 if is_b else 1), 0), ("per-axis(-1)", (ONE,) * (2 if is_b else 1) + (L("p"),), -1)]
        if is_v:
            scale_opts_oth = [("per-tensor", (), None)]
        n = 0
        for (di, si, ai), (do, so, ao) in itertools.product(scale_opts_in, scale_opts_oth):
            x = Q(lead + (L("n"), L("m")), ai, si, "input")
            y = Q(lead + (L("m"), L("p")), ao, so, "other") if not is_v else Q((L("m"),), ao, so, "other")
            if ai is None:
                x.data.strides = {"stride0"}  # a per-tensor operand may be the result of expand(): stride 0 along a dimension
            if ao is None:
                y.data.strides = {"stride0"}

            def op_fn(a, b, _is_b=is_b):
                for z in (a, b):
                    if isinstance(z, Q):
                        raise lb._Raised("re-dispatch")  # handled by C05 (fallback paths)
                return lb.matmul(a, b, "bmm" if _is_b else ("mv" if is_v else "mm"))

            def qfallback(*args, **kw):
                raise lb._Raised("fallback")

            env = {opn: op_fn, inp: x, oth: y, "qfallback": qfallback}
            kernel = _kernel_op(repo)
            if kernel is not None:
                env["qbytes_mm"] = kernel  # a handler may delegate to the library kernel
            res = Interp(h.fn, env, helpers).run()
            want = lead + (L("n"), L("p")) if not is_v else (L("n"),)
            what = f"{h.name}: input {di}, other {do}"
            site = f"{h.mi.rel}:{h.fn.lineno}"
            for status, val, trace in res:
                path = ", ".join(f"{'' if v else 'not '}{t[:30]}" for t, v in trace)
                if status == "typeerr":
                    rule = r2 if "not matched by its scales" in val else (r5 if "(platform table" in val and ("without contiguous()" in val or "16-byte aligned" in val) else r1)
                    chk.bad(rule, site, h.name, f"{h.name}: input {di}, other {do}: {_gen(val)}"[:140], f"{what} (path: {path[:100]}): {val}",
                            f"{'torch.bmm' if is_b else 'torch.mm'} of a {di} qint8 operand with a {do} qint8 operand that takes the raw-code route: the scale along the contracted axis is applied to the output (silently wrong when sizes coincide, RuntimeError otherwise)")
                elif status == "unknown":
                    chk.unknown(r1, site, f"{what}: {val}")
                elif status == "ok" and isinstance(val, T):
                    n += 1
                    ok = val.labels == tuple(want)
                    chk.require(r1, site, ok, f"{what} ({path[:50]}): raw-code route returns {val}", h.name, f"{h.name} result labels", what)
                    chk.require(r2, site, val.balanced(), f"{what}: payloads {sorted(val.codes)} matched by scales {list(val.scales)}", h.name, f"{h.name} payload/scale pairing", what)
        chk.floor(r1, n, 1, f"{h.name} raw-code route instances")
        # primitive preconditions of a direct torch._int_mm call in the handler
        for p in paths_of(h.fn):
            if p.end[0] != "return" or p.end[1] is None:
                continue
            if "torch._int_mm(" not in U(p.end[1]):
                continue
            f = path_facts(p)
            site = f"{h.mi.rel}:{p.end[2]}"
            int8 = f.get(f"{inp}.qtype == qint8") is True and f.get(f"{oth}.qtype == qint8") is True
            rows = any(v is True and t.endswith(" > 16") for t, v in f.items())
            mods = sum(1 for t, v in f.items() if v is True and t.endswith(" % 8 == 0"))
            chk.require(r5, site, int8 and rows and mods >= 3, f"{h.name}: direct torch._int_mm call guarded by qint8 x qint8, rows > 16 and three sizes multiple of 8 (int8={int8}, rows={rows}, multiples={mods})", h.name, f"{h.name} int_mm guards",
                        "a quantized matmul with 16 rows or sizes not multiple of 8 (CUDA error), or float8 payloads")
