"""C14 - configurations are either rejected with ValueError or fully honoured (structural clauses)."""
import ast

from ..core import AnalysisError, U, atoms, path_facts, paths_of, positional_params

TITLE = "Configurations are either rejected with ValueError or fully honoured"

RULES = {
    "C14.R1": "validation matrix: every non-raising path of each quantization entry point has passed the guard that rejects the unsupported configuration",
    "C14.R2": "configuration rejections raise ValueError (not assert, TypeError, ...)",
    "C14.R5": "an accepted configuration is fully honoured: the tensor returned satisfies the pipeline / geometry / range rules of C01.R1, C01.R5, C02.R1, C02.R2, C03.R1, C03.R2, C03.R5 and C06.R7 (re-checked here under this id)",
    "C14.R6": "a dimension of size one is a supported shape (Linear(n, 1), Conv2d with one output channel): a quantizer that refuses an axis of size one is only reached from quantize_weight on paths that have rewritten such an axis to per-tensor",
    "C14.R7": "the quantization entry points are functions of their arguments: no module-level state, cache or random draw is reachable from them (the purity rules C13.R3 / C13.R4 re-checked)",
    "C14.R8": "one quantity, one formula: wherever a number of groups (or a divisibility by the group size) is computed, the dividend is the per-index element count numel // shape[axis] - a single extent only for tensors unpacked as 2-D",
    "C14.R3": "group-size post-condition: a non-None weight_group_size is only produced under in_features % group_size == 0, with in_features = weight.numel() // weight.shape[0]; the selection is repeated wherever weight_qtype is reassigned (the configuration in force is the one honoured)",
    "C14.R4": "qtypes given by name are looked up in `qtypes` for both weights and activations",
}


def facts_of(p):
    return path_facts(p)


def check_guards(chk, mi, fn, qual, reqs):
    """reqs: list of (tag, alternatives[(atom, truth)], when[(atom, truth)] or None, witness)"""
    from ..core import canon_ast, with_boolean_helpers
    from ..kwprof import _norm_leaf, entails
    ps = paths_of(with_boolean_helpers(fn))  # a guard moved into a boolean helper (`_holds_one_value_per_index(scale, base, axis)`) is read through
    ok_paths = [p for p in ps if p.end[0] in ("return", "fall")]

    def lits(pairs):
        out = []
        for a, t in pairs:
            try:
                out.append((canon_ast(ast.parse(str(a), mode="eval").body), t))
            except SyntaxError:
                pass
        return out

    def compatible(p, when):
        """can the path be taken under the precondition?  (no fact needed: `not (per_axis and ...)` is compatible with `not per_axis`)"""
        extra = lits(when)
        if len(extra) != len(when):
            return False
        verdict, _ = entails([(canon_ast(c), t) for c, t, _ in p.conds] + extra, lambda v: False, [])
        return verdict is False  # some valuation satisfies the conditions together with the precondition

    def implied(p, alts, when=()):
        """do the conditions of the path imply one of the alternatives?  (`per_axis and not ok(...)` being false establishes `not per_axis or ok(...)`:
        no single fact, yet exactly the disjunction a row with a precondition alternative asks for)"""
        goal = []
        for a, t in alts:
            try:
                leaf, pol = _norm_leaf(ast.parse(str(a), mode="eval").body)
            except SyntaxError:
                continue
            goal.append((leaf, t if pol else not t))
        if not goal:
            return False
        verdict, _ = entails([(canon_ast(c), t) for c, t, _ in p.conds] + lits(when), lambda v: any(v[a] is t for a, t in goal), [a for a, _ in goal])
        return verdict is True
    if not ok_paths:
        chk.unknown("C14.R1", f"{mi.rel}:{fn.lineno}", f"{qual} has no non-raising path")
        return
    for tag, alts, when, witness in reqs:
        n_app = 0
        bad_path = None
        for p in ok_paths:
            f = facts_of(p)
            if when and not all(f.get(a) is t for a, t in when) and not (all(f.get(a) is None for a, t in when) and compatible(p, when)):
                continue
            n_app += 1
            if not any(f.get(a) is t for a, t in alts) and not implied(p, alts, when or ()):
                bad_path = p
        site = f"{mi.rel}:{fn.lineno}"
        if n_app == 0:
            chk.unknown("C14.R1", site, f"{qual}: no accepting path matches the precondition of `{tag}`")
        elif bad_path is None:
            chk.ok("C14.R1", site, f"{qual}: every accepting path ({n_app}) has established `{tag}`")
        else:
            conds = " & ".join(bad_path.cond_texts()) or "unconditional"
            chk.bad("C14.R1", f"{mi.rel}:{bad_path.end[2]}", qual, f"missing guard: {tag}", f"{qual}: an accepting path (ending line {bad_path.end[2]}; {conds[:160]}) has not established `{tag}`", witness)
    # R2: what the rejections raise
    for p in ps:
        if p.end[0] == "raise":
            exc = U(p.end[1]) if p.end[1] is not None else ""
            name = exc.split("(")[0]
            if name == "NotImplementedError":
                continue
            if name == "TypeError" and p.conds and all(a.endswith(" is None") or (a.startswith("isinstance(") and a.endswith(", str)")) for a, _ in atoms(p.conds[-1][0], p.conds[-1][1])):
                continue  # a type guard (None / wrong class), not a configuration rejection
            chk.require("C14.R2", f"{mi.rel}:{p.end[2]}", name == "ValueError", f"{qual}: rejection at line {p.end[2]} raises {name}", qual, f"rejection raises {name}", "the rejected configuration: callers catching ValueError do not see it")
    for n in ast.walk(fn):
        if isinstance(n, ast.Assert):
            t = U(n.test)
            # asserts on results (post-conditions) are fine; asserts on configuration parameters are rejections in disguise
            params = set(positional_params(fn)) & CONFIG_PARAMS  # the validation matrix is about these; the data operand is not a configuration
            names = {x.id for x in ast.walk(n.test) if isinstance(x, ast.Name)}
            type_guard = all(isinstance(c_, ast.Call) and U(c_.func) in ("isinstance", "torch.is_tensor", "torch.is_floating_point", "callable") for c_ in ([n.test] if not isinstance(n.test, ast.BoolOp) else n.test.values))
            # an assert placed after every ValueError guard of the same parameters can only restate what those guards established
            # (C14.R1 checks that the guards themselves are there); one placed before such a guard pre-empts it with an AssertionError
            cfg = names & params
            guards = [r for r in ast.walk(fn) if isinstance(r, ast.If) and any(isinstance(x, ast.Raise) and x.exc is not None and U(x.exc).startswith("ValueError") for x in r.body)
                      and {x.id for x in ast.walk(r.test) if isinstance(x, ast.Name)} & cfg]
            restates = bool(guards) and all(g.lineno < n.lineno for g in guards)
            if cfg and not type_guard and not restates and not any(k in t for k in ("dtype ==",)):
                chk.bad("C14.R2", f"{mi.rel}:{n.lineno}", qual, f"assert on configuration: {t}", f"{qual}: configuration check `{t}` is an assert (AssertionError, stripped under -O)", "the rejected configuration under python -O is accepted silently")


CONFIG_PARAMS = {"qtype", "axis", "group_size", "scale", "zeropoint", "optimizer", "bits", "weights", "activations"}


def run(chk):
    for k, v in RULES.items():
        chk.rule(k, v)
    repo = chk.repo
    # ---- quantize_weight
    mi, fn = repo.func("quantize_weight")
    t, qt, ax, gs, opt = positional_params(fn)[:5]
    in01 = [(f"{ax} in (0, -1)", True), (f"{ax} in [0, -1]", True)]
    check_guards(chk, mi, fn, "quantize_weight", [
        (f"{ax} in (0, -1)", in01, None, "quantize_weight(t, qtype, axis=1) on a 3-D tensor"),
        (f"8-bit => {gs} is None", [(f"{gs} is None", True)], [(f"{qt}.bits == 8", True)], "quantize_weight(t, qint8, 0, group_size=32): the group size is silently ignored"),
        (f"8-bit => symmetric optimizer", [(f"{opt} is None", True), (f"isinstance({opt}, SymmetricOptimizer)", True)], [(f"{qt}.bits == 8", True)], "quantize_weight(t, qint8, 0, optimizer=MaxOptimizer())"),
        (f"low-bit => affine optimizer", [(f"{opt} is None", True), (f"isinstance({opt}, AffineOptimizer)", True)], [(f"{qt}.bits == 8", False)], "quantize_weight(t, qint4, 0, optimizer=AbsmaxOptimizer())"),
    ])
    # the axis-of-size-1 rewrite precedes the optimizer call (per-tensor)
    n = 0
    for p in paths_of(fn):
        if p.end[0] == "return" and facts_of(p).get(f"{qt}.bits == 8") is True:
            f = facts_of(p)
            e = p.end[1]
            n += 1
            size1 = any(a.startswith(f"{ax} is not None and {t}.shape[{ax}] == 1") for a in f if f[a] is True) or (f.get(f"{t}.shape[{ax}] == 1") is True)
            if size1:
                args = [U(a) for a in e.args] if isinstance(e, ast.Call) else []
                ok = len(args) >= 4 and args[2] == "None" and "None" in args[3]
                chk.require("C14.R1", f"{mi.rel}:{p.end[2]}", ok, f"quantize_weight: an axis of size 1 is rewritten to per-tensor before the optimizer and the quantizer are called ({args[2:4]})", "quantize_weight", "axis of size 1 -> per-tensor", "quantize_weight(t, qint8, axis=0) with t.shape[0] == 1 (e.g. Linear with one output feature)")
    chk.require("C14.R1", f"{mi.rel}:{fn.lineno}", any(o["rule"] == "C14.R1" and "axis of size 1" in o["what"] for o in chk.obligations), "quantize_weight has a path that handles an axis of size 1 (the symmetric quantizer rejects it)", "quantize_weight", "axis of size 1 -> per-tensor",
                "quantize_weight(t, qint8, axis=0) with t.shape[0] == 1 (e.g. Linear with one output feature): ValueError from the quantizer")
    # ---- affine quantizer
    ci = repo.cls("AffineQuantizer")
    fwd = ci.own("forward")
    ps_ = positional_params(fwd)
    base, qt2, ax2, gs2 = ps_[1], ps_[2], ps_[3], ps_[4]
    check_guards(chk, ci.mod, fwd, "AffineQuantizer.forward", [
        (f"{qt2} in (qint2, qint4)", [(f"{qt2} in (qint2, qint4)", True), (f"{qt2} in [qint2, qint4]", True), (f"{qt2} in (qint4, qint2)", True)], None, "AffineQuantizer.apply(t, qint8, ...): an 8-bit qtype is packed as if it were low-bit"),
        (f"{ax2} in (0, -1)", [(f"{ax2} in (0, -1)", True), (f"{ax2} in [0, -1]", True)], None, "AffineQuantizer.apply(t, qint4, axis=1, ...)"),
    ])
    # the scale / zero-point handed to the affine quantizer match the per-axis request (one value per index of the axis of the - grouped - base)
    sc2, zp2 = ps_[5], ps_[6]
    Bs = (base, f"group({base}, axis={ax2}, group_size={gs2})")
    rank1 = [(f"{B}.ndim > 1", False) for B in Bs]  # a rank-1 base takes another route (judged on its own below)
    check_guards(chk, ci.mod, fwd, "AffineQuantizer.forward", [
        ("per-axis => scale has the rank of the base", [(f"{sc2}.ndim == {B}.ndim", True) for B in Bs] + rank1, None, "AffineQuantizer.apply(randn(4, 8), qint4, 0, None, scale of shape (4,), zeropoint): accepted, mislabelled"),
        ("per-axis => scale extent matches the axis", [(f"{sc2}.shape[{ax2}] == {B}.shape[{ax2}]", True) for B in Bs] + rank1, None, "AffineQuantizer.apply(randn(4, 8), qint4, 0, None, scale of shape (1, 8), zeropoint): accepted as a per-axis(0) tensor with its scale along the other axis"),
        ("per-axis => single-axis scale", [(f"{sc2}.numel() == {B}.shape[{ax2}]", True) for B in Bs] + rank1, None, "AffineQuantizer.apply(randn(4, 8), qint4, 0, None, scale of shape (4, 8), zeropoint): one scale per element accepted"),
        ("zeropoint shaped like the scale", [(f"{zp2}.shape == {sc2}.shape", True)] + rank1, None, "AffineQuantizer.apply(t, qint4, 0, None, scale (4, 1), zeropoint (1, 8)): accepted"),
    ])
    for B in Bs[:1]:
        check_guards(chk, ci.mod, fwd, "AffineQuantizer.forward", [
            ("rank-1 base: per-axis request rejected or honoured with one scale per element", [("1D rejected", True)], [(f"{B}.ndim > 1", False)],
             "quantize_weight(randn(6), qint4, axis=0): a single scale for the six elements, returned as a QBitsTensor(axis=0) (the symmetric quantizer raises ValueError for 1-D per-axis requests)"),
        ])
    # ---- group
    mi_g, g = repo.func("group")
    b, gax, ggs = positional_params(g)[:3]
    check_guards(chk, mi_g, g, "group", [
        (f"{gax} in (0, -1)", [(f"{gax} in (0, -1)", True), (f"{gax} in [0, -1]", True)], None, "group(t, axis=1, group_size=g)"),
    ])
    # divisor guard: every accepting path has established that group_size divides numel // shape[axis]
    numel = f"{b}.numel() // {b}.shape[{gax}]"
    check_guards(chk, mi_g, g, "group", [
        ("group_size divides axis_numel", [(f"{numel} % {ggs} == 0", True), (f"0 == {numel} % {ggs}", True), (f"not {numel} % {ggs}", True)], None,
         "quantize_weight(t, qint4, 0, group_size=g) with g not a divisor: reshape error or silently wrong groups"),
    ])
    # ---- optimizers' __call__
    for cname, allowed in (("SymmetricOptimizer", "[None, 0, -1]"), ("AffineOptimizer", "[0, -1]")):
        ci = repo.cls(cname)
        call = ci.own("__call__")
        if call is None:
            chk.unknown("C14.R1", f"{ci.mod.rel}:{ci.node.lineno}", f"{cname}.__call__ not found")
            continue
        axn = positional_params(call)[3]
        alts = [(f"{axn} in {allowed}", True), (f"{axn} in {allowed.replace('[', '(').replace(']', ')')}", True)]
        check_guards(chk, ci.mod, call, f"{cname}.__call__", [(f"{axn} in {allowed}", alts, None, f"{cname}()(t, bits, axis=1)")])
    # ---- quantize_activation
    mi_a, qa = repo.func("quantize_activation")
    sc = positional_params(qa)[2]
    check_guards(chk, mi_a, qa, "quantize_activation", [
        (f"{sc}.numel() == 1", [(f"{sc}.numel() == 1", True), (f"{sc}.ndim == 0", True), (f"{sc}.ndim > 0", False)], None, "quantize_activation(t, qint8, scale) with a per-axis scale tensor"),
    ])
    for p in paths_of(qa):
        if p.end[0] == "return":
            e = p.end[1]
            ok = isinstance(e, ast.Call) and U(e.func).endswith("SymmetricQuantizer.apply") and len(e.args) >= 4 and U(e.args[2]) == "None"
            chk.require("C14.R1", f"{mi_a.rel}:{p.end[2]}", ok, "quantize_activation quantizes per-tensor (axis=None) through the symmetric quantizer", "quantize_activation", "activation axis None", "any activation")
    # ---- symmetric quantizer
    ci = repo.cls("SymmetricQuantizer")
    fwd = ci.own("forward")
    ps_ = positional_params(fwd)
    base, qt3, ax3, sc3 = ps_[1], ps_[2], ps_[3], ps_[4]
    per_axis = [(f"{ax3} is None", False)]
    check_guards(chk, ci.mod, fwd, "SymmetricQuantizer.forward", [
        ("per-tensor => scalar scale", [(f"{sc3}.ndim > 0", False), (f"{sc3}.ndim == 0", True), (f"{sc3}.numel() == 1", True)], [(f"{ax3} is None", True)], "SymmetricQuantizer.apply(t, qint8, None, scale) with a vector scale"),
        ("per-axis => base not 1-D", [(f"{base}.ndim == 1", False), (f"{base}.ndim > 1", True), (f"{base}.ndim >= 2", True), (f"{base}.ndim < 2", False)], per_axis, "SymmetricQuantizer.apply(vector, qint8, 0, scale)"),
        ("per-axis => axis in (0, -1)", [(f"{ax3} in (0, -1)", True), (f"{ax3} in [0, -1]", True), ("-1 in (0, -1)", True)], per_axis, "SymmetricQuantizer.apply(t3d, qint8, 1, scale)"),
        ("per-axis => axis size > 1", [(f"{base}.shape[{ax3}] == 1", False), (f"{base}.shape[-1] == 1", False), (f"{base}.shape[{ax3}] > 1", True)], per_axis, "SymmetricQuantizer.apply(t of shape (1, n), qint8, 0, scale)"),
        ("per-axis => single-axis scale", [(f"torch.squeeze({sc3}).ndim > 1", False), (f"{sc3}.squeeze().ndim > 1", False)], per_axis, "a scale varying along two axes"),
        ("per-axis => scale rank == base rank", [(f"{sc3}.ndim == {base}.ndim", True)], per_axis, "a scale of lower rank (broadcast from the right: wrong axis)"),
        ("per-axis => scale extent matches the axis", [(f"{sc3}.shape[{ax3}] == {base}.shape[{ax3}]", True), (f"{sc3}.shape[-1] == {base}.shape[-1]", True)], per_axis, "a scale of shape (1, n) with axis 0 on a (m, n) base: accepted although it is a last-axis scale"),
    ])
    # axis normalisation maps ndim-1 to -1 before the membership test
    ok_norm = False
    for p in paths_of(fwd):
        f = facts_of(p)
        if p.end[0] == "return" and f.get(f"{ax3} == {base}.ndim - 1") is True:
            e = p.end[1]
            if isinstance(e, ast.Call) and len(e.args) >= 2 and U(e.args[1]) == "-1":
                ok_norm = True
    chk.require("C14.R1", f"{ci.mod.rel}:{fwd.lineno}", ok_norm, "SymmetricQuantizer.forward: axis == ndim-1 is normalised to -1 and recorded as such", "SymmetricQuantizer.forward", "last-axis normalisation", "axis given as ndim-1: rejected or recorded with a different convention")
    from . import c02
    c02.requested_config(chk, "C14.R1")
    group_size_rule(chk)
    if chk.pid == "C14":  # (not when this rule set is itself run on behalf of another property)
        from ..report import AliasedCheck
        from . import c01, c02, c03, c06
        c01.run(AliasedCheck(chk, {"C01.R1": "C14.R5", "C01.R5": "C14.R5"}))
        c02.run(AliasedCheck(chk, {"C02.R1": "C14.R5", "C02.R2": "C14.R5"}))
        c03.run(AliasedCheck(chk, {"C03.R1": "C14.R5", "C03.R2": "C14.R5", "C03.R5": "C14.R5"}))
        c06.quantizer_geometry(AliasedCheck(chk, {"C06.R7": "C14.R5"}))
        c06.scalar_scale_clause(AliasedCheck(chk, {"C06.R9": "C14.R5"}))  # a non-scalar activation scale is refused (0-dim on the per-tensor path)
        # "returns a tensor that satisfies C01-C03 for exactly the requested configuration": the entry points are functions of their arguments -
        # nothing they reach keeps state from one call to the next (a memo keyed by object identity serves a stale result after an in-place update)
        from ..effects import EffectGraph
        from . import c13
        g_ = EffectGraph(repo)
        c13.inference_effects(AliasedCheck(chk, {"C13.R3": "C14.R7"}), g_)
        c13.quantization_effects(AliasedCheck(chk, {"C13.R4": "C14.R7"}), g_)
    from .c03 import grouping_condition
    grouping_condition(chk, "C14.R1")  # a valid group size is honoured by the optimizer and the quantizer alike
    from .c10 import derived_state
    derived_state(chk, rule="C14.R3")  # the selected group size follows every reassignment of the weight qtype
    size_one_axis(chk)
    group_count_rule(chk)
    qtype_by_name(chk)
    chk.assume("parameter positions of the public quantization entry points are part of the API (names are read from the signatures)")


def _size_one_atom(a: str, tensor: str, axis: str) -> bool:
    a = a.replace(" ", "")
    return a in (f"{tensor}.shape[{axis}]==1", f"{tensor}.size({axis})==1", f"{tensor}.size()[{axis}]==1", f"{tensor}.shape[{axis}]<2", f"{tensor}.shape[{axis}]<=1", f"{tensor}.size({axis})<2", f"{tensor}.size({axis})<=1")


def size_one_axis(chk):
    """C14.R6.  Every module shape is in the quantifier, so `shape[axis] == 1` alone is never a reason to refuse.  The symmetric quantizer does refuse it
    (per-axis along a single index is per-tensor, and it wants to be told so): quantize_weight rewrites the axis before it calls that quantizer.
    Whatever quantizer carries such a refusal needs the rewrite on every path of quantize_weight that reaches it."""
    repo = chk.repo
    mi, qw = repo.func("quantize_weight")
    t, qt, ax = positional_params(qw)[:3]
    n = 0
    for cname in ("SymmetricQuantizer", "AffineQuantizer"):
        ci = repo.cls(cname)
        fwd = ci.own("forward") if ci is not None else None
        if fwd is None:
            continue
        n += 1
        ps_ = positional_params(fwd)
        base, axis_p = ps_[1], ps_[3]
        refusals = []
        for p in paths_of(fwd):
            if p.end[0] != "raise" or not p.conds:
                continue
            c, tr, line = p.conds[-1]
            if any(pol is True and _size_one_atom(a, base, axis_p) for a, pol in atoms(c, tr)):
                refusals.append(p.end[2])
        if not refusals:
            chk.ok("C14.R6", f"{ci.mod.rel}:{fwd.lineno}", f"{cname}.forward accepts a quantization axis of size one")
            continue
        # the callers: paths of quantize_weight that return <cname>.apply(t, qtype, axis, ...)
        n_call = 0
        for p in paths_of(qw):
            e = p.end[1]
            if p.end[0] != "return" or not (isinstance(e, ast.Call) and U(e.func) == f"{cname}.apply" and len(e.args) >= 3):
                continue
            n_call += 1
            axis_arg = U(e.args[2])
            rewritten = axis_arg == "None"
            excluded = False
            for c, tr, _ in p.conds:
                core = c
                pol = tr
                while isinstance(core, ast.UnaryOp) and isinstance(core.op, ast.Not):
                    core, pol = core.operand, not pol
                if pol is False and isinstance(core, ast.BoolOp) and isinstance(core.op, ast.And):
                    vals = [U(v) for v in core.values]
                    if any(_size_one_atom(v, t, ax) for v in vals) and all(_size_one_atom(v, t, ax) or v.replace(" ", "") == f"{ax}isnotNone" for v in vals):
                        excluded = True
                elif pol is False and _size_one_atom(U(core), t, ax):
                    excluded = True
                elif (pol is False and U(core).replace(" ", "") == f"{ax}isnotNone") or (pol is True and U(core).replace(" ", "") == f"{ax}isNone"):
                    excluded = True  # no axis at all on this path: the per-axis guards of the quantizer are not reached
                elif pol is True and U(core).replace(" ", "") in (f"{t}.shape[{ax}]>1", f"{t}.shape[{ax}]!=1", f"{t}.shape[{ax}]>=2"):
                    excluded = True
            chk.require("C14.R6", f"{mi.rel}:{p.end[2]}", rewritten or excluded, f"quantize_weight reaches {cname} (which refuses an axis of size one at line {refusals[0]}) only after rewriting such an axis to per-tensor "
                        f"(axis argument `{axis_arg}`; path: {' & '.join(p.cond_texts())[:120]})", "quantize_weight", f"size-one axis reaches {cname}",
                        "quantize_weight(torch.randn(1, 64), qint4, axis=0): ValueError - QLinear.from_module(Linear(64, 1), weights=qint4) and Conv2d with one output channel can no longer be quantized")
        if n_call == 0:
            chk.ok("C14.R6", f"{ci.mod.rel}:{fwd.lineno}", f"{cname}.forward refuses an axis of size one and is not called by quantize_weight")
    chk.floor("C14.R6", n, 2, "quantizer classes scanned for a size-one refusal")


def group_size_rule(chk):
    repo = chk.repo
    ci = repo.cls("QModuleMixin")
    mi = ci.mod
    # every non-None value that can reach self.weight_group_size
    sources = []
    for m in ci.node.body:
        if isinstance(m, ast.FunctionDef):
            for p in paths_of(m):
                for ef in p.effects:
                    if ef[0] == "store" and U(ef[1]) == "self" and ef[2] == "weight_group_size":
                        sources.append((m, p, ef[3], ef[4]))
    chk.floor("C14.R3", len(sources), 1, "stores to weight_group_size")
    checked = 0
    for m, p, val, line in sources:
        vt = U(val)
        if vt == "None":
            continue
        # value produced by a helper: analyse the helper's return paths
        targets = []
        if isinstance(val, ast.Call) and isinstance(val.func, ast.Attribute) and U(val.func.value) == "self" and ci.own(val.func.attr) is not None:
            h = ci.own(val.func.attr)
            for hp in paths_of(h):
                if hp.end[0] == "return" and hp.end[1] is not None and U(hp.end[1]) != "None":
                    targets.append((h, hp, hp.end[1], hp.end[2]))
                elif hp.end[0] == "fall":
                    pass
        else:
            targets.append((m, p, val, line))
        from ..core import facts_with, ifexp_cases
        targets = [(fn, tp, cv, tl, extra) for fn, tp, tv, tl in targets for cv, extra in ifexp_cases(tv) if U(cv) != "None"]
        for fn, tp, tv, tl, extra in targets:
            checked += 1
            f = facts_with(tp, extra)
            from ..core import strip_identity
            tvt = U(strip_identity(tv))
            feat = "self.weight.numel() // self.weight.shape[0]"
            ok = any(f.get(a) is t for a, t in ((f"{feat} % {tvt} == 0", True), (f"{feat} % {tvt} != 0", False)))
            ok_feat = True
            chk.require("C14.R3", f"{mi.rel}:{tl}", ok, f"{fn.name}: the non-None group size `{tvt[:40]}` is produced under `{feat} % group_size == 0`", f"QModuleMixin.{fn.name}", "group size divides in_features", "a Linear/Conv2d whose per-output element count is not a multiple of the chosen group size: quantize_weight raises at the first forward")
    chk.floor("C14.R3", checked, 1, "non-None group-size producers")


def qtype_by_name(chk):
    repo = chk.repo
    ci = repo.cls("QModuleMixin")
    init = ci.own("__init__")
    found = {}
    for p in paths_of(init):
        for ef in p.effects:
            if ef[0] == "store" and U(ef[1]) == "self" and ef[2] in ("weight_qtype", "activation_qtype"):
                found.setdefault(ef[2], []).append((p, ef[3]))
    for attr, par in (("weight_qtype", "weights"), ("activation_qtype", "activations")):
        vals = found.get(attr, [])
        texts = {U(v) for _, v in vals}
        ok = f"qtypes[{par}]" in texts and par in texts and len(texts) == 2
        # the lookup happens exactly when the value is a non-None non-qtype
        ok2 = all((U(v) == f"qtypes[{par}]") == (facts_of(p).get(f"{par} is None") is False and facts_of(p).get(f"isinstance({par}, qtype)") is False) for p, v in vals)
        chk.require("C14.R4", f"{ci.mod.rel}:{init.lineno}", ok and ok2, f"QModuleMixin.__init__: `{par}` given by name is looked up in qtypes, a qtype or None is kept ({sorted(texts)})", "QModuleMixin.__init__", f"{par} by name", f"QLinear(..., {par}='qint8'): the string is stored instead of the qtype")


_GROUP_COUNT_EXAMPLE = """
def good(t, group_size, axis):
    axis_numel = t.numel() // t.shape[axis]
    return axis_numel // group_size

def good2d(size, group_size):
    out_features, in_features = size
    return in_features // group_size

def bad(t):
    groups = 1 if t._group_size is None else t.shape[1] // t._group_size
    return groups
"""


def _group_count_sites(fn):
    """(node, numerator text, verdict) for every `N // G` / `N % G` of `fn` whose divisor is a group size.  The number of groups of one index of the
    quantization axis is (numel // shape[axis]) // group_size: the numerator is that per-index element count (written out, a local bound to it, the
    element count of a grouped tensor divided by its axis extent) - or a plain extent of a tensor known to be 2-D (unpacked into exactly two names)."""
    locs = {}
    two_d = set()
    for a in ast.walk(fn):
        if isinstance(a, ast.Assign) and len(a.targets) == 1:
            t = a.targets[0]
            if isinstance(t, ast.Name):
                locs.setdefault(t.id, []).append(a.value)
            elif isinstance(t, (ast.Tuple, ast.List)) and len(t.elts) == 2 and all(isinstance(e, ast.Name) for e in t.elts) and not isinstance(a.value, (ast.Tuple, ast.List)):
                two_d.update(e.id for e in t.elts)  # `out_features, in_features = size`: a 2-D size

    def total_count(e, depth=2):
        # the element count of a whole tensor / shape: `t.numel()`, `shape.numel()`, or a local bound to one
        if isinstance(e, ast.Call) and isinstance(e.func, ast.Attribute) and e.func.attr == "numel" and not e.args:
            return True
        return isinstance(e, ast.Name) and depth > 0 and e.id in locs and all(total_count(v, depth - 1) for v in locs[e.id])

    def axis_extent(e, depth=2):
        if isinstance(e, ast.Subscript) and (U(e.value).endswith(".shape") or U(e.value) in ("shape", "size", "orig_shape")):
            return True
        return isinstance(e, ast.Name) and depth > 0 and e.id in locs and all(axis_extent(v, depth - 1) for v in locs[e.id])

    def per_index(e, depth=3):
        if total_count(e):
            return True  # the total number of groups of the tensor: numel // group_size
        if isinstance(e, ast.BinOp) and isinstance(e.op, ast.FloorDiv) and total_count(e.left) and axis_extent(e.right):
            return True
        x = U(e).replace(" ", "")
        if isinstance(e, ast.BinOp) and isinstance(e.op, ast.FloorDiv):
            l, r = U(e.left).replace(" ", ""), U(e.right).replace(" ", "")
            if l.endswith(".numel()") and (r.startswith(l[:-8] + ".shape[") or r in locs or r.endswith("_dim")):
                return True
            if isinstance(e.left, ast.BinOp):  # grouped.numel() // axis_dim // group_size is parsed left to right: judged at the inner node
                return False
        if x.startswith(("math.prod(", "prod(")) and ".shape[1:]" in x:
            return True
        if isinstance(e, ast.Name):
            if e.id in two_d:
                return True
            return depth > 0 and e.id in locs and all(per_index(v, depth - 1) for v in locs[e.id])
        return False

    out = []
    params = [a.arg for a in fn.args.args]
    for n in ast.walk(fn):
        if isinstance(n, ast.BinOp) and isinstance(n.op, (ast.FloorDiv, ast.Mod)):
            d = U(n.right)
            if d.split(".")[-1] in ("group_size", "_group_size", "weight_group_size"):
                if isinstance(n.left, ast.Name) and n.left.id in params and n.left.id not in locs:
                    out.append((n, U(n.left), ("param", params.index(n.left.id))))  # judged at the call sites (a checking helper handed the count)
                else:
                    out.append((n, U(n.left), per_index(n.left)))
    return out, per_index


def group_count_rule(chk, rule="C14.R8"):
    tree = ast.parse(_GROUP_COUNT_EXAMPLE)
    fns = {f.name: f for f in tree.body}
    v = {k: [ok for _, _, ok in _group_count_sites(f)[0]] for k, f in fns.items()}
    if v != {"good": [True], "good2d": [True], "bad": [False]}:
        raise AnalysisError(f"group-count detector misjudges its built-in examples: {v}")
    repo = chk.repo
    n = 0
    for mi in repo.modules.values():
        if not mi.rel.startswith("optimum/quanto/"):
            continue
        fns_ = [x for x in ast.walk(mi.tree) if isinstance(x, ast.FunctionDef)]
        for fn in fns_:
            for node, num, ok in _group_count_sites(fn)[0]:
                n += 1
                if isinstance(ok, tuple):
                    # the dividend is a parameter: every call of the helper in its module passes the per-index count
                    idx = ok[1]
                    calls = [(f2, c) for f2 in fns_ for c in ast.walk(f2) if isinstance(c, ast.Call) and U(c.func).split(".")[-1] == fn.name and len(c.args) > idx]
                    ok = bool(calls) and all(_group_count_sites(f2)[1](c.args[idx]) for f2, c in calls)
                chk.require(rule, f"{mi.rel}:{node.lineno}", ok, f"{fn.name}: `{U(node)[:60]}` divides the per-index element count (numel // shape[axis]) by the group size", fn.name, "group count from a single extent",
                            "a grouped conv weight (8, 128, 3, 3) with group_size 128 has 9 groups per output channel, not shape[1] // 128 = 1: one line of payload, scale and zero-point is taken per row where nine are needed - "
                            "the result reports (4, 128, 3, 3) and holds 512 codes for 4608 elements")
    chk.floor(rule, n, 4, "group-count expressions")
