"""C16 - finite tensors never quantize to NaN/Inf, whatever their range (structural clauses)."""
import ast

from .. import quant
from ..core import AnalysisError, U, inline, path_facts, paths_of, positional_params
from ..hand import ctor_fields
from . import c02

TITLE = "Finite tensors never quantize to NaN/Inf, whatever their range"

RULES = {
    "C16.R1": "no NaN into float codes: on the float8 path of the symmetric quantizer the quotient base/scale is sanitised (0/0 -> 0) before the cast, or every scale source is bounded away from zero",
    "C16.R2": "collapsed groups: an affine scale can be zero only for an all-zero group, i.e. the affine range includes zero",
    "C16.R3": "the zero-point and the int8 subtraction of the dequantizer stay in range (needs R2)",
    "C16.R5": "one-sided rows: the default symmetric optimizer and absmax_scale take the maximum of |x| on every path (a row whose extreme is negative still gets absmax/qmax)",
    "C16.R8": "the largest code times the scale stays representable: a scale obtained by dividing an extremum by the code range is rounded to nearest, so multiplying it back can exceed the extremum by an ulp - when the extremum is the largest number of the dtype the dequantized value is inf; the scale must be bounded above (clamp / minimum against finfo(dtype).max over the code range) or rounded down",
    "C16.R6": "magnitudes near the dtype maximum: the affine range width and the zero-point are computed without an intermediate that exceeds the extrema themselves (no raw `rmax - rmin` of opposite-sign extrema, no extremum multiplied by the code span)",
    "C16.R9": "inference after calibration stays finite and uses the current weights: the quantized linear applies every scale before the accumulator is narrowed to the module dtype (C07.R2: a partially scaled product overflows float16 although the result is representable), and the dynamic weight is quantized from the current self.weight on every access (a layer whose weights were zeroed outputs its bias)",
    "C16.R7": "the error bounds of C01/C02 hold on the degenerate classes too: the quantizer pipelines of C01.R1 (divide by the stored scale, sanitise, round iff integer, clamp to the storage range for EVERY qtype, cast) and C02.R1/R3 (divide by the stored scale with no offset, round, add zero-point, clamp, cast; matching dequantizer) are re-checked here",
    "C16.R10": "a scale may be zero (an all-zero row, channel or batch): outside the quantizer pipelines judged by R1 / R7 - in the operator handlers, the function wrappers, the kernels, the modules and the calibration hooks - no quotient has a scale in its denominator unless that quotient is sanitised (nan_to_num / where on the scale) before it is used",
    "C16.R11": "calibrated scales are finite whenever the batch is: the hooks store absmax / qmax of the tensor they observe, through the moving average alone (the rules C12.R3 / C12.R4 re-checked - a statistic over a selection that can be empty is NaN)",
    "C16.R4": "dequantization multiplies codes by the scale only: a zero scale yields exactly zero, a finite scale finite values",
}

LOWER_BOUNDS = ("clamp", "clip", "maximum", "clamp_min")


def run(chk):
    for k, v in RULES.items():
        chk.rule(k, v)
    repo = chk.repo
    ci = repo.cls("SymmetricQuantizer")
    mi = ci.mod
    fwd = ci.own("forward")
    ps_ = positional_params(fwd)
    base, qt, axis, scale = ps_[1], ps_[2], ps_[3], ps_[4]
    # scale sources: bounded away from zero?
    sources_bounded = True
    src_notes = []
    for fname in ("absmax_scale",):
        m, f = repo.func(fname)
        for p in paths_of(f):
            if p.end[0] == "return":
                bounded = any(isinstance(n, ast.Call) and isinstance(n.func, ast.Attribute) and n.func.attr in LOWER_BOUNDS and any(k.arg == "min" for k in n.keywords) for n in ast.walk(p.end[1])) or any(isinstance(n, ast.BinOp) and isinstance(n.op, ast.Add) and isinstance(n.right, ast.Constant) and isinstance(n.right.value, float) and n.right.value > 0 for n in ast.walk(p.end[1]))
                if not bounded:
                    sources_bounded = False
                    src_notes.append(f"{fname} (all-zero calibration batch)")
    mi_q, _ = repo.func("quantize_weight")
    sd = mi_q.defs.get("default_symmetric_optimizer")
    if isinstance(sd, ast.Call):
        oc = repo.cls(U(sd.func), mi_q)
        oci, opt = repo.method(oc, "optimize")
        for p in paths_of(opt):
            if p.end[0] == "return":
                bounded = any(isinstance(n, ast.Call) and isinstance(n.func, ast.Attribute) and n.func.attr in LOWER_BOUNDS and (any(k.arg == "min" for k in n.keywords) or n.func.attr in ("maximum", "clamp_min")) for n in ast.walk(p.end[1]))
                if not bounded:
                    sources_bounded = False
                    src_notes.append(f"{oci.name}.optimize (all-zero row)")
    n = 0
    for p in paths_of(fwd):
        if p.end[0] != "return":
            continue
        e = p.end[1]
        if not (isinstance(e, ast.Call) and U(e.func) == "QBytesTensor"):
            continue
        facts = path_facts(p)
        fp = facts.get(f"{qt}.is_floating_point")
        f = ctor_fields(repo, "QBytesTensor", e)
        stages = quant.peel(inline(repo, mi, f["data"]))
        names = quant.stage_names(stages)
        site = f"{mi.rel}:{p.end[2]}"
        if "div" not in names and any(isinstance(x, ast.Attribute) and x.attr == "_data" for x in ast.walk(f["data"])):
            # an alternative route that reuses the codes of an already quantized base: no quotient at all on this path
            chk.unknown("C16.R1", site, f"SymmetricQuantizer.forward: on the path [{' & '.join(p.cond_texts())[:70]}] the codes of a quantized base are reused (stages {names}): not followed")
            continue
        sanitised = False
        for i, s in enumerate(stages):
            if s[0] == "nan_to_num":
                nan = s[1].get("nan")
                sanitised = nan is None or (isinstance(nan, ast.Constant) and nan.value in (0, 0.0))
            if s[0] == "where":
                z = quant.is_zero_test(s[1], scale)
                sanitised = z is not None or U(s[1]).startswith("torch.isnan(")
        # the sanitiser must sit between the division and the cast
        pos_ok = sanitised and "div" in names and names.index("div") > max(i for i, s in enumerate(stages) if s[0] in ("nan_to_num", "where"))
        # the divisor rewritten in place before the division (`scale[scale == 0] = 1`, `scale.clamp_(min=...)`, `scale.masked_fill_(...)`): a
        # sanitiser of the divisor itself, which the stage vocabulary of this rule (quotient sanitisers) does not describe
        rewrites = [ef for ef in p.effects if (ef[0] in ("substore", "augstore") and U(ef[1]) == scale) or
                    (ef[0] == "expr" and isinstance(ef[1], ast.Call) and isinstance(ef[1].func, ast.Attribute) and ef[1].func.attr.endswith("_") and U(ef[1].func.value) == scale)]
        if fp is not False and rewrites and not ((sanitised and pos_ok) or sources_bounded):
            n += 1
            chk.unknown("C16.R1", site, f"SymmetricQuantizer.forward [float8 path]: the divisor `{scale}` is rewritten in place before the division (`{U(rewrites[0][1])[:40]}`): whether a null scale survives is not decided")
            continue
        if fp is not False:
            n += 1
            ok = (sanitised and pos_ok) or sources_bounded
            if ok:
                chk.ok("C16.R1", site, f"float8 path: quotient sanitised before the cast (stages {names})" if sanitised else "float8 path: every scale source is bounded away from zero")
            else:
                chk.bad("C16.R1", site, "SymmetricQuantizer.forward", "0/0 reaches the float8 cast", f"SymmetricQuantizer.forward [float8 path]: stages {names}: the quotient {base}/{scale} reaches the cast to a float8 dtype unsanitised while the scale can be zero at its sources: {src_notes}",
                        "an all-zero weight row (quantize_weight with a float8 qtype) or an all-zero calibration batch (float8 activations): 0/0 = NaN codes, NaN outputs")
    chk.floor("C16.R1", n, 1, "float8 quantizer paths")
    c02.optimizer_range(chk, "C16")
    # R4: dequantizers are scale * codes (no division, no log...)
    for cname in ("QBytesDequantizer", "QBitsDequantizer", "AWQBitsDequantizer"):
        if not repo.has_cls(cname):
            continue
        dq = repo.cls(cname)
        fw = dq.own("forward")
        divs = [U(nd) for nd in ast.walk(fw) if isinstance(nd, ast.BinOp) and isinstance(nd.op, (ast.Div, ast.FloorDiv, ast.Pow))]
        calls = [U(nd.func) for nd in ast.walk(fw) if isinstance(nd, ast.Call) and U(nd.func).split(".")[-1] in ("div", "reciprocal", "log", "exp", "sqrt", "pow")]
        chk.require("C16.R4", f"{dq.mod.rel}:{fw.lineno}", not divs and not calls, f"{cname}.forward only multiplies and subtracts (divisions: {divs}, calls: {calls})", f"{cname}.forward", "dequantizer arithmetic", "a zero scale or zero code: division by zero on dequantization")
    abs_rule(chk)
    overflow_rule(chk)
    scale_bound_rule(chk)
    from ..report import AliasedCheck
    from . import c01
    c01.run(AliasedCheck(chk, {"C01.R1": "C16.R7"}))
    c02.run(AliasedCheck(chk, {"C02.R1": "C16.R7", "C02.R3": "C16.R7"}))
    if chk.pid == "C16":
        # "calibration followed by inference": the linear route never narrows an accumulator whose payloads are not all scaled yet
        # (C07.R2, single rounding), and a layer computes with its CURRENT weights (zero weights -> exactly the bias): weight-source rule
        from . import c07
        from .c09 import qweight_source
        hn = {}
        for nm in c07.HELPERS:
            try:
                hn[nm] = repo.func(nm)[1]
            except AnalysisError:
                pass
        c07.linear_forward(AliasedCheck(chk, {"C07.R2": "C16.R9"}), hn)
        qweight_source(chk, r2="C16.R9", r3="C16.R9")
        scale_denominators(chk)
        from . import c12
        c12.run(AliasedCheck(chk, {"C12.R3": "C16.R11", "C12.R4": "C16.R11"}))
    chk.assume("x * 0 == 0 and finite * finite is finite within the dtype range; overflow near the dtype maximum is decided for the affine range width and zero-point only (C16.R6), where an intermediate can exceed the data by construction")


def abs_rule(chk):
    """C16.R5: every symmetric range is a maximum of |x| (shares the recogniser of C03.R2)."""
    from .. import scales
    repo = chk.repo
    mi_q, _ = repo.func("quantize_weight")
    targets = []
    sd = mi_q.defs.get("default_symmetric_optimizer")
    if isinstance(sd, ast.Call):
        oci, opt = repo.method(repo.cls(U(sd.func), mi_q), "optimize")
        targets.append((oci.mod, opt, f"{oci.name}.optimize", positional_params(opt)[1]))
    m, f = repo.func("absmax_scale")
    targets.append((m, f, "absmax_scale", positional_params(f)[0]))
    n = 0
    for mi, fn, qn, b in targets:
        for p in paths_of(fn):
            if p.end[0] != "return":
                continue
            e, _floors = scales.peel_floor(p.end[1])
            site = f"{mi.rel}:{p.end[2]}"
            if not (isinstance(e, ast.BinOp) and isinstance(e.op, ast.Div)):
                chk.unknown("C16.R5", site, f"{qn}: scale `{U(e)[:60]}` is not range / qmax")
                continue
            if scales.alternative_route(p, e.left):
                chk.unknown("C16.R5", site, f"{qn}: the range `{U(e.left)[:50]}` comes from an alternative route: not followed")
                continue
            r = scales.reduction(e.left)
            if r is None:
                chk.unknown("C16.R5", site, f"{qn}: numerator `{U(e.left)[:60]}` is not a max/amax reduction")
                continue
            n += 1
            chk.require("C16.R5", site, r.n_abs >= 1 and r.source == b, f"{qn}: the range is a maximum of |{b}| (abs x{r.n_abs} of `{r.source}`)", qn, "abs before max",
                        "a row (or a tensor quantized per-tensor, e.g. Linear(n, 1)) whose largest magnitude is negative: the scale is too small, zero or negative")
    chk.floor("C16.R5", n, 3, "symmetric range terms")


def _is_extremum(e, b) -> bool:
    from .. import scales
    for n in ast.walk(e):
        r = scales.reduction(n) if isinstance(n, ast.Call) else None
        if r is not None and r.reduce in ("amax", "amin", "max", "min") and r.source == b:
            return True
    return False


def scale_bound_rule(chk, rule="C16.R8"):
    """C16.R8: every default optimizer bounds its scale so that qmax * scale is representable."""
    repo = chk.repo
    mi_q, _ = repo.func("quantize_weight")
    n = 0
    for dname, what, wit in (("default_affine_optimizer", "affine", "a float16 group [0, 65504] quantized to qint4: scale = 65504/15 rounds up to 4368 and 15 * 4368 = 65520 is inf in float16"),
                             ("default_symmetric_optimizer", "symmetric", "a float16 (or float32) row containing +/- the largest number of the dtype, qint8 or float8: scale = 65504/127 rounds up to 516 and 127 * 516 is inf")):
        default = mi_q.defs.get(dname)
        if not (isinstance(default, ast.Call) and isinstance(default.func, ast.Name)):
            chk.unknown(rule, mi_q.rel, f"{dname} not found")
            continue
        oci, opt = repo.method(repo.cls(default.func.id, mi_q), "optimize")
        qn = f"{oci.name}.optimize"
        for p in paths_of(opt):
            if p.end[0] != "return" or p.end[1] is None:
                continue
            sc = p.end[1].elts[0] if isinstance(p.end[1], ast.Tuple) else p.end[1]
            n += 1
            bounded = False
            for x in ast.walk(sc):
                if isinstance(x, ast.Call) and (U(x.func) in ("torch.clamp", "torch.minimum", "torch.clamp_max") or (isinstance(x.func, ast.Attribute) and x.func.attr in ("clamp", "clamp_max", "minimum"))):
                    if "finfo" in U(x) or "dtype_info" in U(x):
                        bounded = True
                if isinstance(x, ast.Call) and U(x.func) in ("torch.nextafter",):
                    bounded = True
            chk.require(rule, f"{oci.mod.rel}:{p.end[2]}", bounded, f"{qn}: the {what} scale `{U(sc)[:70]}` is bounded so that the extreme code times the scale stays representable", qn, "scale times the extreme code can overflow", wit)
    chk.floor(rule, n, 2, "default optimizer return paths")


def overflow_rule(chk):
    """C16.R6: intermediates of the affine range never exceed the extrema by construction."""
    from ..core import fold_int
    repo = chk.repo
    mi_q, _ = repo.func("quantize_weight")
    default = mi_q.defs.get("default_affine_optimizer")
    if not (isinstance(default, ast.Call) and isinstance(default.func, ast.Name)):
        chk.unknown("C16.R6", mi_q.rel, "default affine optimizer not found")
        return
    oci, opt = repo.method(repo.cls(default.func.id, mi_q), "optimize")
    b, bits = positional_params(opt)[1:3]
    qn = f"{oci.name}.optimize"
    n = 0
    for p in paths_of(opt):
        if p.end[0] != "return" or not (isinstance(p.end[1], ast.Tuple) and len(p.end[1].elts) == 2):
            continue
        n += 1
        site = f"{oci.mod.rel}:{p.end[2]}"
        sc, z = p.end[1].elts
        widened = any(isinstance(x, ast.Call) and isinstance(x.func, ast.Attribute) and x.func.attr in ("double",) for x in ast.walk(sc))
        # (a) a difference of two raw extrema: |rmax - rmin| reaches |rmax| + |rmin| for a mixed-sign group
        diffs = [x for x in ast.walk(sc) if isinstance(x, ast.BinOp) and isinstance(x.op, ast.Sub) and _is_extremum(x.left, b) and _is_extremum(x.right, b)
                 and not any(isinstance(y, ast.BinOp) and isinstance(y.op, ast.Div) for y in (x.left, x.right))]
        if diffs and not widened:
            chk.bad("C16.R6", site, qn, "range width overflows", f"{qn}: the scale subtracts two raw extrema (`{U(diffs[0])[:70]}`) in the working dtype: for a group holding values of both signs beyond half the dtype maximum the difference is inf, the scale is inf and every element dequantizes to NaN (0 x inf)",
                    "float16 weights with +5e4 and -5e4 in one group (or float32 with +/-3e38): quantize_weight(w, qint4, 0, 32).dequantize() is NaN for that group")
        else:
            chk.ok("C16.R6", site, f"{qn}: the range width is not a raw difference of extrema in the working dtype")
        # (b) an extremum multiplied by a constant > 1 (e.g. the code span) before any division
        prods = []
        for x in list(ast.walk(z)) + list(ast.walk(sc)):
            if isinstance(x, ast.BinOp) and isinstance(x.op, ast.Mult):
                for ext, k in ((x.left, x.right), (x.right, x.left)):
                    if _is_extremum(ext, b) and not any(isinstance(y, ast.BinOp) and isinstance(y.op, ast.Div) for y in ast.walk(ext)):
                        vals = [fold_int(k, {bits: nb}) for nb in (2, 4)]
                        if all(isinstance(v, (int, float)) for v in vals) and max(abs(v) for v in vals) > 1:
                            prods.append((x, vals))
        if prods:
            x, vals = prods[0]
            chk.bad("C16.R6", site, qn, "extremum multiplied before the division", f"{qn}: `{U(x)[:80]}` multiplies an extremum by {vals} (bits 2/4) before dividing: the product is inf for |x| beyond dtype_max/{max(vals)} although the quotient is at most the code span",
                    "float16 weights with values around 2e4 of both signs (or float32 around 1e38), qint4: the zero-point becomes 0 and one side of the group collapses")
        else:
            chk.ok("C16.R6", site, f"{qn}: no extremum is multiplied by a constant larger than one")
    chk.floor("C16.R6", n, 1, "affine optimizer return paths")


_SCALE_DIV_EXAMPLE = """
def handler(op, input, weight, bias):
    out_scales = input._scale.to(torch.float32) * weight._scale.to(torch.float32)
    acc_bias = bias.to(torch.float32) / out_scales.flatten()
    safe = torch.nan_to_num(bias / out_scales, nan=0.0)
    ratio = input._scale / 2
    return acc_bias, safe, ratio
"""


def _scale_denominators(fn):
    """the division nodes of `fn` whose denominator is derived from a scale (`._scale`, or a local computed from one) and whose quotient is not
    the direct argument of a sanitiser"""
    derived = set()
    changed = True
    assigns = [a for a in ast.walk(fn) if isinstance(a, ast.Assign) and len(a.targets) == 1 and isinstance(a.targets[0], ast.Name)]

    def scaly(e):
        return any((isinstance(n, ast.Attribute) and n.attr in ("_scale", "input_scale", "output_scale")) or (isinstance(n, ast.Name) and n.id in derived) for n in ast.walk(e))
    while changed:
        changed = False
        for a in assigns:
            if a.targets[0].id not in derived and scaly(a.value):
                derived.add(a.targets[0].id)
                changed = True
    sanitised = set()
    for n in ast.walk(fn):
        if isinstance(n, ast.Call) and U(n.func).split(".")[-1] in ("nan_to_num", "nan_to_num_", "where") and n.args:
            for x in ast.walk(n):
                sanitised.add(id(x))
    out = []
    for n in ast.walk(fn):
        den = None
        if isinstance(n, ast.BinOp) and isinstance(n.op, (ast.Div, ast.FloorDiv)):
            den = n.right
        elif isinstance(n, ast.Call) and U(n.func).split(".")[-1] in ("div", "divide", "true_divide", "div_") and (len(n.args) == 2 or (isinstance(n.func, ast.Attribute) and not U(n.func).startswith("torch.") and len(n.args) == 1)):
            den = n.args[-1]
        elif isinstance(n, ast.Call) and U(n.func).split(".")[-1] == "reciprocal" and (n.args or isinstance(n.func, ast.Attribute)):
            den = n.args[0] if n.args else n.func.value
        if den is not None and scaly(den) and id(n) not in sanitised:
            out.append(n)
    return out


def scale_denominators(chk):
    tree = ast.parse(_SCALE_DIV_EXAMPLE)
    got = _scale_denominators(tree.body[0])
    if len(got) != 1:
        raise AnalysisError(f"scale-denominator detector finds {len(got)} of the 1 unsanitised quotient of its built-in example")
    repo = chk.repo
    n = 0
    scope = ("optimum/quanto/tensor/qbytes_ops.py", "optimum/quanto/tensor/qbits/qbits_ops.py", "optimum/quanto/tensor/qtensor_func.py", "optimum/quanto/library/", "optimum/quanto/nn/", "optimum/quanto/calibrate.py",
             "optimum/quanto/tensor/qbytes.py", "optimum/quanto/tensor/qbits/qbits.py", "optimum/quanto/tensor/qbits/awq/qbits.py")
    for mi in repo.modules.values():
        if not any(mi.rel.startswith(s_) for s_ in scope):
            continue
        for fn in [x for x in ast.walk(mi.tree) if isinstance(x, ast.FunctionDef)]:
            n += 1
            for d in _scale_denominators(fn):
                chk.bad("C16.R10", f"{mi.rel}:{d.lineno}", fn.name, "quotient with a scale in its denominator", f"NOT: `{U(d)[:70]}` in {fn.name} divides by a scale, which is zero for an all-zero row / channel / batch, and the quotient is not sanitised",
                        "a QConv2d with a bias and a pruned (all-zero) output channel, or an all-zero calibration batch: bias / 0 = inf, (acc + inf) * 0 = NaN - the output of the layer is NaN instead of its bias")
    chk.ok("C16.R10", "optimum/quanto", f"{n} functions of the handlers, wrappers, kernels, modules and hooks scanned: no unsanitised quotient by a scale")
    chk.floor("C16.R10", n, 60, "functions scanned for quotients by a scale")
