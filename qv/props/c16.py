"""C16 - finite tensors never quantize to NaN/Inf, whatever their range (structural clauses)."""
import ast

from .. import quant
from ..core import AnalysisError, U, inline, path_facts, paths_of, positional_params
from ..hand import ctor_fields
from . import c02

TITLE = "Finite tensors never quantize to NaN/Inf, whatever their range"

RULES = {
    "C16.R1": "no NaN into float codes: on the float8 path of the symmetric quantizer the quotient base/scale is sanitised (0/0 -> 0) before the cast, or every scale source is bounded away from zero",
    "C16.R2": "collapsed groups: an affine scale can be zero only for an all-zero group, i.e. the affine range includes zero",
    "C16.R3": "the zero-point and the int8 subtraction of the dequantizer stay in range (needs R2)",
    "C16.R4": "dequantization multiplies codes by the scale only: a zero scale yields exactly zero, a finite scale finite values",
}

LOWER_BOUNDS = ("clamp", "clip", "maximum", "clamp_min")


def run(chk):
    for k, v in RULES.items():
        chk.rule(k, v)
    repo = chk.repo
    ci = repo.cls("SymmetricQuantizer")
    mi = ci.mod
    fwd = ci.own("forward")
    ps_ = positional_params(fwd)
    base, qt, axis, scale = ps_[1], ps_[2], ps_[3], ps_[4]
    # scale sources: bounded away from zero?
    sources_bounded = True
    src_notes = []
    for fname in ("absmax_scale",):
        m, f = repo.func(fname)
        for p in paths_of(f):
            if p.end[0] == "return":
                bounded = any(isinstance(n, ast.Call) and isinstance(n.func, ast.Attribute) and n.func.attr in LOWER_BOUNDS and any(k.arg == "min" for k in n.keywords) for n in ast.walk(p.end[1])) or any(isinstance(n, ast.BinOp) and isinstance(n.op, ast.Add) and isinstance(n.right, ast.Constant) and isinstance(n.right.value, float) and n.right.value > 0 for n in ast.walk(p.end[1]))
                if not bounded:
                    sources_bounded = False
                    src_notes.append(f"{fname} (all-zero calibration batch)")
    mi_q, _ = repo.func("quantize_weight")
    sd = mi_q.defs.get("default_symmetric_optimizer")
    if isinstance(sd, ast.Call):
        oc = repo.cls(U(sd.func), mi_q)
        oci, opt = repo.method(oc, "optimize")
        for p in paths_of(opt):
            if p.end[0] == "return":
                bounded = any(isinstance(n, ast.Call) and isinstance(n.func, ast.Attribute) and n.func.attr in LOWER_BOUNDS and (any(k.arg == "min" for k in n.keywords) or n.func.attr in ("maximum", "clamp_min")) for n in ast.walk(p.end[1]))
                if not bounded:
                    sources_bounded = False
                    src_notes.append(f"{oci.name}.optimize (all-zero row)")
    n = 0
    for p in paths_of(fwd):
        if p.end[0] != "return":
            continue
        e = p.end[1]
        if not (isinstance(e, ast.Call) and U(e.func) == "QBytesTensor"):
            continue
        facts = path_facts(p)
        fp = facts.get(f"{qt}.is_floating_point")
        f = ctor_fields(repo, "QBytesTensor", e)
        stages = quant.peel(inline(repo, mi, f["data"]))
        names = quant.stage_names(stages)
        site = f"{mi.rel}:{p.end[2]}"
        sanitised = False
        for i, s in enumerate(stages):
            if s[0] == "nan_to_num":
                nan = s[1].get("nan")
                sanitised = nan is None or (isinstance(nan, ast.Constant) and nan.value in (0, 0.0))
            if s[0] == "where":
                z = quant.is_zero_test(s[1], scale)
                sanitised = z is not None or U(s[1]).startswith("torch.isnan(")
        # the sanitiser must sit between the division and the cast
        pos_ok = sanitised and "div" in names and names.index("div") > max(i for i, s in enumerate(stages) if s[0] in ("nan_to_num", "where"))
        if fp is not False:
            n += 1
            ok = (sanitised and pos_ok) or sources_bounded
            if ok:
                chk.ok("C16.R1", site, f"float8 path: quotient sanitised before the cast (stages {names})" if sanitised else "float8 path: every scale source is bounded away from zero")
            else:
                chk.bad("C16.R1", site, "SymmetricQuantizer.forward", "0/0 reaches the float8 cast", f"SymmetricQuantizer.forward [float8 path]: stages {names}: the quotient {base}/{scale} reaches the cast to a float8 dtype unsanitised while the scale can be zero at its sources: {src_notes}",
                        "an all-zero weight row (quantize_weight with a float8 qtype) or an all-zero calibration batch (float8 activations): 0/0 = NaN codes, NaN outputs")
    chk.floor("C16.R1", n, 1, "float8 quantizer paths")
    c02.optimizer_range(chk, "C16")
    # R4: dequantizers are scale * codes (no division, no log...)
    for cname in ("QBytesDequantizer", "QBitsDequantizer"):
        dq = repo.cls(cname)
        fw = dq.own("forward")
        divs = [U(nd) for nd in ast.walk(fw) if isinstance(nd, ast.BinOp) and isinstance(nd.op, (ast.Div, ast.FloorDiv, ast.Pow))]
        calls = [U(nd.func) for nd in ast.walk(fw) if isinstance(nd, ast.Call) and U(nd.func).split(".")[-1] in ("div", "reciprocal", "log", "exp", "sqrt", "pow")]
        chk.require("C16.R4", f"{dq.mod.rel}:{fw.lineno}", not divs and not calls, f"{cname}.forward only multiplies and subtracts (divisions: {divs}, calls: {calls})", f"{cname}.forward", "dequantizer arithmetic", "a zero scale or zero code: division by zero on dequantization")
    chk.assume("x * 0 == 0 and finite * finite is finite within the dtype range (value-dependent overflow near the dtype maximum is not decided)")
