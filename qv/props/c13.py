"""C13 - calibration is scoped; inference and quantization are free of side effects (structural clauses)."""
import ast

from ..core import AnalysisError, U, paths_of, positional_params
from ..effects import EffectGraph
from ..registries import handlers, library

TITLE = "Calibration is scoped; inference and quantization are free of side effects"

RULES = {
    "C13.R1": "pairing: __enter__ enters the base mode and stores each hook handle; __exit__ leaves the base mode and removes every stored handle on every path, independent of the exception arguments",
    "C13.R2": "who may call: global module-hook registration and TorchFunctionMode entry occur nowhere else in the package",
    "C13.R3": "inference effects: no external write effect is reachable from forward/qforward/qweight, any aten handler or library implementation (reasoned exemptions: copy_ handler, Extension.lib)",
    "C13.R4": "quantization effects: in the closure of quantize_weight/quantize_activation/freeze/quantize no in-place tensor operation targets a value that is not freshly allocated",
    "C13.R6": "a module's outputs do not give write access to its buffers: the scale handed to quantize_activation in forward / qforward is stored in the returned tensor as it is (C01.R2), so passing the registered buffer itself makes every in-place write on an output's scale (the copy_ handler does one) a write on the module's state",
    "C13.R8": "(= C10.R11, buffer clause) every value written to the input_scale / output_scale buffers is a freshly computed tensor, never a reference to or a view of a tensor another object owns: an in-place operation on that object (written back since 683c0c3) would otherwise rewrite the buffer outside any Calibration context",
    "C13.R7": "(= C05.R18 (a), value handlers) the result of a handler that is not a view owns its scale and its payload, so an in-place operation on a result never rewrites the quantized input or cached activation it was computed from",
    "C13.R5": "disable_extensions restores the switch in a finally that encloses the yield",
}

# (qualified function, effect text): reason
EXEMPT = {
    ("Extension.lib", "self._lib"): "idempotent lazy load of the native library, not model state",
    ("copy_", "dest._data"): "aten.copy_ mutates its destination by definition",
    ("copy_", "dest._scale"): "aten.copy_ mutates its destination by definition",
    ("copy_", "dest"): "aten.copy_ mutates its destination by definition (plain destination)",
}
HOOK_REGISTRARS = ("register_module_forward_pre_hook", "register_module_forward_hook", "register_module_backward_hook", "register_module_full_backward_hook",
                   "register_module_full_backward_pre_hook", "register_module_buffer_registration_hook", "register_module_module_registration_hook",
                   "register_module_parameter_registration_hook")


def run(chk):
    for k, v in RULES.items():
        chk.rule(k, v)
    repo = chk.repo
    pairing(chk)
    who_may_call(chk)
    g = EffectGraph(repo)
    inference_effects(chk, g)
    quantization_effects(chk, g)
    disable_ext(chk)
    if chk.pid == "C13":
        buffer_aliasing(chk)
        # inference must not change the tensors it is given either: a result sharing its operand's scale / payload object turns an in-place op on the
        # result (written back since 683c0c3) into a write on the operand
        from . import c05
        from ..report import AliasedCheck
        c05.ownership_rule(AliasedCheck(chk, {"C05.R18": "C13.R7"}), handlers(chk.repo), "C05.R18", views=False)
        # what calibration stores in a scale buffer is a tensor of the module's own: a buffer that shares storage with a tensor the caller keeps
        # (`input._scale.detach()`) is rewritten by every later in-place op on that tensor, outside any Calibration context
        from . import c10
        c10.owned_tensors(AliasedCheck(chk, {"C10.R11": "C13.R8"}))
    chk.assume("torch functional calls do not mutate their arguments except through trailing-underscore methods and out=",
               "RemovableHandle.remove() and TorchFunctionMode.__exit__ restore torch's own registries (torch bookkeeping trusted)")


def pairing(chk):
    repo = chk.repo
    ci = repo.cls("Calibration")
    mi = ci.mod
    enter, exit_ = ci.own("__enter__"), ci.own("__exit__")
    if enter is None or exit_ is None:
        raise AnalysisError("Calibration.__enter__/__exit__ not found")
    is_mode = any(b.endswith("TorchFunctionMode") for b in repo.external_bases(ci))
    chk.require("C13.R1", f"{mi.rel}:{ci.node.lineno}", is_mode, "Calibration derives from TorchFunctionMode", "Calibration", "mode base class", "any calibration")
    handles = {}
    stacks = {}
    tuples = set()
    n_reg = 0
    for p in paths_of(enter):
        sup = any(ef[0] == "expr" and U(ef[1]) == "super().__enter__()" for ef in p.effects) or (p.end[1] is not None and "super().__enter__()" in U(p.end[1]))
        chk.require("C13.R1", f"{mi.rel}:{enter.lineno}", sup, "__enter__ pushes the mode with super().__enter__()", "Calibration.__enter__", "super().__enter__", "any calibration: torch functions are not intercepted / exit pops a mode that was never pushed")
        for ef in p.effects:
            if ef[0] == "store" and isinstance(ef[3], ast.Call) and U(ef[3].func) in HOOK_REGISTRARS:
                n_reg += 1
                chk.require("C13.R1", f"{mi.rel}:{ef[4]}", U(ef[1]) == "self", f"handle of {U(ef[3].func)} stored in self.{ef[2]}", "Calibration.__enter__", "handle stored", "any calibration: the hook can never be removed")
                handles[ef[2]] = U(ef[3].func)
            elif ef[0] == "store" and isinstance(ef[3], (ast.Tuple, ast.List)) and U(ef[1]) == "self" and any(isinstance(x, ast.Call) and U(x.func) in HOOK_REGISTRARS for x in ef[3].elts):
                # the handles of one entry kept as a tuple in a plain attribute
                for i_, x in enumerate(y for y in ef[3].elts if isinstance(y, ast.Call) and U(y.func) in HOOK_REGISTRARS):
                    n_reg += 1
                    handles[ef[2] if i_ == 0 else f"{ef[2]}#{i_ + 1}"] = U(x.func)
                    tuples.add(ef[2])
            elif ef[0] == "expr" and isinstance(ef[1], ast.Call) and U(ef[1].func) in HOOK_REGISTRARS:
                n_reg += 1
                chk.bad("C13.R1", f"{mi.rel}:{ef[2]}", "Calibration.__enter__", f"handle of {U(ef[1].func)} dropped", f"the handle returned by {U(ef[1].func)} is not kept", "any calibration: the global hook stays registered for the rest of the process")
        ret = p.end[1]
        chk.require("C13.R1", f"{mi.rel}:{p.end[2]}", p.end[0] in ("fall", "return"), "__enter__ completes without raising", "Calibration.__enter__", "enter completes", "any calibration")
    # platform table (torch/nn/modules/module.py): the handle of a GLOBAL forward hook removes its entry from _global_forward_hooks and from
    # _global_forward_hooks_always_called (extra_dict), not from _global_forward_hooks_with_kwargs: registering with with_kwargs=True leaves
    # an entry behind at every exit
    for nd in ast.walk(enter):
        if isinstance(nd, ast.Call) and U(nd.func) in HOOK_REGISTRARS:
            kws = {k.arg: U(k.value) for k in nd.keywords}
            leak = kws.get("with_kwargs") not in (None, "False")
            extra = len(nd.args) > 1
            chk.require("C13.R1", f"{mi.rel}:{nd.lineno}", not leak and not extra, f"{U(nd.func)} is called with the hook alone (keywords {kws}): every table the registration writes is cleaned by the handle", "Calibration.__enter__", "hook registered with with_kwargs",
                        "any calibration, left normally or by exception: torch.nn.modules.module._global_forward_hooks_with_kwargs keeps one entry per entry of the context (the registries are not restored)")
    # handles kept in a container: it must belong to the instance (a class-level list is shared by every Calibration object)
    shared = {}
    for n_ in ci.node.body:
        if isinstance(n_, ast.Assign) and isinstance(n_.value, (ast.List, ast.Dict, ast.Set)) or (isinstance(n_, ast.Assign) and isinstance(n_.value, ast.Call) and U(n_.value.func) in ("list", "dict", "set")):
            for t_ in n_.targets:
                if isinstance(t_, ast.Name):
                    shared[t_.id] = n_.lineno
    init = repo.method(ci, "__init__")
    rebound = set()
    for fn_ in [x for x in (init[1] if init else None, enter) if x is not None]:
        for nd in ast.walk(fn_):
            if isinstance(nd, ast.Assign):
                for t_ in nd.targets:
                    if isinstance(t_, ast.Attribute) and U(t_.value) == "self":
                        rebound.add(t_.attr)
    for p in paths_of(enter):
        for ef in p.effects:
            if ef[0] == "expr" and isinstance(ef[1], ast.Call) and isinstance(ef[1].func, ast.Attribute) and ef[1].func.attr in ("append", "add", "extend", "__setitem__") \
                    and isinstance(ef[1].func.value, ast.Attribute) and U(ef[1].func.value.value) == "self" and any(isinstance(x, ast.Call) and U(x.func) in HOOK_REGISTRARS for a_ in ef[1].args for x in ast.walk(a_)):
                cont = ef[1].func.value.attr
                if cont in shared and cont not in rebound:
                    chk.bad("C13.R1", f"{mi.rel}:{ef[2]}", "Calibration.__enter__", f"hook handles kept in the class-level container {cont}", f"__enter__ stores its hook handles in `self.{cont}`, a container created once in the class body (line {shared[cont]}) and shared by every Calibration object; __exit__ of one context then removes the hooks of another",
                            "two distinct Calibration objects, one nested in the other: leaving the inner one removes the outer one's hooks, so the registries are not restored to their content at entry and the outer context stops calibrating")
                    handles[cont] = "shared container"
                    handles[cont + "#2"] = "shared container"
                else:
                    k_ = sum(1 for a_ in ef[1].args for x in ast.walk(a_) if isinstance(x, ast.Call) and U(x.func) in HOOK_REGISTRARS)
                    n_reg += k_
                    stacks.setdefault(cont, []).append(k_)
                    for i_ in range(k_):
                        handles.setdefault(cont if i_ == 0 and cont not in handles else cont + f"#{len([h for h in handles if h.startswith(cont)]) + 1}", "container")
    chk.floor("C13.R1", len(handles), 2, "global hook handles stored on entry")
    # conditional registration: when __enter__ registers the hooks only in some state of the object (`if self.handles is None:`), the state must be
    # re-armed when the hooks are removed - otherwise an object that was left once registers nothing the next time it is entered
    def _registers(p_):
        return any(any(isinstance(x, ast.Call) and U(x.func) in HOOK_REGISTRARS for x in ast.walk(ef[3] if ef[0] == "store" else ef[1])) for ef in p_.effects if ef[0] in ("store", "expr") and isinstance(ef[3] if ef[0] == "store" else ef[1], ast.AST))
    epaths = [p_ for p_ in paths_of(enter) if p_.end[0] in ("fall", "return")]
    reg_paths = [p_ for p_ in epaths if _registers(p_)]
    conditional = bool(reg_paths) and len(reg_paths) < len(epaths)
    state_guarded_exit = False
    if conditional:
        guard_attrs = sorted({n_.attr for p_ in epaths for c, t, _ in p_.conds for n_ in ast.walk(c) if isinstance(n_, ast.Attribute) and U(n_.value) == "self"})
        written_on_entry = {ef[2] for p_ in reg_paths for ef in p_.effects if ef[0] in ("store", "augstore") and U(ef[1]) == "self"} | \
                           {ef[1].func.value.attr for p_ in reg_paths for ef in p_.effects if ef[0] == "expr" and isinstance(ef[1], ast.Call) and isinstance(ef[1].func, ast.Attribute) and isinstance(ef[1].func.value, ast.Attribute) and U(ef[1].func.value.value) == "self"}
        written_on_exit = {n_.attr for n_ in ast.walk(exit_) if isinstance(n_, ast.Attribute) and U(n_.value) == "self" and isinstance(n_.ctx, (ast.Store, ast.Del))} | \
                          {n_.func.value.attr for n_ in ast.walk(exit_) if isinstance(n_, ast.Call) and isinstance(n_.func, ast.Attribute) and n_.func.attr in ("pop", "clear", "remove", "append", "discard", "popitem") and isinstance(n_.func.value, ast.Attribute) and U(n_.func.value.value) == "self"}
        stuck = [a for a in guard_attrs if a in written_on_entry and a not in written_on_exit]
        if stuck:
            chk.bad("C13.R1", f"{mi.rel}:{enter.lineno}", "Calibration.__enter__", "registration state never re-armed", f"NOT: __enter__ registers the hooks only when its guard on self.{stuck} holds, the registering path changes {stuck} and __exit__ never writes it: "
                    "once the object has been left, entering it again registers nothing", "c = Calibration(); with c: model(a)  then  with c: model(b) - the second context runs without hooks: the scales stay those of the first context "
                    "(and the momentum average of C12 stops), while a fresh object per context works")
        else:
            chk.unknown("C13.R1", f"{mi.rel}:{enter.lineno}", f"__enter__ registers the hooks under a condition on the object's state ({guard_attrs}) that __exit__ rewrites: the enter/exit protocol is a state machine this rule does not decide")
        state_guarded_exit = True
    # re-entrancy: torch lets the same mode object be entered again while it is active; handles kept in plain attributes are then
    # overwritten and the first pair of hooks can never be removed
    plain = sorted(h for h, v in handles.items() if v not in ("container", "shared container"))
    refuses = any(p.end[0] == "raise" and any("self." in U(c) for c, t, _ in p.conds) for p in paths_of(enter))
    if plain and not stacks and conditional:
        pass  # decided (or declared undecided) by the conditional-registration clause above
    elif plain and not stacks:
        if refuses:
            chk.unknown("C13.R1", f"{mi.rel}:{enter.lineno}", "__enter__ has a raising path conditioned on instance state: whether it refuses re-entry is not decided")
        else:
            chk.bad("C13.R1", f"{mi.rel}:{enter.lineno}", "Calibration.__enter__", "handles overwritten on re-entry", f"NOT: a second __enter__ of the same object keeps the handles of the first one (they are stored in the plain attributes {plain} and overwritten)",
                    "c = Calibration(); with c: with c: model(x) - the hooks registered by the outer entry are never removed: the registries are not restored and every later forward keeps updating the scales")
    elif stacks:
        chk.ok("C13.R1", f"{mi.rel}:{enter.lineno}", f"each __enter__ pushes its own handles on an instance-level stack {sorted(stacks)} (re-entrant)")
    eparams = positional_params(exit_)[1:]
    for p in paths_of(exit_):
        site = f"{mi.rel}:{p.end[2]}"
        if p.end[0] == "raise":
            chk.bad("C13.R1", site, "Calibration.__exit__", "exit raises", "__exit__ has a raising path", "leaving the context")
            continue
        cond_on_exc = [U(c) for c, t, _ in p.conds if any(isinstance(n, ast.Name) and n.id in eparams for n in ast.walk(c))]
        removed = set()
        sup_exit = False
        for ef in p.effects:
            if ef[0] == "expr" and isinstance(ef[1], ast.Call):
                t = U(ef[1])
                if t.startswith("super().__exit__("):
                    sup_exit = [U(a) for a in ef[1].args] == eparams
                f = ef[1].func
                if isinstance(f, ast.Attribute) and f.attr == "remove" and isinstance(f.value, ast.Attribute) and U(f.value.value) == "self":
                    if ef[3] == 0:
                        removed.add(f.value.attr)
                if isinstance(f, ast.Attribute) and f.attr == "remove":
                    for tp in tuples:
                        if U(f.value) == f"__elem__(self.{tp})" and ef[3] >= 1:
                            removed.update(h for h in handles if h == tp or h.startswith(tp + "#"))
                # `for h in self.c.pop(): h.remove()` releases the whole entry pushed last; `self.c.pop().remove()` a single-handle entry
                if isinstance(f, ast.Attribute) and f.attr == "remove":
                    rt = U(f.value)
                    for cont in stacks:
                        if rt == f"__elem__(self.{cont}.pop())" and ef[3] >= 1 and not drains(exit_, cont):
                            removed.update(h for h in handles if h == cont or h.startswith(cont + "#"))
                        elif rt.startswith(f"self.{cont}.pop()[") and rt.endswith("]") and rt[len(f"self.{cont}.pop()["):-1].isdigit() and ef[3] == 0 and not drains(exit_, cont):
                            # `a, b = self.c.pop(); a.remove(); b.remove()`: the entry pushed last, unpacked (one pop: the unpack effect of the path)
                            i_ = int(rt[len(f"self.{cont}.pop()["):-1])
                            names_ = sorted(h for h in handles if h == cont or h.startswith(cont + "#"))
                            if i_ < len(names_) and sum(1 for e_ in p.effects if e_[0] == "unpack" and U(e_[1]) == f"self.{cont}.pop()") == 1:
                                removed.add(names_[i_])
                        elif rt == f"self.{cont}.pop()" and ef[3] == 0 and stacks[cont] == [1] * len(stacks[cont]):
                            left = [h for h in sorted(handles) if (h == cont or h.startswith(cont + "#")) and h not in removed]
                            if left:
                                removed.add(left[0])
        if p.end[1] is not None and "super().__exit__(" in U(p.end[1]):
            sup_exit = True
        # exception safety: nothing that can raise may precede the last release, unless the releases sit in a finally block
        last_release = max([ef[2] for ef in p.effects if ef[0] == "expr" and isinstance(ef[1], ast.Call) and isinstance(ef[1].func, ast.Attribute) and ef[1].func.attr == "remove"] + [0])
        in_finally = any(isinstance(n, ast.Try) and n.finalbody and any(isinstance(c, ast.Call) and isinstance(c.func, ast.Attribute) and c.func.attr == "remove" for s_ in n.finalbody for c in ast.walk(s_)) for n in ast.walk(exit_))
        risky = []
        for ef in p.effects:
            if ef[0] == "expr" and isinstance(ef[1], ast.Call) and ef[2] < last_release:
                t = U(ef[1])
                f_ = ef[1].func
                if t.startswith("super().__exit__(") or (isinstance(f_, ast.Attribute) and f_.attr == "remove"):
                    continue
                risky.append(t[:60])
            elif ef[0] in ("store", "substore", "augstore", "del") and ef[4 if ef[0] in ("store", "substore", "augstore") else 2] < last_release:
                val = ef[3] if ef[0] in ("store", "substore", "augstore") else None
                if val is not None and any(isinstance(n, (ast.Call, ast.Subscript)) for n in ast.walk(val)):
                    risky.append(U(val)[:60])
        if risky and not in_finally:
            chk.bad("C13.R1", site, "Calibration.__exit__", "operation that can raise before the handles are released", f"__exit__ path ({' & '.join(p.cond_texts()) or 'unconditional'}) runs {risky} before the last handle is removed and outside a try/finally: if it raises, the global hooks stay registered",
                    "leaving the context" + (" through an exception" if cond_on_exc else "") + " in a configuration where that operation raises (e.g. an attribute that only exists for some constructor arguments)")
        else:
            chk.ok("C13.R1", site, "no operation that can raise precedes the release of the handles (or the releases are in a finally block)")
        missing = sorted(set(handles) - removed)
        if missing and state_guarded_exit and any("self." in U(c) for c, t, _ in p.conds):
            chk.unknown("C13.R1", site, f"__exit__ path ({' & '.join(p.cond_texts())}) keeps the handles {missing} in a state of the object: part of an enter/exit state machine this rule does not decide")
            missing = []
        chk.require("C13.R1", site, not missing, f"__exit__ path ({' & '.join(p.cond_texts()) or 'unconditional'}) removes every stored handle {sorted(handles)}; missing={missing}", "Calibration.__exit__",
                    f"handle not removed: {','.join(missing)}", "leaving the context" + (" through an exception" if cond_on_exc else "") + ": a global hook stays registered and later forwards keep updating scales")
        chk.require("C13.R1", site, bool(sup_exit), "__exit__ pops the mode with super().__exit__(exc_type, exc_val, exc_tb)", "Calibration.__exit__", "super().__exit__", "leaving the context: the torch-function mode stays on the stack")
        if cond_on_exc and not missing and sup_exit:
            chk.ok("C13.R1", site, f"path conditioned on the exception arguments ({cond_on_exc}) still restores everything")
        ret = p.end[1]
        swallow = ret is not None and not (isinstance(ret, ast.Constant) and ret.value in (None, False))
        chk.require("C13.R1", site, not swallow, f"__exit__ does not swallow exceptions (returns {U(ret) if ret is not None else 'None'})", "Calibration.__exit__", "exit return value", "an exception raised inside the context disappears")


def drains(fn, cont):
    """True if the function empties the container in a loop (`while self.c: self.c.pop()...`): that also releases the handles of outer entries."""
    for n in ast.walk(fn):
        if isinstance(n, ast.While) and f"self.{cont}" in U(n.test):
            return True
        if isinstance(n, ast.For) and U(n.iter) in (f"self.{cont}", f"list(self.{cont})", f"reversed(self.{cont})", f"self.{cont}[::-1]"):
            return True
    return False


def _is_fresh_copy(e, name: str) -> bool:
    """`e` is a copy of the tensor `name` with its own storage: name.clone(), torch.clone(name), possibly with detach() on either side."""
    # detach() / contiguous() of a copy are the copy (or another tensor of its own)
    while isinstance(e, ast.Call) and isinstance(e.func, ast.Attribute) and e.func.attr in ("detach", "contiguous") and not e.args:
        e = e.func.value
    if isinstance(e, ast.Call) and isinstance(e.func, ast.Attribute) and e.func.attr == "clone" and not e.args:
        inner = e.func.value
    elif isinstance(e, ast.Call) and U(e.func) == "torch.clone" and len(e.args) == 1:
        inner = e.args[0]
    else:
        return False
    while isinstance(inner, ast.Call) and isinstance(inner.func, ast.Attribute) and inner.func.attr == "detach" and not inner.args:
        inner = inner.func.value
    return U(inner) == name


def activation_entry_owns_scale(repo) -> bool:
    """True when quantize_activation stores a copy of its `scale` argument on every returning path (the returned tensor then owns its scale);
    False when some path hands the argument itself to the quantizer (which stores it as it is, C01.R2)."""
    from ..core import paths_of, positional_params
    try:
        _, qa = repo.func("quantize_activation")
    except Exception:
        return False
    sc = positional_params(qa)[2] if len(positional_params(qa)) > 2 else None
    if sc is None:
        return False
    rets = [p.end[1] for p in paths_of(qa) if p.end and p.end[0] == "return"]
    if not rets:
        return False
    for e in rets:
        if not (isinstance(e, ast.Call) and U(e.func).endswith("Quantizer.apply") and len(e.args) >= 4 and _is_fresh_copy(e.args[3], sc)):
            return False
    return True


def buffer_aliasing(chk):
    repo = chk.repo
    owns = activation_entry_owns_scale(repo)
    mixin = repo.cls("QModuleMixin")
    n = 0
    sites = []
    for c in [mixin] + repo.subclasses(mixin):
        for mname in ("forward", "qforward"):
            fn = c.own(mname)
            if fn is None:
                continue
            for nd in ast.walk(fn):
                if isinstance(nd, ast.Call) and U(nd.func) in ("quantize_activation", "maybe_requantize"):
                    for a in list(nd.args) + [k.value for k in nd.keywords]:
                        if U(a) in ("self.input_scale", "self.output_scale"):
                            n += 1
                            sites.append((c, fn, nd, U(a)))
    from ..registries import handlers
    writers = [h.name for h in handlers(repo)["qbytes"] if any(o.split(".")[1].endswith("_") for o in h.ops) and any(isinstance(x, ast.Call) and x.args and U(x.args[0]).endswith("._scale") for x in ast.walk(h.fn))]
    for c, fn, nd, a in sites[:1]:
        chk.require("C13.R6", f"{c.mod.rel}:{nd.lineno}", owns or not writers, f"{c.name}.{fn.name} hands the buffer `{a}` itself to the tensor it returns ({n} such sites; quantize_activation stores a copy of its scale: {owns}); handlers writing a scale in place: {writers}", f"{c.name}.{fn.name}", "module output aliases a scale buffer",
                    "a model whose forward writes into a module output (h[0] = g[0], or h.copy_(g)) between two quantized modules: outside any Calibration context the first module's output_scale changes (0.0108 -> 0.0514) and its next output is not bit-identical")
    chk.floor("C13.R6", n, 1, "scale buffers handed to quantize_activation")


INPLACE_METHODS = ("copy_", "fill_", "zero_", "mul_", "div_", "add_", "sub_", "set_", "clamp_", "lerp_", "addcmul_", "masked_fill_", "resize_")


def _inplace_writes_in(fn, names, resolve):
    """the nodes of `fn` that write a buffer named in `names` in place; resolve(name) -> FunctionDef of a module-level helper or None"""
    from ..core import _is_setter_procedure
    out = []
    isbuf = lambda e: isinstance(e, ast.Attribute) and e.attr in names
    for nd in ast.walk(fn):
        if isinstance(nd, ast.Call) and isinstance(nd.func, ast.Attribute) and nd.func.attr in INPLACE_METHODS and isbuf(nd.func.value):
            out.append(nd)
        elif isinstance(nd, ast.Call) and isinstance(nd.func, ast.Name) and any(isbuf(a) for a in nd.args):
            h = resolve(nd.func.id)
            if h is not None and _is_setter_procedure(h):
                written = {c.func.value.id for c in ast.walk(h) if isinstance(c, ast.Call) and isinstance(c.func, ast.Attribute) and c.func.attr in INPLACE_METHODS and isinstance(c.func.value, ast.Name)}
                params = [a.arg for a in h.args.args]
                if any(isbuf(a) and i < len(params) and params[i] in written for i, a in enumerate(nd.args)):
                    out.append(nd)
        elif isinstance(nd, (ast.Assign, ast.AugAssign)):
            for t in (nd.targets if isinstance(nd, ast.Assign) else [nd.target]):
                if isinstance(t, ast.Subscript) and isbuf(t.value) or isinstance(t, ast.Attribute) and t.attr == "data" and isbuf(t.value) \
                        or isinstance(nd, ast.AugAssign) and isbuf(t):
                    out.append(nd)
    return out


_POSITIVE_EXAMPLE = """
def _set(buf, value):
    with torch.no_grad():
        buf.copy_(value)

def hook(self, module, input):
    _set(module.input_scale, input.abs().max())
    module.output_scale.mul_(2)
    module.input_scale[...] = 1.0
    module.output_scale.data = input
    module.input_scale = input          # a replacement: not a write in place
"""


def buffer_inplace_writers(repo, names=("input_scale", "output_scale")):
    """Package functions that write a registered activation-scale buffer IN PLACE: `m.<buf>.copy_(v)` (any in-place method), `m.<buf>[...] = v`,
    `m.<buf>.data = v`, or a call of a setter procedure (a helper that writes its parameter in place) with the buffer as argument.
    Returns (module info, function, node, text)."""
    # the expected count on a healthy tree is zero: the detector is exercised on a built-in example first, so that it cannot pass by seeing nothing
    tree = ast.parse(_POSITIVE_EXAMPLE)
    fns = {n.name: n for n in tree.body if isinstance(n, ast.FunctionDef)}
    got = _inplace_writes_in(fns["hook"], names, fns.get)
    if len(got) != 4:
        raise AnalysisError(f"in-place writer detector finds {len(got)} of the 4 writes of its built-in example")
    out = []
    for mi in repo.modules.values():
        if not mi.rel.startswith("optimum/"):
            continue

        def res(name, mi=mi):
            r = repo.resolve(mi, name)
            return r[1] if r is not None and isinstance(r[1], ast.FunctionDef) else None
        for fn in [x for x in ast.walk(mi.tree) if isinstance(x, ast.FunctionDef)]:
            for nd in _inplace_writes_in(fn, names, res):
                out.append((mi, fn, nd, U(nd)[:70]))
    return out


def saved_scale_mutation(chk, rule="C11.R10"):
    """The quantized activation a module computes with holds the module's scale buffer itself (the aliasing recorded under C13.R6), and the linear
    function saves that activation for its backward: a later in-place write of the buffer rewrites what an earlier forward saved.  While the aliasing
    exists, the buffers are only ever REPLACED."""
    repo = chk.repo
    mixin = repo.cls("QModuleMixin")
    aliased = []
    for c in [mixin] + repo.subclasses(mixin):
        for mname in ("forward", "qforward"):
            fn = c.own(mname)
            if fn is None:
                continue
            for nd in ast.walk(fn):
                if isinstance(nd, ast.Call) and U(nd.func) in ("quantize_activation", "maybe_requantize"):
                    for a in list(nd.args) + [k.value for k in nd.keywords]:
                        if U(a) in ("self.input_scale", "self.output_scale"):
                            aliased.append(f"{c.name}.{fn.name}: {U(a)}")
    if activation_entry_owns_scale(repo):
        # quantize_activation copies its scale: the activation a module computes with does not hold the buffer
        aliased = []
    writers = buffer_inplace_writers(repo)
    for mi, fn, nd, txt in writers:
        chk.require(rule, f"{mi.rel}:{nd.lineno}", not aliased, f"{fn.name}: `{txt}` writes a scale buffer in place while {len(aliased)} forward site(s) hand the buffer itself to the activation they quantize ({aliased[:2]})",
                    fn.name, "scale buffer written in place", "two forwards of one module under an active Calibration (gradients enabled) before one backward, batches of different magnitudes: the second forward rescales the input the first one "
                    "saved, and the weight gradient is off (35.8 for gradients of magnitude 106) - autograd's version counter does not see the inner scale")
    chk.ok(rule, f"{mixin.mod.rel}:{mixin.node.lineno}", f"{len(writers)} in-place writer(s) of input_scale / output_scale in the package; {len(aliased)} forward site(s) alias a buffer")
    return len(aliased)


def who_may_call(chk):
    repo = chk.repo
    cal = repo.cls("Calibration")
    n = 0
    for mi in repo.modules.values():
        if not mi.rel.startswith("optimum/"):
            continue
        for node in ast.walk(mi.tree):
            if isinstance(node, ast.Call):
                f = U(node.func).split(".")[-1]
                if f in HOOK_REGISTRARS:
                    inside = _enclosing(mi, node)
                    ok = inside == ("Calibration", "__enter__")
                    if not ok and inside[0] == "Calibration" and inside[1] and inside[1].startswith("_") and not inside[1].startswith("__"):
                        # a private method of Calibration whose only callers are in __enter__ is part of __enter__
                        callers = set()
                        for mi2 in repo.modules.values():
                            for n2 in ast.walk(mi2.tree):
                                if isinstance(n2, ast.Call) and isinstance(n2.func, ast.Attribute) and n2.func.attr == inside[1]:
                                    callers.add(_enclosing(mi2, n2))
                        ok = bool(callers) and callers <= {("Calibration", "__enter__")}
                    n += 1
                    chk.require("C13.R2", f"{mi.rel}:{node.lineno}", ok, f"{f} is called in {inside}", ".".join(x or "?" for x in inside), f"global hook registration outside Calibration.__enter__: {f}", "any use of that code path: a global hook with no paired removal")
            if isinstance(node, ast.ClassDef) and node is not cal.node:
                ci = next((c for c in repo.classes.get(node.name, []) if c.node is node), None)
                if ci and any(b.endswith(("TorchFunctionMode", "TorchDispatchMode")) for b in repo.external_bases(ci)) and not any(c.node is cal.node for c in repo.mro(ci)):
                    chk.bad("C13.R2", f"{mi.rel}:{node.lineno}", node.name, f"second torch mode class {node.name}", f"{node.name} is another torch mode class", "entering it")
            if isinstance(node, ast.Attribute) and node.attr in ("_global_forward_hooks", "_global_forward_pre_hooks", "_push_mode", "_pop_mode"):
                chk.bad("C13.R2", f"{mi.rel}:{node.lineno}", "", f"direct access to torch registry {node.attr}", f"torch's registry `{node.attr}` is manipulated directly", "any use")
    chk.floor("C13.R2", n, 2, "global hook registration call sites")


def _enclosing(mi, target):
    res = (None, None)

    def rec(n, cls, fn):
        nonlocal res
        for c in ast.iter_child_nodes(n):
            if c is target:
                res = (cls, fn)
            if isinstance(c, ast.ClassDef):
                rec(c, c.name, fn)
            elif isinstance(c, (ast.FunctionDef, ast.AsyncFunctionDef)):
                rec(c, cls, c.name)
            else:
                rec(c, cls, fn)

    rec(mi.tree, None, None)
    return res


def _roots_of(chk, g):
    repo = chk.repo
    roots = []
    qm = repo.cls("QModuleMixin")
    for name in ("forward", "qweight", "qforward"):
        for c in [qm] + repo.subclasses(qm):
            m = c.own(name)
            if m is not None:
                roots.append(g.info(m))
    hs = handlers(repo)
    for t in ("qbytes", "qbits", "qfunc"):
        for h in hs[t]:
            roots.append(g.info(h.fn))
    _, impls = library(repo)
    for li in impls:
        if id(li.fn) in g.fns:
            roots.append(g.info(li.fn))
    for cname in ("QBytesTensor", "QBitsTensor", "PackedTensor", "QTensor", "AWQBitsTensor", "AWQPackedTensor"):
        if repo.has_cls(cname):
            ci = repo.cls(cname)
            for m in ("__torch_dispatch__", "__torch_function__", "dequantize", "unpack"):
                f = ci.own(m)
                if f is not None:
                    roots.append(g.info(f))
    for fname in ("qfallback",):
        roots.append(g.info(repo.func(fname)[1]))
    for cname in ("QTensorLinear", "QBytesDequantizer", "QBitsDequantizer", "SymmetricQuantizer", "AffineQuantizer"):
        if repo.has_cls(cname):
            for m in ("forward", "backward"):
                f = repo.cls(cname).own(m)
                if f is not None:
                    roots.append(g.info(f))
    return roots


def _pure_memo(repo, f, e):
    """A reason when the external write `G[k] = v` is the store of a memo: G is a module-level dict that only this one-parameter function touches, keyed
    by that parameter, and what is stored is built from the parameter alone out of immutable containers (no instance of a class of the package, which
    could carry state from one call to the next).  Such a store changes no result: the function returns the same value with or without it."""
    if e.kind != "substore" or not all(r.startswith("global:") for r in e.roots) or len(e.roots) != 1:
        return None
    G = next(iter(e.roots))[7:]
    fn = f.fn
    params = [a.arg for a in fn.args.posonlyargs + fn.args.args + fn.args.kwonlyargs]
    if len(params) != 1 or fn.args.vararg or fn.args.kwarg:
        return None
    k = params[0]
    # G is used by this function only
    users = [x for x in ast.walk(f.mi.tree) if isinstance(x, ast.FunctionDef) and any(isinstance(y, ast.Name) and y.id == G for y in ast.walk(x))]
    if users != [fn]:
        return None
    stores = [st for st in ast.walk(fn) if isinstance(st, ast.Assign) and any(isinstance(t, ast.Subscript) and U(t.value) == G for t in st.targets)]
    if len(stores) != 1 or U(stores[0].targets[0].slice) != k:
        return None
    for x in ast.walk(fn):
        if isinstance(x, ast.Name) and x.id == G:
            continue
        if isinstance(x, (ast.Global, ast.Nonlocal, ast.Delete, ast.AugAssign)):
            return None
        if isinstance(x, ast.Assign) and x is not stores[0] and any(not isinstance(t, (ast.Name, ast.Tuple)) for t in x.targets):
            return None
        if isinstance(x, ast.Call) and isinstance(x.func, ast.Name):
            r = repo.resolve(f.mi, x.func.id)
            if r is not None and isinstance(r[1], ast.ClassDef):
                return None  # an object of the package: it may be mutated later
        if isinstance(x, (ast.List, ast.Dict, ast.Set, ast.ListComp, ast.DictComp, ast.SetComp)) and isinstance(getattr(x, "ctx", ast.Load()), ast.Load):
            # a mutable container may only be an argument of an immutable constructor
            pass
    v = stores[0].value
    names = {y.id for y in ast.walk(v) if isinstance(y, ast.Name)}
    local = {t.id for st in ast.walk(fn) if isinstance(st, ast.Assign) for t in ast.walk(st.targets[0]) if isinstance(t, ast.Name)}
    # every local the value is made of is itself made of the key, locals, and immutable constructors
    mutable_top = isinstance(v, (ast.List, ast.Dict, ast.Set, ast.ListComp, ast.DictComp, ast.SetComp))
    if mutable_top:
        return None
    return f"memo of a function of its only parameter: `{G}[{k}]` is written once per key by {fn.name} alone, with an immutable value built from the key"


def inference_effects(chk, g):
    roots = _roots_of(chk, g)
    chk.floor("C13.R3", len(roots), 45, "inference entry points (forward/qforward/qweight, handlers, library implementations, dispatchers)")
    seen = set()
    n_fn = set()
    # the destination of an in-place aten op is written at the caller's request: a handler registered for one may write into it, directly or in a callee
    from ..core import positional_params as _pp
    inplace_dest = {}
    for t in ("qbytes", "qbits"):
        for h in handlers(chk.repo)[t]:
            if any(o.split(".")[1].endswith("_") for o in h.ops) and len(_pp(h.fn)) > 1:
                inplace_dest[id(h.fn)] = _pp(h.fn)[1]
    is_function = lambda r: r.cls is not None and any(b.endswith("Function") for b in chk.repo.external_bases(r.cls))  # noqa: E731
    # an autograd Function's forward is called through `.apply` by the library itself: where another entry point reaches it, the arguments it
    # receives are judged at those call sites (a clone handed over by the caller is not the caller's state); unreached ones stay entry points
    reached = set()
    for r in roots:
        if not (is_function(r) and r.fn.name == "forward"):
            for f in g.reachable(r):
                if f is not r:
                    reached.add(id(f.fn))
    for r in roots:
        for f in g.reachable(r):
            n_fn.add(id(f.fn))
        if is_function(r) and r.fn.name == "forward" and id(r.fn) in reached:
            continue
        # the autograd context of Function.forward/backward is created by torch for the call
        fresh = {"ctx"} if r.fn.name in ("forward", "backward") and is_function(r) else set()
        if id(r.fn) in inplace_dest:
            fresh = fresh | {inplace_dest[id(r.fn)]}
        for e, f, chain in g.external_effects(r, fresh):
            key = (f.qual, e.text, e.kind)
            if key in seen:
                continue
            seen.add(key)
            reason = EXEMPT.get((f.qual, e.text)) or _pure_memo(chk.repo, f, e)
            site = f"{f.mi.rel}:{e.line}"
            if reason:
                chk.ok("C13.R3", site, f"exempt external write `{e.text}` in {f.qual}: {reason}")
            else:
                via = " | ".join(chain[-3:])
                chk.bad("C13.R3", site, f.qual, f"{e.kind} {e.text}", f"external write `{e.text}` ({e.kind}, rooted at {sorted(e.roots)}) is reachable from inference entry point {r.qual}" + (f" via {via}" if via else ""),
                        "any inference: module/tensor state changes while the model is only being evaluated")
    chk.ok("C13.R3", "call graph", f"{len(roots)} entry points, {len(n_fn)} reachable functions scanned for external writes; {len(seen)} external write(s) found, all in the exemption table" if not any(o["verdict"] == "VIOLATED" and o["rule"] == "C13.R3" for o in chk.obligations) else f"{len(roots)} entry points, {len(n_fn)} reachable functions scanned")
    chk.sample({"entry_points": sorted({r.qual for r in roots})[:60]})


def quantization_effects(chk, g):
    repo = chk.repo
    roots = [g.info(repo.func(n)[1]) for n in ("quantize_weight", "quantize_activation", "quantize", "freeze")]
    qm = repo.cls("QModuleMixin")
    roots.append(g.info(qm.own("freeze")))
    seen = set()
    nf = set()
    for r in roots:
        for f in g.reachable(r):
            nf.add(id(f.fn))
        for e, f, chain in g.external_effects(r):
            if not e.tensor_mutation:
                continue
            key = (f.qual, e.text)
            if key in seen:
                continue
            seen.add(key)
            if EXEMPT.get((f.qual, e.text)):
                continue
            chk.bad("C13.R4", f"{f.mi.rel}:{e.line}", f.qual, f"{e.kind} {e.text}", f"in-place tensor operation `{e.text}` on a value rooted at {sorted(e.roots)} is reachable from {r.qual} via {' | '.join(chain[-3:])}",
                    "any call: the float tensor handed to the quantization API is modified")
    chk.ok("C13.R4", "call graph", f"{len(roots)} quantization entry points, {len(nf)} reachable functions: in-place tensor operations only target freshly allocated values")
    # freeze writes exactly {weight}
    fz = qm.own("freeze")
    stores = set()
    for p in paths_of(fz):
        for ef in p.effects:
            if ef[0] in ("store",):
                stores.add((U(ef[1]), ef[2]))
            elif ef[0] in ("augstore", "substore", "del"):
                stores.add(("?", U(ef[1]) if len(ef) > 1 and isinstance(ef[1], ast.AST) else "?"))
    chk.require("C13.R4", f"{qm.mod.rel}:{fz.lineno}", stores <= {("self", "weight")}, f"QModuleMixin.freeze writes only self.weight (writes: {sorted(stores)})", "QModuleMixin.freeze", "freeze write set", "freeze(): biases, scales or qtypes change")


def disable_ext(chk):
    repo = chk.repo
    try:
        mi, fn = repo.func("disable_extensions")
    except AnalysisError:
        chk.unknown("C13.R5", "library/ops.py", "disable_extensions not found")
        return
    ok = False
    detail = "no try/finally around the yield"
    for n in ast.walk(fn):
        if isinstance(n, ast.Try) and n.finalbody:
            has_yield = any(isinstance(x, (ast.Yield, ast.YieldFrom)) for b in n.body for x in ast.walk(b))
            restores = [U(s) for s in n.finalbody]
            sets = [U(s) for b in n.body for s in ast.walk(b) if isinstance(s, ast.Assign)]
            if has_yield and "_ext_enabled = True" in restores and "_ext_enabled = False" in sets:
                ok = True
            detail = f"try body yields={has_yield}, finally={restores}"
    glob = any(isinstance(n, ast.Global) and "_ext_enabled" in n.names for n in ast.walk(fn))
    cm = any(U(d) in ("contextmanager", "contextlib.contextmanager") for d in fn.decorator_list)
    chk.require("C13.R5", f"{mi.rel}:{fn.lineno}", ok and glob and cm, f"disable_extensions: switch restored to True in a finally enclosing the yield ({detail}); global declared={glob}; contextmanager={cm}", "disable_extensions", "switch restored in finally", "an exception inside `with disable_extensions():` leaves the optimized kernels disabled for the rest of the process")
