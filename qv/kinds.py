"""E3: operand-kind typestate for aten handlers.

Each handler is abstractly executed once per assignment of kinds to its tensor-like parameters:
  QB = QBytesTensor, QX = another QTensor (QBitsTensor family), P = plain tensor (ndim >= 1),
  S = python number or plain 0-dim tensor (what `is_scalar` accepts);  at least one operand is QB.
Conditions are evaluated in three-valued logic with short-circuit, unknown conditions fork the path.
Reported events:
  attr      a quantized-only attribute read from an operand that is plain / scalar on that path
  deq       .dequantize() called on a python scalar
  rawqx     the raw packed payload of a non-QBytes quantized tensor reaches a compute call
  cycle     a direct op(...) call whose operand kinds lead back to the same call (RecursionError)
"""
from __future__ import annotations

import ast
import itertools
from typing import Dict, List, Optional, Tuple

from .core import AnalysisError, U, positional_params

QONLY = {"_data", "_scale", "qtype", "axis", "_zeropoint", "_group_size", "_qtype", "_axis"}
KINDS = ("QB", "QX", "P", "S")

# aten schema: roles of the positional parameters after `op` ('t' tensor, 'ts' tensor-or-scalar, 'list' tensor list, 'a' attribute)
SCHEMA = {
    "aten._to_copy": ["t"], "aten.to": ["t"], "aten.detach": ["t"], "aten.cat": ["list", "a"], "aten.stack": ["list", "a"],
    "aten.lt": ["t", "ts"], "aten.clone": ["t"], "aten.copy_": ["t", "t"], "aten.div": ["ts", "ts"], "aten.mul": ["ts", "ts"],
    "aten.neg": ["t"], "aten.relu": ["t"], "aten._softmax": ["t", "a", "a"], "aten.expand": ["t"], "aten.permute": ["t"],
    "aten.select": ["t"], "aten.slice": ["t"], "aten.unsqueeze": ["t"], "aten.squeeze": ["t"], "aten.is_same_size": ["t", "t"],
    "aten.bmm": ["t", "t"], "aten.mm": ["t", "t"], "aten.split": ["t"], "aten.split_with_sizes": ["t"], "aten.squeeze": ["t"], "aten.transpose": ["t"], "aten.t": ["t"],
    "aten.view": ["t"], "aten._unsafe_view": ["t"], "aten.where": ["t", "ts", "ts"], "aten.reshape": ["t"],
    "aten.flatten": ["t"], "aten.narrow": ["t"], "aten.flip": ["t"], "aten.contiguous": ["t"], "aten.add": ["ts", "ts"],
    "aten.sub": ["ts", "ts"], "aten.abs": ["t"], "aten.gt": ["t", "ts"], "aten.le": ["t", "ts"], "aten.ge": ["t", "ts"],
    "aten.eq": ["t", "ts"], "aten.ne": ["t", "ts"], "aten.sum": ["t"], "aten.mean": ["t"], "aten.squeeze_": ["t"],
    "aten.index_select": ["t", "a", "t"], "aten.gelu": ["t"], "aten.sigmoid": ["t"], "aten.tanh": ["t"], "aten.silu": ["t"],
    "aten.diagonal": ["t"], "aten.unfold": ["t"], "aten.as_strided": ["t"],
    "aten.unbind": ["t"], "aten.chunk": ["t"], "aten.alias": ["t"], "aten.movedim": ["t"], "aten.matmul": ["t", "t"],
    "aten.addmm": ["t", "t", "t"], "aten.linear": ["t", "t", "t"], "aten.dot": ["t", "t"], "aten.masked_fill": ["t", "t", "ts"],
    "aten.constant_pad_nd": ["t", "a", "a"], "aten.fill": ["t", "ts"], "aten.fill_": ["t", "ts"], "aten.index_fill": ["t", "a", "t", "ts"],
    "aten.index_put": ["t", "a", "t"], "aten.scatter": ["t", "a", "t", "ts"], "aten.masked_scatter": ["t", "t", "t"], "aten.full_like": ["t", "a"],
    "aten.ones_like": ["t"], "aten.clamp": ["t", "a", "a"], "aten.clamp_min": ["t", "a"], "aten.clamp_max": ["t", "a"], "aten.hardtanh": ["t", "a", "a"],
    "aten.pow": ["ts", "ts"], "aten.exp": ["t"], "aten.log": ["t"], "aten.sqrt": ["t"], "aten.rsqrt": ["t"], "aten.reciprocal": ["t"], "aten.round": ["t"],
    "aten.floor": ["t"], "aten.ceil": ["t"], "aten.trunc": ["t"], "aten.cumsum": ["t", "a"], "aten.var": ["t"], "aten.std": ["t"], "aten.norm": ["t"],
    "aten.softplus": ["t"], "aten.erf": ["t"], "aten.native_layer_norm": ["t", "a", "t", "t", "a"], "aten.layer_norm": ["t", "a", "t", "t", "a"],
    "aten.convolution": ["t", "t", "t"], "aten.conv2d": ["t", "t", "t"], "aten.log_softmax": ["t", "a"], "aten._log_softmax": ["t", "a", "a"], "aten.sign": ["t"],
}


class Abs:
    __slots__ = ("kind", "origin", "items", "of")

    def __init__(self, kind, origin=None, items=None, of=None):
        self.kind, self.origin, self.items, self.of = kind, origin, items, of


def is_q(k):
    return k in ("QB", "QX")


class KindExec:
    def __init__(self, fn: ast.FunctionDef, kinds: Dict[str, object], qb_class="QBytesTensor", helpers: Optional[dict] = None):
        from .core import canon_function_inlined
        self.fn, self.kinds, self.qb_class, self.helpers = canon_function_inlined(fn, helpers), kinds, qb_class, helpers or {}
        self.paths: List[list] = []

    def _helper_fn(self, name, env):
        v = env.get(name)
        if isinstance(v, Abs) and v.kind == "closure":
            return v.of
        return self.helpers.get(name)

    def run(self):
        env = {}
        for p, k in self.kinds.items():
            if isinstance(k, tuple):
                env[p] = Abs("list", p, [Abs(x, f"{p}[{i}]") for i, x in enumerate(k)])
            else:
                env[p] = Abs(k, p)
        for e, ev in self.block(self.fn.body, [(env, [])]):
            self.paths.append(ev)
        return self.paths

    def block(self, stmts, states):
        for st in stmts:
            nxt = []
            for e, v in states:
                nxt.extend(self.stmt(st, e, v))
            states = nxt
            if len(states) > 512:
                raise AnalysisError(f"kind typestate: path explosion in {self.fn.name}")
        return states

    def stmt(self, st, env, ev):
        if isinstance(st, ast.Return):
            ev = list(ev)
            if st.value is not None:
                r = self.val(st.value, env, ev)
                if hasattr(self, "_ret_kinds"):
                    self._ret_kinds.append(r.kind)
            self.paths.append(ev)
            return []
        if isinstance(st, ast.Raise):
            self.paths.append(list(ev) + [("raise", U(st.exc) if st.exc else "", st.lineno)])
            return []
        if isinstance(st, ast.Assign):
            ev = list(ev)
            v = self.val(st.value, env, ev)
            env = dict(env)
            for t in st.targets:
                self.bind(t, v, env, ev)
            return [(env, ev)]
        if isinstance(st, ast.AugAssign):
            ev = list(ev)
            self.val(st.value, env, ev)
            return [(env, ev)]
        if isinstance(st, ast.Assert):
            out = []
            for truth, ev2 in self.cond(st.test, env, list(ev)):
                if truth:
                    out.append((env, ev2))
                else:
                    self.paths.append(ev2 + [("assertfail", U(st.test), st.lineno)])
            return out
        if isinstance(st, ast.Expr):
            ev = list(ev)
            self.val(st.value, env, ev)
            return [(env, ev)]
        if isinstance(st, ast.If):
            out = []
            for truth, ev2 in self.cond(st.test, env, list(ev)):
                out.extend(self.block(st.body if truth else st.orelse, [(env, ev2)]))
            return out
        if isinstance(st, (ast.Pass, ast.Import, ast.ImportFrom)):
            return [(env, ev)]
        if isinstance(st, ast.FunctionDef):
            env = dict(env)
            env[st.name] = Abs("closure", st.name, of=st)
            return [(env, ev)]
        if isinstance(st, ast.For):
            ev = list(ev)
            it = self.val(st.iter, env, ev)
            env2 = dict(env)
            elem = Abs("opaque")
            if it.kind == "list" and it.items:
                ks = {x.kind for x in it.items}
                elem = it.items[0] if len(ks) == 1 else Abs("opaque")
            self.bind(st.target, elem, env2, ev)
            res = self.block(st.body, [(env2, ev)])
            return [(env, e2) for _, e2 in res] or [(env, ev)]
        raise AnalysisError(f"kind typestate: statement {type(st).__name__} at line {st.lineno} in {self.fn.name}")

    def bind(self, t, v, env, ev):
        if isinstance(t, ast.Name):
            env[t.id] = v
        elif isinstance(t, (ast.Tuple, ast.List)):
            for i, e in enumerate(t.elts):
                item = v.items[i] if v.kind == "list" and v.items and i < len(v.items) else Abs("opaque")
                self.bind(e, item, env, ev)
        elif isinstance(t, ast.Attribute):
            recv = self.val(t.value, env, ev)
            self.attr_check(recv, t.attr, t, ev)
        elif isinstance(t, ast.Subscript):
            self.val(t.value, env, ev)

    # -- conditions ----------------------------------------------------------------------------
    def cond(self, e, env, ev) -> List[Tuple[bool, list]]:
        if isinstance(e, ast.BoolOp):
            isand = isinstance(e.op, ast.And)
            results, cur = [], [ev]
            for operand in e.values:
                nxt = []
                for evx in cur:
                    for t, ev2 in self.cond(operand, env, list(evx)):
                        if t is (not isand):
                            results.append((t, ev2))
                        else:
                            nxt.append(ev2)
                cur = nxt
            for evx in cur:
                results.append((isand, evx))
            return results
        if isinstance(e, ast.UnaryOp) and isinstance(e.op, ast.Not):
            return [(not t, ev2) for t, ev2 in self.cond(e.operand, env, ev)]
        if isinstance(e, ast.Call) and isinstance(e.func, ast.Name) and e.func.id == "isinstance" and len(e.args) == 2:
            v = self.val(e.args[0], env, ev)
            clss = e.args[1].elts if isinstance(e.args[1], ast.Tuple) else [e.args[1]]
            names = [U(c).split(".")[-1] for c in clss]
            if v.kind in KINDS:
                res = False
                known = True
                for cls in names:
                    if cls == self.qb_class:
                        res = res or v.kind == "QB"
                    elif cls == "QTensor":
                        res = res or is_q(v.kind)
                    elif cls == "QBitsTensor":
                        res = res or v.kind == "QX"
                    elif cls == "Number":
                        if v.kind == "S":
                            known = False
                    elif cls == "Tensor":
                        if v.kind == "S":
                            known = False
                        else:
                            res = True
                    else:
                        known = False
                if known or res:
                    return [(res, ev)]
            return [(True, list(ev)), (False, list(ev))]
        if isinstance(e, ast.Call) and isinstance(e.func, ast.Name) and e.func.id != "is_scalar" and self._helper_fn(e.func.id, env) is not None:
            hfn = self._helper_fn(e.func.id, env)
            ps = positional_params(hfn)
            if len(hfn.body) >= 1 and isinstance(hfn.body[-1], ast.Return) and all(isinstance(x, ast.Expr) and isinstance(x.value, ast.Constant) for x in hfn.body[:-1]) and len(ps) == len(e.args) and not e.keywords:
                henv = dict(zip(ps, [self.val(a, env, ev) for a in e.args]))
                return self.cond(hfn.body[-1].value, henv, ev)
        if isinstance(e, ast.Call) and isinstance(e.func, ast.Name) and e.func.id == "is_scalar" and len(e.args) == 1:
            v = self.val(e.args[0], env, ev)
            if v.kind in KINDS:
                return [(v.kind == "S", ev)]
            return [(True, list(ev)), (False, list(ev))]
        if isinstance(e, ast.Compare) and len(e.ops) == 1:
            l, r = e.left, e.comparators[0]
            if isinstance(l, ast.Call) and U(l.func) == "len" and isinstance(r, ast.Constant):
                v = self.val(l.args[0], env, ev)
                if v.kind == "list" and v.items is not None:
                    n = len(v.items)
                    ops = {ast.Eq: n == r.value, ast.NotEq: n != r.value, ast.Gt: n > r.value, ast.GtE: n >= r.value, ast.Lt: n < r.value, ast.LtE: n <= r.value}
                    if type(e.ops[0]) in ops:
                        return [(ops[type(e.ops[0])], ev)]
            # type(x) == torch.Tensor / type(x) != torch.Tensor
            if isinstance(l, ast.Call) and U(l.func) == "type" and U(r) in ("torch.Tensor", "Tensor") and isinstance(e.ops[0], (ast.Eq, ast.NotEq, ast.Is, ast.IsNot)):
                v = self.val(l.args[0], env, ev)
                if v.kind in ("QB", "QX", "P"):
                    pos = v.kind == "P"
                    return [(pos if isinstance(e.ops[0], (ast.Eq, ast.Is)) else not pos, ev)]
            # facts about QX operands: low-bit integer qtypes, always per-axis
            fact = self.qx_fact(e, env, ev)
            if fact is not None:
                return [(fact, ev)]
        if isinstance(e, ast.Attribute):
            recv = self.val(e.value, env, ev) if not (isinstance(e.value, ast.Attribute) and e.value.attr == "qtype") else None
            if isinstance(e.value, ast.Attribute) and e.value.attr == "qtype" and e.attr == "is_floating_point":
                owner = self.val(e.value.value, env, ev)
                self.attr_check(owner, "qtype", e.value, ev)
                if owner.kind == "QX":
                    return [(False, ev)]
                return [(True, list(ev)), (False, list(ev))]
        self.val(e, env, ev)
        return [(True, list(ev)), (False, list(ev))]

    def qx_fact(self, e: ast.Compare, env, ev) -> Optional[bool]:
        l, r, op = e.left, e.comparators[0], e.ops[0]
        for a, b in ((l, r), (r, l)):
            if isinstance(a, ast.Attribute) and a.attr == "qtype" and isinstance(b, ast.Name) and b.id in ("qint8", "qfloat8", "qfloat8_e4m3fn", "qfloat8_e5m2"):
                owner = self.val(a.value, env, ev)
                self.attr_check(owner, "qtype", a, ev)
                if owner.kind == "QX":
                    return isinstance(op, (ast.NotEq, ast.IsNot))
            if isinstance(a, ast.Attribute) and a.attr == "axis" and isinstance(b, ast.Constant) and b.value is None:
                owner = self.val(a.value, env, ev)
                self.attr_check(owner, "axis", a, ev)
                if owner.kind == "QX":
                    return isinstance(op, (ast.IsNot, ast.NotEq))
        return None

    # -- values --------------------------------------------------------------------------------
    def attr_check(self, recv, attr, node, ev):
        if attr in QONLY and recv.kind in ("P", "S"):
            ev.append(("attr", recv.origin, attr, node.lineno, recv.kind))

    def val(self, e, env, ev) -> Abs:
        if isinstance(e, ast.Name):
            return env.get(e.id, Abs("opaque", e.id))
        if isinstance(e, ast.Attribute):
            recv = self.val(e.value, env, ev)
            self.attr_check(recv, e.attr, e, ev)
            if recv.kind in KINDS and e.attr in ("_data", "_scale", "_zeropoint"):
                if recv.kind == "QX" and e.attr == "_data":
                    return Abs("RAWQX", f"{recv.origin}._data", of=recv.origin)
                return Abs("P", f"{recv.origin}.{e.attr}")
            return Abs("opaque", None)
        if isinstance(e, ast.Subscript):
            v = self.val(e.value, env, ev)
            if v.kind == "list" and v.items is not None and isinstance(e.slice, ast.Constant) and isinstance(e.slice.value, int) and -len(v.items) <= e.slice.value < len(v.items):
                return v.items[e.slice.value]
            if not isinstance(e.slice, (ast.Slice, ast.Constant)):
                self.val(e.slice, env, ev)
            return Abs("opaque")
        if isinstance(e, ast.IfExp):
            outs = []
            for t, ev2 in self.cond(e.test, env, list(ev)):
                sub = []
                outs.append(self.val(e.body if t else e.orelse, env, sub))
                ev.extend(sub)
            ks = {o.kind for o in outs}
            return outs[0] if len(ks) == 1 else Abs("opaque")
        if isinstance(e, (ast.List, ast.Tuple)):
            return Abs("list", None, [self.val(x.value if isinstance(x, ast.Starred) else x, env, ev) for x in e.elts])
        if isinstance(e, ast.Call):
            return self.call(e, env, ev)
        if isinstance(e, (ast.ListComp, ast.GeneratorExp)):
            env2 = dict(env)
            for g in e.generators:
                it = self.val(g.iter, env2, ev)
                self.bind(g.target, Abs("P" if it.kind == "P" else "opaque"), env2, ev)
            self.val(e.elt, env2, ev)
            return Abs("opaque")
        if isinstance(e, ast.BinOp):
            a, b = self.val(e.left, env, ev), self.val(e.right, env, ev)
            for x in (a, b):
                if x.kind == "RAWQX":
                    ev.append(("rawqx", x.of, e.lineno))
            if "QB" in (a.kind, b.kind) or "QX" in (a.kind, b.kind):
                return Abs("opaque")
            return Abs("P" if "P" in (a.kind, b.kind) else "opaque")
        if isinstance(e, ast.Compare):
            self.val(e.left, env, ev)
            for c in e.comparators:
                self.val(c, env, ev)
            return Abs("opaque")
        if isinstance(e, ast.BoolOp):
            for v in e.values:
                self.val(v, env, ev)
            return Abs("opaque")
        if isinstance(e, ast.UnaryOp):
            return self.val(e.operand, env, ev)
        if isinstance(e, ast.Starred):
            return self.val(e.value, env, ev)
        return Abs("opaque")

    def call(self, e: ast.Call, env, ev) -> Abs:
        fname = U(e.func)
        args = [self.val(a.value if isinstance(a, ast.Starred) else a, env, ev) for a in e.args]
        for k in e.keywords:
            self.val(k.value, env, ev)
        if fname == "op":
            flat = []
            for a in args:
                flat.extend(a.items if a.kind == "list" and a.items is not None else [a])
            for a in flat:
                if a.kind == "RAWQX":
                    ev.append(("rawqx", a.of, e.lineno))
            ev.append(("op", tuple(a.kind for a in flat), e.lineno))
            return Abs("P")
        if fname == "qfallback":
            ev.append(("qfallback", e.lineno))
            return Abs("P")
        if fname.startswith("torch.") and not fname.startswith("torch.Size"):
            for a in args:
                if a.kind == "RAWQX":
                    ev.append(("rawqx", a.of, e.lineno))
            if any(a.kind in ("QB", "QX") for a in args) and fname.split(".")[-1] not in ("equal",):
                ev.append(("torchcall", fname, tuple(a.kind for a in args), e.lineno))
            return Abs("P")
        if isinstance(e.func, ast.Attribute):
            recv = self.val(e.func.value, env, ev)
            m = e.func.attr
            if m == "dequantize":
                if recv.kind == "S":
                    ev.append(("deq", recv.origin, e.lineno))
                return Abs("P", recv.origin) if recv.kind in KINDS else Abs("opaque")
            if m == "apply" and U(e.func.value).endswith("Quantizer"):
                return Abs("QB")
            if recv.kind in ("P", "RAWQX") and m in ("to", "t", "reshape", "view", "contiguous", "float", "flatten"):
                return Abs(recv.kind, recv.origin, of=recv.of)
            if recv.kind in KINDS and m in ("size", "stride", "dim", "numel"):
                return Abs("opaque")
        if isinstance(e.func, ast.Name):
            if e.func.id in (self.qb_class,):
                return Abs("QB")
            if e.func.id in ("quantize_activation",):
                return Abs("QB")
            hfn = self._helper_fn(e.func.id, env)
            if hfn is not None:
                # inline a package helper / local closure by executing it with the argument abstractions
                ps = positional_params(hfn)
                if len(ps) >= len(args):
                    sub = KindExec(hfn, {}, self.qb_class, self.helpers)
                    henv = dict(env) if e.func.id in env else {}
                    henv.update(zip(ps, args))
                    for k in e.keywords:
                        if k.arg:
                            henv[k.arg] = self.val(k.value, env, [])
                    sub._ret_kinds = []
                    for _, ev2 in sub.block(hfn.body, [(henv, [])]):
                        pass
                    for pth in sub.paths:
                        for x in pth:
                            if x[0] in ("attr", "deq", "rawqx", "op", "qfallback", "torchcall"):
                                ev.append(x)
                    rk = {k for k in sub._ret_kinds}
                    return Abs(rk.pop()) if len(rk) == 1 else Abs("opaque")
        return Abs("opaque")


def assignments(fn: ast.FunctionDef, ops: List[str], max_list: int = 3):
    """All kind assignments for a handler, from the aten schemas of the ops it is registered for."""
    params = positional_params(fn)[1:]
    roles = None
    for o in ops:
        if o not in SCHEMA:
            raise AnalysisError(f"no aten schema entry for {o} (handler {fn.name})")
        r = SCHEMA[o]
        roles = r if roles is None else (roles if roles == r else None)
        if roles is None:
            raise AnalysisError(f"handler {fn.name} is registered for ops with different operand schemas")
    names, doms = [], []
    for i, pname in enumerate(params):
        role = roles[i] if i < len(roles) else "a"
        if role == "a":
            continue
        names.append(pname)
        if role == "list":
            doms.append([tuple(c) for L in range(1, max_list + 1) for c in itertools.product(("QB", "QX", "P"), repeat=L)])
        elif role == "t":
            doms.append(["QB", "QX", "P"])
        else:
            doms.append(["QB", "QX", "P", "S"])
    if not names:
        raise AnalysisError(f"handler {fn.name} has no tensor operand parameter")
    for combo in itertools.product(*doms):
        flat = [x for c in combo for x in (c if isinstance(c, tuple) else (c,))]
        if "QB" not in flat:
            continue
        yield dict(zip(names, combo))


def analyse(fn: ast.FunctionDef, ops: List[str], max_list: int = 3, helpers: Optional[dict] = None):
    """returns (findings, n_assignments, n_paths).  findings: set of tuples keyed by construct, not by line."""
    findings = {}
    trans = {}
    n_asg = n_paths = 0
    for asg in assignments(fn, ops, max_list):
        n_asg += 1
        key = tuple(x for v in asg.values() for x in (v if isinstance(v, tuple) else (v,)))
        ex = KindExec(fn, asg, helpers=helpers)
        for ev in ex.run():
            n_paths += 1
            for e in ev:
                if e[0] == "attr":
                    findings.setdefault(("attr", e[1], e[2]), {"line": e[3], "kinds": []})["kinds"].append(dict(asg))
                elif e[0] == "deq":
                    findings.setdefault(("deq", e[1]), {"line": e[2], "kinds": []})["kinds"].append(dict(asg))
                elif e[0] == "rawqx":
                    findings.setdefault(("rawqx", e[1]), {"line": e[2], "kinds": []})["kinds"].append(dict(asg))
                elif e[0] == "op" and "QB" in e[1]:
                    trans.setdefault(key, set()).add((e[1], e[2]))
    for k, outs in trans.items():
        for o, line in outs:
            seen, stack = {k}, [o]
            while stack:
                c = stack.pop()
                if c in seen:
                    findings.setdefault(("cycle", k), {"line": line, "kinds": [k], "to": c})
                    break
                seen.add(c)
                stack.extend(x for x, _ in trans.get(c, ()))
    return findings, n_asg, n_paths
