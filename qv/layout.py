"""E5: abstract interpretation of reshape/permute/bit-pack chains in a 'digit layout' domain.

A tensor is never materialised.  An abstract tensor is a list of dims; every dim is a list of atoms
(most significant first).  An atom (axis, stride, size) denotes the digit  (idx_axis // stride) % size  of the
coordinates of the ORIGINAL input tensor.  Sizes/strides are monomials  c * sym  (c int, sym in {None,'n','k',...}).
reshape = flatten atom list, re-split (splitting atoms where necessary); permute = reorder dims.
Bit packing adds 'lanes': the atoms of a dropped last dim stored in bit slots of each element.
"""
from __future__ import annotations

import ast
from dataclasses import dataclass
from fractions import Fraction
from typing import List, Optional, Tuple


class LayoutError(Exception):
    pass


@dataclass(frozen=True)
class Mono:
    """monomial c * s1 * s2 * ... (each symbol an unknown positive size)"""
    c: Fraction
    syms: Tuple[str, ...] = ()

    def __init__(self, c, sym=None):
        object.__setattr__(self, "c", Fraction(c))
        if sym is None:
            syms = ()
        elif isinstance(sym, str):
            syms = (sym,)
        else:
            syms = tuple(sorted(sym))
        object.__setattr__(self, "syms", syms)

    @property
    def sym(self):
        return self.syms[0] if self.syms else None

    @staticmethod
    def of(x):
        if isinstance(x, Mono):
            return x
        return Mono(Fraction(x), None)

    def __mul__(self, o):
        o = Mono.of(o)
        return Mono(self.c * o.c, self.syms + o.syms)

    __rmul__ = __mul__

    def div(self, o):
        o = Mono.of(o)
        rest = list(self.syms)
        for s_ in o.syms:
            if s_ not in rest:
                raise LayoutError(f"cannot divide {self} by {o}")
            rest.remove(s_)
        q = self.c / o.c
        if q.denominator != 1:
            raise LayoutError(f"{self} not divisible by {o}")
        return Mono(q, rest)

    def divisible(self, o):
        try:
            self.div(o)
            return True
        except LayoutError:
            return False

    def is_one(self):
        return not self.syms and self.c == 1

    def __repr__(self):
        if not self.syms:
            return str(self.c)
        return f"{self.c if self.c != 1 else ''}{'*'.join(self.syms)}"


@dataclass(frozen=True)
class Atom:
    axis: int
    stride: Mono
    size: Mono

    def __repr__(self):
        return f"a{self.axis}[{self.size}@{self.stride}]"


def canon(atoms: List[Atom]) -> List[Atom]:
    """merge adjacent atoms that are contiguous digits of the same axis; drop size-1 atoms"""
    out: List[Atom] = []
    for a in atoms:
        if a.size.is_one():
            continue
        if out and out[-1].axis == a.axis and out[-1].stride == a.stride * a.size:
            p = out.pop()
            out.append(Atom(a.axis, a.stride, p.size * a.size))
        else:
            out.append(a)
    return out


@dataclass
class ATensor:
    dims: List[List[Atom]]
    lanes: Optional[List[Tuple[int, int, List[Atom]]]] = None  # (bit offset, width, atoms-index j of packed dim)

    def sizes(self):
        res = []
        for d in self.dims:
            s = Mono.of(1)
            for a in d:
                s = s * a.size
            res.append(s)
        return res

    def key(self):
        return tuple(tuple(canon(d)) for d in self.dims), None if self.lanes is None else tuple(
            (o, w, tuple(canon(a))) for o, w, a in self.lanes
        )


def input_tensor(sizes: List[Mono]) -> ATensor:
    return ATensor([[Atom(i, Mono.of(1), s)] for i, s in enumerate(sizes)])


def reshape(t: ATensor, new_sizes: List[Mono]) -> ATensor:
    flat = [a for d in t.dims for a in d]
    flat = [a for a in flat if not a.size.is_one()]
    out: List[List[Atom]] = []
    i = 0
    pending: Optional[Atom] = None
    for ns in new_sizes:
        cur: List[Atom] = []
        need = ns
        while not need.is_one():
            if pending is None:
                if i >= len(flat):
                    raise LayoutError("reshape: ran out of elements")
                pending = flat[i]
                i += 1
            a = pending
            if need.divisible(a.size):
                cur.append(a)
                need = need.div(a.size)
                pending = None
            elif a.size.divisible(need):
                lo = a.size.div(need)
                cur.append(Atom(a.axis, a.stride * lo, need))
                pending = Atom(a.axis, a.stride, lo)
                need = Mono.of(1)
            else:
                raise LayoutError(f"reshape: size {need} does not align with atom {a}")
        out.append(cur)
    if pending is not None or i != len(flat):
        raise LayoutError("reshape: element count mismatch")
    return ATensor(out, t.lanes)


def permute(t: ATensor, perm: List[int]) -> ATensor:
    if sorted(perm) != list(range(len(t.dims))):
        raise LayoutError(f"bad permutation {perm} for rank {len(t.dims)}")
    return ATensor([t.dims[p] for p in perm], t.lanes)


def pack_last(t: ATensor, slots: List[Tuple[int, int]], width: int) -> ATensor:
    """slots: list of (index j in last dim, left shift).  Result drops the last dim."""
    last = t.dims[-1]
    size = t.sizes()[-1]
    if size.syms or int(size.c) != len(slots):
        raise LayoutError("pack: last dim size != number of slots")
    if sorted(j for j, _ in slots) != list(range(len(slots))):
        raise LayoutError("pack: indices of last dim not all used exactly once")
    offs = sorted(s for _, s in slots)
    if any(b - a < width for a, b in zip(offs, offs[1:])):
        raise LayoutError("pack: overlapping bit slots")
    # lane at bit offset s holds index j of the last dim
    lanes = [(s, width, j) for j, s in slots]
    return ATensor(t.dims[:-1], [(s, w, [Atom(-1, Mono.of(0), Mono.of(j))]) for s, w, j in lanes]), last


def unpack_last(t: ATensor, fields: List[Tuple[int, int]], width: int, last_atoms) -> ATensor:
    """fields: ordered list of (mask, right shift); element m of the new last dim = (x & mask) >> shift"""
    new_index_of = {}
    for m, (mask, sh) in enumerate(fields):
        if mask != ((1 << width) - 1) << sh:
            raise LayoutError(f"unpack: mask {mask:#x} is not a {width}-bit field at shift {sh}")
        lane = [l for l in t.lanes if l[0] == sh]
        if not lane:
            raise LayoutError(f"unpack: no lane at bit {sh}")
        j = int(lane[0][2][0].size.c)
        new_index_of[m] = j
    if [new_index_of[m] for m in range(len(fields))] != list(range(len(fields))):
        raise LayoutError(f"unpack: lanes restored in order {new_index_of}")
    return ATensor(t.dims + [last_atoms], None)
