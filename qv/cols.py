"""E5 column mode (AWQ v1): dim 1 is explicit for a given column count K, rows and contents stay abstract.

CT   : 2-D tensor, one cell per column; a cell is a frozenset of bit fields (offset, width, source column)
CT3  : 3-D tensor (rows, cols, j): cells[col][j]
IV   : concrete integer index tensor (nested python lists), for arange / view / gather arithmetic
Integer arithmetic is concrete; tensor contents never are.
"""
from __future__ import annotations

import ast
from typing import List, Optional

from .core import U, canon_function, module_lookup
from .rows import RowError, RowUnknown


class CT:
    def __init__(self, cells, width=8):
        self.cells = list(cells)
        self.width = width

    @staticmethod
    def source(K: int, bits: int, width: int = 8):
        return CT([frozenset({(0, bits, c)}) for c in range(K)], width)

    def key(self):
        return tuple(tuple(sorted(c)) for c in self.cells)


class CT3:
    def __init__(self, cells, width):
        self.cells = cells  # cells[col][j]
        self.width = width


class IV:
    def __init__(self, data):
        self.data = data  # flat list or list of lists

    def flat(self):
        out = []

        def rec(x):
            if isinstance(x, list):
                for y in x:
                    rec(y)
            else:
                out.append(x)

        rec(self.data)
        return out


def _shift(cell, s, width):
    out = set()
    for o, w, c in cell:
        if o + s + w <= 0:
            continue
        if o + s < 0:
            raise RowError(f"right shift by {-s} cuts through the field at bits [{o},{o + w})")
        if o + s + w > width:
            raise RowError(f"left shift by {s} pushes a {w}-bit field at bit {o} beyond {width} bits")
        out.add((o + s, w, c))
    return frozenset(out)


def _truncate(cell, width):
    out = set()
    for o, w, c in cell:
        if o >= width:
            continue
        if o + w > width:
            raise RowError(f"cast to {width} bits cuts through the field at bits [{o},{o + w})")
        out.add((o, w, c))
    return frozenset(out)


def _mask(cell, m):
    if m == 0:
        return frozenset()
    lo = (m & -m).bit_length() - 1
    width = m.bit_length() - lo
    if m != ((1 << width) - 1) << lo:
        raise RowError(f"mask {m:#x} is not contiguous")
    out = set()
    for o, w, c in cell:
        if o >= lo and o + w <= lo + width:
            out.add((o, w, c))
        elif o + w <= lo or o >= lo + width:
            continue
        else:
            raise RowError(f"mask {m:#x} cuts through the field at bits [{o},{o + w})")
    return frozenset(out)


def _or(a, b, where):
    for o1, w1, c1 in a:
        for o2, w2, c2 in b:
            if o1 < o2 + w2 and o2 < o1 + w1:
                raise RowError(f"lanes overlap in packed column {where}: bits [{o1},{o1 + w1}) (column {c1}) and [{o2},{o2 + w2}) (column {c2})")
    return a | b


DTYPE_BITS = {"torch.int32": 32, "torch.int16": 16, "torch.int8": 8, "torch.uint8": 8, "torch.int64": 64}


class _Ret(Exception):
    def __init__(self, v):
        self.v = v


class ColInterp:
    def __init__(self, fn: ast.FunctionDef, args: dict):
        self.fn = canon_function(fn)
        self.args = args

    def run(self):
        env = dict(self.args)
        try:
            self.block(self.fn.body, env)
        except _Ret as r:
            return r.v
        return None

    def block(self, stmts, env):
        for st in stmts:
            self.stmt(st, env)

    def stmt(self, st, env):
        if isinstance(st, ast.Expr):
            if not isinstance(st.value, ast.Constant):
                self.ev(st.value, env)
            return
        if isinstance(st, ast.Assign):
            v = self.ev(st.value, env)
            for t in st.targets:
                if isinstance(t, ast.Name):
                    env[t.id] = v
                elif isinstance(t, (ast.Tuple, ast.List)):
                    for a, b in zip(t.elts, v):
                        env[a.id] = b
                else:
                    raise RowUnknown("assignment target")
            return
        if isinstance(st, ast.AugAssign):
            if isinstance(st.target, ast.Subscript) and isinstance(st.op, ast.BitOr):
                base = self.ev(st.target.value, env)
                col = self.col_index(st.target.slice, env)
                rhs = self.ev(st.value, env)
                if not (isinstance(base, CT) and isinstance(rhs, CT) and len(rhs.cells) == 1):
                    raise RowUnknown("|= operands")
                base.cells[col] = _or(base.cells[col], rhs.cells[0], col)
                return
            if isinstance(st.target, ast.Name):
                env[st.target.id] = self.binop(st.op, env[st.target.id], self.ev(st.value, env))
                return
            raise RowUnknown("augmented assignment")
        if isinstance(st, ast.If):
            c = self.ev(st.test, env)
            if not isinstance(c, bool):
                raise RowUnknown(f"condition {U(st.test)[:40]}")
            self.block(st.body if c else st.orelse, env)
            return
        if isinstance(st, ast.For):
            it = self.ev(st.iter, env)
            if not isinstance(it, (list, tuple, range)):
                raise RowUnknown("loop bound")
            for x in it:
                if isinstance(st.target, ast.Name):
                    env[st.target.id] = x
                elif isinstance(st.target, (ast.Tuple, ast.List)) and isinstance(x, (tuple, list)) and len(x) == len(st.target.elts) and all(isinstance(t, ast.Name) for t in st.target.elts):
                    for t, v in zip(st.target.elts, x):
                        env[t.id] = v
                else:
                    raise RowUnknown("loop target")
                self.block(st.body, env)
            return
        if isinstance(st, ast.Return):
            raise _Ret(self.ev(st.value, env))
        if isinstance(st, (ast.Assert, ast.Pass)):
            return
        raise RowUnknown(f"statement {type(st).__name__}")

    def col_index(self, s, env):
        """index of the form [:, <int>]"""
        if isinstance(s, ast.Tuple) and len(s.elts) == 2 and isinstance(s.elts[0], ast.Slice) and s.elts[0].lower is None and s.elts[0].upper is None:
            v = self.ev(s.elts[1], env)
            if isinstance(v, int):
                return v
        raise RowUnknown(f"index {U(s)[:40]}")

    def binop(self, op, a, b):
        if isinstance(a, int) and isinstance(b, int):
            t = {ast.Add: lambda: a + b, ast.Sub: lambda: a - b, ast.Mult: lambda: a * b, ast.FloorDiv: lambda: a // b, ast.Mod: lambda: a % b,
                 ast.Pow: lambda: a ** b, ast.LShift: lambda: a << b, ast.RShift: lambda: a >> b, ast.BitAnd: lambda: a & b}
            if type(op) in t:
                return t[type(op)]()
        if isinstance(a, CT) and isinstance(b, int):
            if isinstance(op, ast.LShift):
                return CT([_shift(c, b, a.width) for c in a.cells], a.width)
            if isinstance(op, ast.RShift):
                return CT([_shift(c, -b, a.width) for c in a.cells], a.width)
            if isinstance(op, ast.BitAnd):
                return CT([_mask(c, b) for c in a.cells], a.width)
        raise RowUnknown(f"operator {type(op).__name__}")

    def ev(self, e, env):
        if isinstance(e, ast.Constant):
            return e.value
        if isinstance(e, ast.Name):
            if e.id in env:
                return env[e.id]
            if e.id == "torch":
                return "torch"
            r = module_lookup(self.fn, e.id)
            if isinstance(r, ast.Constant):
                return r.value
            if isinstance(r, (ast.List, ast.Tuple)) and all(isinstance(x, ast.Constant) for x in r.elts):
                return [x.value for x in r.elts]
            if isinstance(r, ast.FunctionDef):
                return r
            raise RowUnknown(f"name {e.id}")
        if isinstance(e, (ast.List, ast.Tuple)):
            return [self.ev(x, env) for x in e.elts]
        if isinstance(e, ast.BinOp):
            return self.binop(e.op, self.ev(e.left, env), self.ev(e.right, env))
        if isinstance(e, ast.UnaryOp) and isinstance(e.op, ast.USub):
            return -self.ev(e.operand, env)
        if isinstance(e, ast.UnaryOp) and isinstance(e.op, ast.Not):
            v = self.ev(e.operand, env)
            if isinstance(v, bool):
                return not v
            raise RowUnknown("negation of a non-constant")
        if isinstance(e, ast.BoolOp):
            vals = [self.ev(v, env) for v in e.values]
            if all(isinstance(v, bool) for v in vals):
                return all(vals) if isinstance(e.op, ast.And) else any(vals)
            raise RowUnknown("boolean operator on non-constants")
        if isinstance(e, ast.Compare) and len(e.ops) == 1:
            a, b = self.ev(e.left, env), self.ev(e.comparators[0], env)
            if isinstance(a, (int, bool)) and isinstance(b, (int, bool)):
                return {ast.Eq: a == b, ast.NotEq: a != b, ast.Lt: a < b, ast.LtE: a <= b, ast.Gt: a > b, ast.GtE: a >= b, ast.Is: a is b, ast.IsNot: a is not b}[type(e.ops[0])]
            raise RowUnknown("comparison")
        if isinstance(e, ast.IfExp):
            c = self.ev(e.test, env)
            if not isinstance(c, bool):
                raise RowUnknown("conditional")
            return self.ev(e.body if c else e.orelse, env)
        if isinstance(e, ast.Attribute):
            if e.attr == "device":
                return "device"
            v = self.ev(e.value, env)
            if isinstance(v, CT) and e.attr == "shape":
                return ("rows", len(v.cells))
            if isinstance(v, CT3) and e.attr == "shape":
                return ("rows", len(v.cells), len(v.cells[0]) if v.cells else 0)
            if v == "torch":
                return f"torch.{e.attr}"
            raise RowUnknown(f"attribute {U(e)[:40]}")
        if isinstance(e, ast.Subscript):
            return self.subscript(e, env)
        if isinstance(e, ast.Call):
            return self.call(e, env)
        raise RowUnknown(f"expression {type(e).__name__}")

    def subscript(self, e, env):
        v = self.ev(e.value, env)
        s = e.slice
        if isinstance(v, (list, tuple)):
            if isinstance(s, ast.Slice):
                lo = self.ev(s.lower, env) if s.lower else None
                hi = self.ev(s.upper, env) if s.upper else None
                return v[lo:hi]
            return v[self.ev(s, env)]
        if isinstance(v, CT) and isinstance(s, ast.Tuple):
            el = s.elts
            full = lambda x: isinstance(x, ast.Slice) and x.lower is None and x.upper is None and x.step is None
            if len(el) == 2 and full(el[0]):
                idx = self.ev(el[1], env)
                if isinstance(idx, int):
                    if not (0 <= idx < len(v.cells)):
                        raise RowError(f"column index {idx} out of range (K={len(v.cells)})")
                    return CT([v.cells[idx]], v.width)
                if isinstance(idx, IV):
                    fl = idx.flat()
                    if any(not (0 <= i < len(v.cells)) for i in fl):
                        raise RowError("gather index out of range")
                    return CT([v.cells[i] for i in fl], v.width)
                if isinstance(idx, list) and all(isinstance(i, int) for i in idx):
                    return CT([v.cells[i] for i in idx], v.width)
            if len(el) == 3 and full(el[0]) and full(el[1]) and isinstance(el[2], ast.Constant) and el[2].value is None:
                return CT3([[c] for c in v.cells], v.width)
        if isinstance(v, IV) and isinstance(s, ast.Tuple):
            el = s.elts
            if len(el) == 3 and all(isinstance(x, ast.Constant) and x.value is None for x in el[:2]):
                return IV(v.flat())  # shifts[None, None, :]
            full = lambda x: isinstance(x, ast.Slice) and x.lower is None and x.upper is None and x.step is None
            if len(el) == 2 and full(el[0]):
                idx = self.ev(el[1], env)
                if isinstance(idx, list) and all(isinstance(r, list) for r in v.data):
                    return IV([[row[i] for i in idx] for row in v.data])
        raise RowUnknown(f"subscript {U(e)[:50]}")

    def call(self, e, env):
        f = e.func
        kw = {k.arg: self.ev(k.value, env) for k in e.keywords if k.arg not in ("device",)}
        if isinstance(f, ast.Name):
            args = [self.ev(a, env) for a in e.args]
            if f.id == "range":
                return list(range(*args))
            if f.id in ("int", "bool") and len(args) == 1:
                return args[0]
            if f.id in ("len",):
                return len(args[0])
            if f.id == "enumerate" and len(args) in (1, 2) and isinstance(args[0], (list, tuple, range)):
                start = args[1] if len(args) == 2 else kw.get("start", 0)
                return [(start + i, x) for i, x in enumerate(args[0])]
            if f.id in ("list", "tuple") and len(args) == 1 and isinstance(args[0], (list, tuple, range)):
                return list(args[0])
            if f.id == "zip" and all(isinstance(a, (list, tuple, range)) for a in args):
                return [tuple(z) for z in zip(*args)]
            fn = env.get(f.id)
            if not isinstance(fn, ast.FunctionDef):
                fn = module_lookup(self.fn, f.id)
            if isinstance(fn, ast.FunctionDef):
                names = [a.arg for a in fn.args.args]
                henv = dict(zip(names, args))
                henv.update(kw)
                for a, d in zip(reversed(fn.args.args), reversed(fn.args.defaults)):
                    henv.setdefault(a.arg, self.ev(d, {}))
                return ColInterp(fn, henv).run()
            raise RowUnknown(f"call {f.id}")
        if isinstance(f, ast.Attribute):
            ft = U(f)
            if ft == "torch.zeros":
                args = [self.ev(a, env) for a in e.args]
                shape = args[0] if len(args) == 1 and isinstance(args[0], (list, tuple)) else args
                cols = shape[1]
                if not isinstance(cols, int):
                    raise RowUnknown("zeros with a symbolic column count")
                width = DTYPE_BITS.get(str(kw.get("dtype")), 32)
                return CT([frozenset() for _ in range(cols)], width)
            if ft == "torch.arange":
                args = [self.ev(a, env) for a in e.args]
                return IV(list(range(*args)))
            if ft in ("torch.bitwise_right_shift", "torch.bitwise_left_shift"):
                a, b = self.ev(e.args[0], env), self.ev(e.args[1], env)
                sign = -1 if "right" in ft else 1
                if isinstance(a, CT3) and isinstance(b, IV):
                    sh = b.flat()
                    if any(len(c) != 1 for c in a.cells):
                        raise RowUnknown("shift broadcast")
                    return CT3([[_shift(c[0], sign * s_, a.width) for s_ in sh] for c in a.cells], a.width)
                if isinstance(a, CT) and isinstance(b, int):
                    return CT([_shift(c, sign * b, a.width) for c in a.cells], a.width)
                raise RowUnknown("bitwise shift operands")
            if ft == "torch.bitwise_and":
                a, b = self.ev(e.args[0], env), self.ev(e.args[1], env)
                if isinstance(a, CT) and isinstance(b, int):
                    return CT([_mask(c, b) for c in a.cells], a.width)
                raise RowUnknown("bitwise_and operands")
            recv = self.ev(f.value, env)
            args = [self.ev(a, env) for a in e.args]
            if f.attr in ("bitwise_right_shift", "bitwise_left_shift") and len(args) == 1:
                sign = -1 if "right" in f.attr else 1
                a, b = recv, args[0]
                if isinstance(a, CT3) and isinstance(b, IV):
                    if any(len(c) != 1 for c in a.cells):
                        raise RowUnknown("shift broadcast")
                    return CT3([[_shift(c[0], sign * s_, a.width) for s_ in b.flat()] for c in a.cells], a.width)
                if isinstance(a, CT) and isinstance(b, int):
                    return CT([_shift(c, sign * b, a.width) for c in a.cells], a.width)
            if f.attr == "bitwise_and" and len(args) == 1 and isinstance(recv, CT) and isinstance(args[0], int):
                return CT([_mask(c, args[0]) for c in recv.cells], recv.width)
            if isinstance(recv, (CT, CT3)) and f.attr == "to":
                width = DTYPE_BITS.get(str(args[0]) if args else str(kw.get("dtype")))
                if width is None:
                    return recv
                if isinstance(recv, CT):
                    return CT([_truncate(c, width) for c in recv.cells], width) if width < recv.width else CT(recv.cells, width)
                return CT3([[_truncate(c, width) for c in col] for col in recv.cells], width) if width < recv.width else CT3(recv.cells, width)
            if isinstance(recv, CT3) and f.attr in ("view", "reshape") and len(args) == 2 and args[1] == -1:
                return CT([c for col in recv.cells for c in col], recv.width)
            if isinstance(recv, IV) and f.attr in ("view", "reshape"):
                fl = recv.flat()
                if args == [-1]:
                    return IV(fl)
                if len(args) == 2 and args[0] == -1 and isinstance(args[1], int) and args[1] > 0 and len(fl) % args[1] == 0:
                    n = args[1]
                    return IV([fl[i:i + n] for i in range(0, len(fl), n)])
            if isinstance(recv, (CT, CT3, IV)) and f.attr in ("contiguous", "clone"):
                return recv
            raise RowUnknown(f"call {ft[:50]}")
        raise RowUnknown("call")
