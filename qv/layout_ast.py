"""E5 AST front-end for the digit-layout domain: interprets straight-line reshape/permute/bit code."""
import ast
import sys
from fractions import Fraction

from .layout import ATensor, Atom, LayoutError, Mono, canon, input_tensor, permute, reshape


class Unknown(Exception):
    pass


def _raise(e):
    raise e


class Opaque:
    def __init__(self, what):
        self.what = what

    def __repr__(self):
        return f"<opaque {self.what}>"


class Lane:
    """elementwise bit-level view of a tensor: value = sum over fields (src_field << dst_off)"""

    def __init__(self, t, fields):
        self.t = t  # ATensor (layout of the elements)
        self.fields = fields  # list of (dst_off, width, payload) payload = ('dim', j) index j of a dropped last dim | ('all',)


class NeedChoice(Exception):
    """a memory-layout question (`t.is_contiguous()`) was asked beyond the answers supplied: the caller re-runs with one more answer, both ways"""


def run_all(make, limit=4):
    """Run `make(choices)` (returning an Interp) for every combination of answers to the memory-layout questions it meets; yields (choices, result).
    The logical layout of a tensor says nothing about its strides: every answer is an instance."""
    todo = [[]]
    while todo:
        ch = todo.pop()
        it = make(ch)
        try:
            yield ch, it.run()
        except NeedChoice:
            if len(ch) >= limit:
                raise Unknown("too many memory-layout questions")
            todo.append(ch + [True])
            todo.append(ch + [False])


class Interp:
    def __init__(self, fn, args, consts=None, choices=None):
        self.choices, self.pos = list(choices or []), 0
        from .core import canon_function
        fn = canon_function(fn)
        self.fn = fn
        self.env = dict(consts or {})
        for a, v in zip([a.arg for a in fn.args.args], args):
            self.env[a] = v
        self.asserts = []
        self.log = []

    # ---------------------------------------------------------------- statements
    def run(self):
        for st in self.fn.body:
            r = self.stmt(st)
            if r is not None:
                return r[0]
        return None

    def stmt(self, st):
        if isinstance(st, ast.Expr) and isinstance(st.value, ast.Constant):
            return None
        if isinstance(st, ast.Expr) and isinstance(st.value, ast.Call):
            self.ev(st.value)  # a helper called for its checks
            return None
        if isinstance(st, ast.Pass):
            return None
        if isinstance(st, ast.Assert):
            self.asserts.append(ast.unparse(st.test))
            return None
        if isinstance(st, ast.Assign):
            v = self.ev(st.value)
            for t in st.targets:
                self.bind(t, v)
            return None
        if isinstance(st, ast.Return):
            return (self.ev(st.value),)
        if isinstance(st, ast.If):
            c = self.ev(st.test)
            if not isinstance(c, bool):
                raise Unknown(f"non-constant condition {ast.unparse(st.test)}")
            for s in st.body if c else st.orelse:
                r = self.stmt(s)
                if r is not None:
                    return r
            return None
        if isinstance(st, ast.Raise):
            raise LayoutError(f"raise reached: {ast.unparse(st)[:60]}")
        raise Unknown(f"statement {type(st).__name__}: {ast.unparse(st)[:60]}")

    def ev_IfExp(self, e):
        c = self.ev(e.test)
        if not isinstance(c, bool):
            raise Unknown("non-constant conditional expression")
        return self.ev(e.body if c else e.orelse)

    def ev_BoolOp(self, e):
        vals = []
        for v in e.values:
            x = self.ev(v)
            if not isinstance(x, bool):
                raise Unknown("non-boolean operand")
            if isinstance(e.op, ast.And) and not x:
                return False
            if isinstance(e.op, ast.Or) and x:
                return True
        return isinstance(e.op, ast.And)

    def bind(self, tgt, v):
        if isinstance(tgt, ast.Name):
            self.env[tgt.id] = v
        elif isinstance(tgt, (ast.Tuple, ast.List)):
            vs = list(v)
            if len(vs) != len(tgt.elts):
                raise Unknown("unpack arity")
            for e, x in zip(tgt.elts, vs):
                self.bind(e, x)
        else:
            raise Unknown("assignment target")

    # ---------------------------------------------------------------- expressions
    def ev(self, e):
        m = getattr(self, "ev_" + type(e).__name__, None)
        if m is None:
            raise Unknown(f"expression {type(e).__name__}: {ast.unparse(e)[:60]}")
        return m(e)

    def ev_JoinedStr(self, e):
        # a message (f-string): its text plays no part in a layout
        return "<message>"

    def ev_Constant(self, e):
        return e.value

    def ev_Name(self, e):
        if e.id in self.env:
            return self.env[e.id]
        if e.id in ("torch", "np"):
            return Opaque(e.id)
        from .core import module_lookup
        r = module_lookup(self.fn, e.id)
        if isinstance(r, ast.FunctionDef):
            return r
        if isinstance(r, ast.Constant):
            return r.value
        if isinstance(r, (ast.Tuple, ast.List)) and all(isinstance(x, ast.Constant) or (isinstance(x, ast.UnaryOp) and isinstance(x.operand, ast.Constant)) for x in r.elts):
            return tuple(self.ev(x) for x in r.elts)
        if e.id == "None":
            return None
        raise Unknown(f"name {e.id}")

    def ev_Tuple(self, e):
        return tuple(self.ev(x) for x in e.elts)

    def ev_List(self, e):
        return [self.ev(x) for x in e.elts]

    def ev_UnaryOp(self, e):
        v = self.ev(e.operand)
        if isinstance(e.op, ast.USub) and isinstance(v, int):
            return -v
        if isinstance(e.op, ast.Not) and isinstance(v, bool):
            return not v
        raise Unknown("unary")

    def ev_Compare(self, e):
        l = self.ev(e.left)
        r = self.ev(e.comparators[0])
        op = e.ops[0]
        if len(e.ops) == 1 and isinstance(op, (ast.Is, ast.IsNot)) and (l is None or r is None):
            same = l is r
            return same if isinstance(op, ast.Is) else not same
        if len(e.ops) == 1 and isinstance(op, (ast.Is, ast.IsNot)) and (isinstance(l, (int, Mono, ATensor)) or isinstance(r, (int, Mono, ATensor))):
            return isinstance(op, ast.IsNot)
        if len(e.ops) == 1 and isinstance(op, (ast.In, ast.NotIn)) and isinstance(r, (tuple, list)):
            if isinstance(l, int) and all(isinstance(x, int) or x is None for x in r):
                return (l in r) if isinstance(op, ast.In) else (l not in r)
        if len(e.ops) == 1 and isinstance(op, (ast.Gt, ast.Lt, ast.GtE, ast.LtE)) and isinstance(l, (int, Mono)) and isinstance(r, (int, Mono)):
            if isinstance(l, int) and isinstance(r, int):
                return {ast.Gt: l > r, ast.Lt: l < r, ast.GtE: l >= r, ast.LtE: l <= r}[type(op)]
            # symbolic sizes are positive integers: compared with zero (or a negative literal) the answer is known
            for sym_, lit_, flip in ((l, r, False), (r, l, True)):
                if isinstance(sym_, Mono) and isinstance(lit_, int) and lit_ <= 0:
                    gt = True  # sym > lit
                    table = {ast.Gt: gt, ast.GtE: gt, ast.Lt: not gt, ast.LtE: not gt}
                    res = table[type(op)]
                    return (not res) if flip else res
            a, b = Mono.of(l), Mono.of(r)
            # symbolic sizes are positive integers: a | b  =>  a <= b
            if b.divisible(a):
                return {ast.Gt: False, ast.LtE: True}.get(type(op)) if type(op) in (ast.Gt, ast.LtE) else (_raise(Unknown("symbolic comparison")))
            if a.divisible(b):
                return {ast.Lt: False, ast.GtE: True}.get(type(op)) if type(op) in (ast.Lt, ast.GtE) else (_raise(Unknown("symbolic comparison")))
            raise Unknown("symbolic comparison")
        if len(e.ops) == 1 and isinstance(e.ops[0], (ast.Eq, ast.NotEq)):
            if isinstance(l, (tuple, list)) and isinstance(r, (tuple, list)):
                eq = tuple(map(Mono.of, l)) == tuple(map(Mono.of, r))
            elif (isinstance(l, Mono) and isinstance(r, int) and r <= 0) or (isinstance(r, Mono) and isinstance(l, int) and l <= 0):
                eq = False  # a symbolic size is a positive integer
            elif isinstance(l, (int, Mono)) and isinstance(r, (int, Mono)):
                eq = Mono.of(l) == Mono.of(r)
            else:
                raise Unknown("compare")
            return eq if isinstance(e.ops[0], ast.Eq) else not eq
        raise Unknown("compare op")

    def ev_BinOp(self, e):
        l, r = self.ev(e.left), self.ev(e.right)
        op = e.op
        if isinstance(l, (int, Mono)) and isinstance(r, (int, Mono)):
            if isinstance(l, int) and isinstance(r, int):
                return {ast.FloorDiv: lambda: l // r, ast.Mult: lambda: l * r, ast.Add: lambda: l + r, ast.Sub: lambda: l - r, ast.Pow: lambda: l**r, ast.LShift: lambda: l << r, ast.Mod: lambda: l % r}[type(op)]()
            if isinstance(op, ast.FloorDiv):
                return Mono.of(l).div(r)
            if isinstance(op, ast.Mult):
                return Mono.of(l) * r
            if isinstance(op, ast.Mod):
                if Mono.of(l).divisible(r):
                    return 0
                raise Unknown("symbolic remainder")
            raise Unknown("symbolic arithmetic")
        if isinstance(l, tuple) and isinstance(r, tuple) and isinstance(op, ast.Add):
            return l + r
        # bit-level ops on tensors
        if isinstance(l, (ATensor, Lane)) and isinstance(r, int):
            ln = l if isinstance(l, Lane) else Lane(l, [(0, None, ("all",))])
            if isinstance(op, ast.LShift):
                return Lane(ln.t, [(o + r, w, p) for o, w, p in ln.fields])
            if isinstance(op, ast.RShift):
                return Lane(ln.t, [(o - r, w, p) for o, w, p in ln.fields])
            if isinstance(op, ast.BitAnd):
                return self.mask(ln, r)
        if isinstance(l, (ATensor, Lane)) and isinstance(r, (ATensor, Lane)) and isinstance(op, ast.BitOr):
            a = l if isinstance(l, Lane) else Lane(l, [(0, None, ("all",))])
            b = r if isinstance(r, Lane) else Lane(r, [(0, None, ("all",))])
            if a.t.key() != b.t.key():
                raise LayoutError("OR of tensors with different element layouts")
            return Lane(a.t, a.fields + b.fields)
        raise Unknown(f"binop {ast.unparse(e)[:60]}")

    def mask(self, ln, m):
        lo = (m & -m).bit_length() - 1
        width = m.bit_length() - lo
        if m != ((1 << width) - 1) << lo:
            raise LayoutError(f"mask {m:#x} is not contiguous")
        keep = []
        for o, w, p in ln.fields:
            if w is None:
                raise Unknown("mask of unbounded field")
            if o >= lo and o + w <= lo + width:
                keep.append((o, w, p))
            elif o + w <= lo or o >= lo + width:
                continue
            else:
                raise LayoutError(f"mask {m:#x} cuts through a field at bit {o}")
        return Lane(ln.t, keep)

    def ev_Attribute(self, e):
        v = self.ev(e.value)
        if isinstance(v, Opaque):
            return Opaque(f"{v.what}.{e.attr}")
        if isinstance(v, (ATensor, Lane)):
            t = v.t if isinstance(v, Lane) else v
            if e.attr == "shape":
                return tuple(t.sizes())
            if e.attr == "ndim":
                return len(t.dims)
            if e.attr == "device":
                return Opaque("device")
        raise Unknown(f"attribute {ast.unparse(e)}")

    def ev_Subscript(self, e):
        v = self.ev(e.value)
        if isinstance(v, (tuple, list)):
            s = e.slice
            if isinstance(s, ast.Slice):
                lo = self.ev(s.lower) if s.lower else None
                hi = self.ev(s.upper) if s.upper else None
                return v[lo:hi]
            return v[self.ev(s)]
        if isinstance(v, (ATensor, Lane)) and isinstance(e.slice, ast.Tuple):
            # x[..., j]
            el = e.slice.elts
            if len(el) == 2 and isinstance(el[0], ast.Constant) and el[0].value is Ellipsis:
                j = self.ev(el[1])
                t = v.t if isinstance(v, Lane) else v
                last = t.sizes()[-1]
                if last.sym or not (0 <= j < int(last.c)):
                    raise LayoutError("index out of the last dim")
                if isinstance(v, Lane):
                    raise Unknown("indexing a bit-level value")
                # element layout = remaining dims; remember which index of which dropped dim
                return Lane(ATensor(t.dims[:-1]), [(0, None, ("dim", j, tuple(canon(t.dims[-1]))))])
        raise Unknown(f"subscript {ast.unparse(e)[:60]}")

    def ev_Call(self, e):
        f = e.func
        args = [self.ev(a) for a in e.args]
        kw = {k.arg: self.ev(k.value) for k in e.keywords}
        if isinstance(f, ast.Attribute) and isinstance(f.value, ast.Name) and f.value.id not in self.env:
            from .core import namespace_method
            hfn = namespace_method(self.fn, f.value.id, f.attr)
            if hfn is not None:
                names = [a.arg for a in hfn.args.args]
                bound = dict(zip(names, args))
                bound.update(kw)
                for a, d in zip(reversed(hfn.args.args), reversed(hfn.args.defaults)):
                    if a.arg not in bound:
                        bound[a.arg] = self.ev(d)
                sub = Interp(hfn, [bound[n] for n in names], {k: v for k, v in self.env.items() if isinstance(v, ast.FunctionDef)})
                r = sub.run()
                self.asserts.extend(sub.asserts)
                return r
        if isinstance(f, ast.Attribute):
            recv = self.ev(f.value)
            name = f.attr
            if isinstance(recv, Opaque):
                return self.call_module(recv.what + "." + name, args, kw)
            return self.call_method(recv, name, args, kw)
        if isinstance(f, ast.Name):
            if f.id in ("tuple", "list"):
                return tuple(args[0])
            if f.id == "len":
                return len(args[0])
            from .core import _NAMEDTUPLES
            if f.id in _NAMEDTUPLES:  # a private NamedTuple of the package is the tuple of its fields
                fields = _NAMEDTUPLES[f.id]
                vals = dict(zip(fields, args))
                vals.update(kw)
                if set(vals) == set(fields):
                    return tuple(vals[k] for k in fields)
            from .core import module_lookup
            hfn = self.env.get(f.id) if isinstance(self.env.get(f.id), ast.FunctionDef) else module_lookup(self.fn, f.id)
            if f.id in ("int", "bool") and len(args) == 1:
                return args[0]
            if isinstance(hfn, ast.FunctionDef):
                names = [a.arg for a in hfn.args.args]
                bound = dict(zip(names, args))
                bound.update(kw)
                for a, d in zip(reversed(hfn.args.args), reversed(hfn.args.defaults)):
                    if a.arg not in bound:
                        bound[a.arg] = self.ev(d)
                sub = Interp(hfn, [bound[n] for n in names], {k: v for k, v in self.env.items() if isinstance(v, ast.FunctionDef)})
                r = sub.run()
                self.asserts.extend(sub.asserts)
                return r
        raise Unknown(f"call {ast.unparse(e)[:60]}")

    def shape_args(self, args):
        if len(args) == 1 and isinstance(args[0], (tuple, list)):
            args = list(args[0])
        return [Mono.of(a) for a in args]

    def call_method(self, recv, name, args, kw):
        if isinstance(recv, Lane):
            # dtype conversions with enough width keep the fields; record narrowing width
            if name in ("to", "astype", "contiguous", "cpu", "numpy"):
                return self.width_cast(recv, name, args)
            if name == "reshape":
                return Lane(reshape(recv.t, self.shape_args(args)), recv.fields)
            raise Unknown(f"method {name} on bit-level value")
        if isinstance(recv, ATensor) and name == "is_contiguous":
            # a question about strides, which a layout does not carry: both answers are explored by the caller (run_all)
            if self.pos >= len(self.choices):
                raise NeedChoice()
            self.pos += 1
            return self.choices[self.pos - 1]
        if isinstance(recv, ATensor):
            if name in ("reshape", "view"):
                sizes = self.shape_args(args)
                if any(s.syms == () and s.c == -1 for s in sizes):
                    total = Mono.of(1)
                    for z in recv.sizes():
                        total = total * z
                    known = Mono.of(1)
                    for z in sizes:
                        if not (z.syms == () and z.c == -1):
                            known = known * z
                    sizes = [total.div(known) if (z.syms == () and z.c == -1) else z for z in sizes]
                return reshape(recv, sizes)
            if name in ("permute", "transpose"):
                perm = list(args[0]) if len(args) == 1 and isinstance(args[0], (tuple, list)) else list(args)
                if name == "transpose" and len(perm) == 2 and len(recv.dims) != 2:
                    p = list(range(len(recv.dims)))
                    p[perm[0]], p[perm[1]] = p[perm[1]], p[perm[0]]
                    perm = p
                return permute(recv, perm)
            if name == "t":
                return permute(recv, [1, 0])
            if name in ("to", "contiguous", "cpu", "numpy", "astype", "clone"):
                return recv
            if name == "numel":
                n = Mono.of(1)
                for s in recv.sizes():
                    n = n * s
                return n
        raise Unknown(f"method {name} on {type(recv).__name__}")

    def width_cast(self, ln, name, args):
        width = None
        if args and isinstance(args[0], Opaque):
            w = {"int16": 16, "uint16": 16, "int32": 32, "uint8": 8, "int8": 8}.get(args[0].what.split(".")[-1])
            width = w
        if width is not None:
            for o, w_, p in ln.fields:
                if w_ is not None and o + w_ > width:
                    raise LayoutError(f"cast to {width} bits drops a field at bit {o}")
        return ln

    def call_module(self, qual, args, kw):
        if qual in ("torch.tensor",):
            return args[0]
        if qual in ("torch.cat",):
            return self.cat(args[0], kw.get("axis", kw.get("dim", args[1] if len(args) > 1 else 0)))
        raise Unknown(f"call {qual}")

    def cat(self, parts, axis):
        if axis != -1:
            raise Unknown("cat axis")
        # every part: elements of shape (..., 1) holding one extracted field at offset 0
        base = None
        idx = []
        for p in parts:
            if not isinstance(p, Lane) or len(p.fields) != 1:
                raise LayoutError("cat part is not a single extracted field")
            o, w, payload = p.fields[0]
            if o != 0:
                raise LayoutError(f"extracted field not shifted down to bit 0 (offset {o})")
            if base is None:
                base = p.t
            elif base.key() != p.t.key():
                raise LayoutError("cat parts have different layouts")
            idx.append(payload)
        last = base.sizes()[-1]
        if not last.is_one():
            raise Unknown("cat on a last dim that is not 1")
        dims = {pl[2] for pl in idx}
        if len(dims) != 1 or [pl[1] for pl in idx] != list(range(len(idx))):
            raise LayoutError(f"fields restored in order {[pl[1] for pl in idx]}")
        return ATensor(base.dims[:-1] + [list(dims.pop())])


def finish_pack(v, width):
    """a packed value: Lane whose fields are ('dim', j, atoms) at offsets j*width"""
    if not isinstance(v, Lane):
        return v
    return v


def find(tree, name):
    for n in ast.walk(tree):
        if isinstance(n, ast.FunctionDef) and n.name == name:
            return n
    raise KeyError(name)


def give_widths(ln, width):
    return Lane(ln.t, [(o, width, p) for o, w, p in ln.fields])


