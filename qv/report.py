"""E10: obligations, verdicts, known findings, evidence and replay files."""
from __future__ import annotations

import hashlib
import json
import os
import time
import traceback
from typing import Callable, List, Optional

from .core import AnalysisError, Repo

VERIF = os.path.dirname(os.path.dirname(os.path.abspath(__file__)))
KNOWN_FILE = os.path.join(VERIF, "known_findings.json")


class Finding:
    def __init__(self, rule, site, function, tag, detail, witness):
        self.rule, self.site, self.function, self.tag, self.detail, self.witness = rule, site, function, tag, detail, witness

    def key(self, pid):
        f = self.site.split(":")[0]
        return (pid, self.rule, f, self.function, self.tag)


class Check:
    """Collects the obligations of one property run.

    ok(...)      an obligation that was discharged
    bad(...)     an obligation violated by a named construct, with the class of inputs it fails on
    unknown(...) the analyser cannot decide (exit 2)
    """

    def __init__(self, pid: str, tier: str, repo: Repo, title: str = ""):
        self.pid, self.tier, self.repo, self.title = pid, tier, repo, title
        self.obligations: List[dict] = []
        self.violations: List[Finding] = []
        self.errors: List[str] = []
        self.rules: dict = {}
        self.samples: List = []
        self.analysed: dict = {}
        self.assumptions: List[str] = []
        self.counts: dict = {}
        self.t0 = time.time()
        self.extra: dict = {}

    # -- recording -----------------------------------------------------------------------------
    def rule(self, rid: str, text: str):
        self.rules[rid] = text

    def ok(self, rule: str, site: str, what: str):
        self.obligations.append({"rule": rule, "site": site, "what": what, "verdict": "discharged"})
        self.counts[rule] = self.counts.get(rule, 0) + 1

    def bad(self, rule: str, site: str, function: str, tag: str, detail: str, witness: str):
        self.obligations.append({"rule": rule, "site": site, "what": detail, "verdict": "VIOLATED", "tag": tag, "witness": witness, "function": function})
        self.violations.append(Finding(rule, site, function, tag, detail, witness))
        self.counts[rule] = self.counts.get(rule, 0) + 1

    def unknown(self, rule: str, site: str, why: str):
        self.obligations.append({"rule": rule, "site": site, "what": why, "verdict": "undecided"})
        self.errors.append(f"{rule} at {site}: {why}")

    def require(self, rule: str, site: str, cond: bool, what: str, function: str = "", tag: str = "", witness: str = ""):
        if cond:
            self.ok(rule, site, what)
        else:
            self.bad(rule, site, function, tag or what, "NOT: " + what, witness)
        return cond

    def floor(self, rule: str, n: int, minimum: int, what: str):
        """Instance-count floor: a rule that matches fewer sites than were confirmed by hand is analysis-broken."""
        if n < minimum:
            self.errors.append(f"{rule}: {what}: found {n} instance(s), floor is {minimum}")
        self.analysed[f"{rule}:{what}"] = n

    def sample(self, s):
        if len(self.samples) < 12:
            self.samples.append(s)

    def assume(self, *a):
        for x in a:
            if x not in self.assumptions:
                self.assumptions.append(x)

    # -- verdict -------------------------------------------------------------------------------
    def finish(self) -> int:
        known = load_known()
        lines, new = [], []
        seen_keys = set()
        for f in self.violations:
            k = f.key(self.pid)
            if k in seen_keys:
                continue
            seen_keys.add(k)
            # a finding names (property, rule, function, tag); the file is part of the key only for findings without a function
            # (moving the function to another module does not change the defect, and must not turn it into a new alarm)
            entry = next((e for e in known if e.get("status") == "known" and (e["property"], e["rule"], e["function"], e["tag"]) == (k[0], k[1], k[3], k[4]) and (e["file"] == k[2] or e["function"])), None)
            if entry is not None:
                lines.append(f"KNOWN-FINDING: property={self.pid} {entry['id']} {f.rule} {f.site} {f.function}: {f.detail} [fails on: {f.witness}]")
            else:
                new.append(f)
        replay_paths = []
        for f in new:
            rp = write_replay(self.pid, f, self.tier)
            replay_paths.append(rp)
            lines.append(f"VIOLATION property={self.pid} replay={rp}")
            lines.append(f"  rule={f.rule} site={f.site} function={f.function} tag={f.tag}")
            lines.append(f"  {f.detail}")
            lines.append(f"  fails on: {f.witness}")
        code = 0
        if new:
            code = 1
        elif self.errors:
            code = 2
        if self.errors:
            for e in self.errors:
                lines.append(f"ANALYSIS-ERROR property={self.pid} {e}")
        n_ob = len(self.obligations)
        n_dis = sum(1 for o in self.obligations if o["verdict"] == "discharged")
        n_known = len(seen_keys) - len(new)
        print(f"[{self.pid}] tier={self.tier} obligations={n_ob} discharged={n_dis} known_findings={n_known} new_violations={len(new)} undecided={len(self.errors)} wall={time.time() - self.t0:.2f}s")
        for rid in sorted(self.counts):
            print(f"   {rid}: {self.counts[rid]} obligation(s)  -- {self.rules.get(rid, '')[:110]}")
        for l in lines:
            print(l)
        self.write_evidence(n_ob, n_dis, n_known, len(new))
        return code

    def write_evidence(self, n_ob, n_dis, n_known, n_new):
        distinct = len({(o["rule"], o["site"], o["what"]) for o in self.obligations})
        samples = list(self.samples)
        for o in self.obligations[:6]:
            samples.append({k: o[k] for k in ("rule", "site", "what", "verdict")})
        ev = {
            "property_id": self.pid,
            "tier": self.tier,
            "seed": int(os.environ.get("VERIF_SEED", "0") or 0),
            "level": "other",
            "coverage": {
                "explanation": (
                    f"Static analysis (ast) of /repo's working tree, digest {self.repo.digest()}: {n_ob} structural obligations "
                    f"from {len(self.rules)} rules were generated from the current sources; {n_dis} discharged, {n_known} match a listed known finding, "
                    f"{n_new} new violation(s), {len(self.errors)} undecided. Each obligation is a necessary condition of the property "
                    "(see rules); value-dependent clauses (float tolerances, kernel arithmetic) are not decided."
                ),
                "obligations": n_ob,
                "discharged": n_dis,
                "known_findings": n_known,
                "evaluations": max(n_ob, 1),
                "distinct_nontrivial": distinct,
                "rule": "one obligation per (rule, construct) instance found in the sources; distinct by (rule, site, statement)",
                "samples": samples or ["(none)"],
                "rules": self.rules,
                "analysed": dict(self.analysed, **self.repo.units),
                "obligation_list": self.obligations if len(self.obligations) <= 400 else self.obligations[:400],
                "trusted_base": ["python ast (3.12)", "qv engines (this repository)", "tables of torch semantics listed under assumptions"],
                "checker_cmd": f"./check {self.pid} --tier {self.tier}",
                "exhaustive": False,
                **self.extra,
            },
            "assumptions": self.assumptions,
            "wall_s": round(time.time() - self.t0, 3),
            "violations": n_new,
        }
        if os.environ.get("QV_NO_EVIDENCE"):
            return
        os.makedirs(os.path.join(VERIF, "evidence"), exist_ok=True)
        with open(os.path.join(VERIF, "evidence", f"{self.pid}.json"), "w") as f:
            json.dump(ev, f, indent=1, default=str)


class AliasedCheck:
    """View of a Check through which another property's rule set records its obligations under this property's rule ids.
    `mapping` maps foreign rule ids to local ones; obligations of unmapped rules are dropped (they are claimed elsewhere)."""

    def __init__(self, chk: "Check", mapping: dict):
        self._c, self._m = chk, dict(mapping)
        self.pid, self.tier, self.repo, self.title = chk.pid, chk.tier, chk.repo, chk.title
        self.extra: dict = {}
        self.analysed = chk.analysed
        self.obligations: list = []  # what the foreign rule set recorded, under its own rule ids (some rules look at earlier obligations)

    def rule(self, rid, text):
        pass

    def ok(self, rule, site, what):
        self.obligations.append({"rule": rule, "site": site, "what": what, "verdict": "discharged"})
        if rule in self._m:
            self._c.ok(self._m[rule], site, what)

    def bad(self, rule, site, function, tag, detail, witness):
        self.obligations.append({"rule": rule, "site": site, "what": detail, "verdict": "VIOLATED", "tag": tag, "witness": witness, "function": function})
        if rule in self._m:
            self._c.bad(self._m[rule], site, function, tag, detail, witness)

    def unknown(self, rule, site, why):
        self.obligations.append({"rule": rule, "site": site, "what": why, "verdict": "undecided"})
        if rule in self._m:
            self._c.unknown(self._m[rule], site, why)

    def require(self, rule, site, cond, what, function="", tag="", witness=""):
        if cond:
            self.ok(rule, site, what)
        else:
            self.bad(rule, site, function, tag or what, "NOT: " + what, witness)
        return cond

    def floor(self, rule, n, minimum, what):
        if rule in self._m:
            self._c.floor(self._m[rule], n, minimum, what)

    def sample(self, s):
        pass

    def assume(self, *a):
        pass


class TagFilteredAlias(AliasedCheck):
    """AliasedCheck that keeps, of the mapped foreign rules, only the obligations recorded under one of `tags` (a rule with several clauses of
    which only some are necessary conditions of this property); floors of the foreign rule are not inherited. `note` is appended to witnesses."""

    def __init__(self, chk, mapping, tags, note=""):
        super().__init__(chk, mapping)
        self._tags, self._note = set(tags), note

    def require(self, rule, site, cond, what, function="", tag="", witness=""):
        if rule in self._m and tag not in self._tags:
            return cond
        return super().require(rule, site, cond, what, function, tag, (witness + self._note) if witness else witness)

    def bad(self, rule, site, function, tag, detail, witness):
        if rule in self._m and tag not in self._tags:
            return
        super().bad(rule, site, function, tag, detail, witness)

    def floor(self, rule, n, minimum, what):
        pass


def load_known() -> list:
    if not os.path.exists(KNOWN_FILE):
        return []
    with open(KNOWN_FILE) as f:
        return json.load(f)["findings"]


def write_replay(pid: str, f: Finding, tier: str) -> str:
    if os.environ.get("QV_NO_EVIDENCE"):
        return "(self-test: no replay file)"
    os.makedirs(os.path.join(VERIF, "replay"), exist_ok=True)
    h = hashlib.sha256(repr(f.key(pid)).encode()).hexdigest()[:10]
    path = os.path.join(VERIF, "replay", f"{pid}-{f.rule}-{h}.json")
    with open(path, "w") as fh:
        json.dump(
            {
                "property": pid, "rule": f.rule, "site": f.site, "function": f.function, "tag": f.tag,
                "detail": f.detail, "fails_on": f.witness,
                "replay_cmd": f"./check {pid} --tier {tier} --only {f.rule}",
            },
            fh, indent=1,
        )
    return path


def run_property(pid: str, tier: str, repo_root: str, fn: Callable, title: str = "", only: Optional[str] = None) -> int:
    try:
        repo = Repo(repo_root)
    except AnalysisError as e:
        print(f"ANALYSIS-ERROR property={pid} {e}")
        _stub_evidence(pid, tier, str(e))
        return 2
    from .core import set_active_repo
    set_active_repo(repo)
    chk = Check(pid, tier, repo, title)
    chk.only = only
    try:
        fn(chk)
    except AnalysisError as e:
        chk.errors.append(f"analysis aborted: {e}")
    except Exception as e:  # a crash of the analyser is never a violation
        tb = traceback.format_exc().strip().splitlines()
        chk.errors.append(f"internal error: {type(e).__name__}: {e} @ {tb[-3].strip() if len(tb) >= 3 else ''}")
        if os.environ.get("QV_DEBUG"):
            traceback.print_exc()
    return chk.finish()


def _stub_evidence(pid, tier, why):
    os.makedirs(os.path.join(VERIF, "evidence"), exist_ok=True)
    with open(os.path.join(VERIF, "evidence", f"{pid}.json"), "w") as f:
        json.dump({"property_id": pid, "tier": tier, "seed": 0, "level": "other", "coverage": {"explanation": "analysis error: " + why}, "wall_s": 0.0, "violations": 0}, f)
