"""Writer/reader agreement of the tensor subclasses (__tensor_flatten__/__tensor_unflatten__/load_from_state_dict)."""
from __future__ import annotations

import ast
from typing import Dict, List, Optional, Tuple

from .core import AnalysisError, ClassInfo, Repo, U, bind_call, paths_of, positional_params, strip_identity

# how each constructor parameter is expected to be derived from the instance when flattening
EXPECT_WRITE = {
    "qtype": ("self._qtype.name", "self.qtype.name"),
    "axis": ("str(self._axis)", "str(self.axis)"),
    "group_size": ("str(self._group_size)",),
    "size": ("str(list(self.size()))", "str(list(self.shape))", "str(tuple(self.size()))"),
    "stride": ("str(list(self.stride()))", "str(self.stride())", "str(tuple(self.stride()))"),
    "bits": ("str(self._bits)", "str(self.bits)"),
    "packing": ("str(self._packing)", "self._packing.name", "str(self._packing.value)", "self._packing.value"),  # which of them the reader inverts is judged by the codec rule
    "reorder": ("str(self._reorder)",),
}
# values for which str() -> ast.literal_eval is the identity (ints, None, bools, lists/tuples of ints)
LITERAL_SAFE = {"axis", "group_size", "size", "stride", "bits", "reorder"}


def _meth(repo: Repo, ci: ClassInfo, name: str):
    """The method `name` of `ci`, its own or inherited from a base class of the package (private mixins included)."""
    for c in repo.mro(ci):
        f = c.own(name)
        if f is not None:
            # inherited from a public class of the package: that class is analysed in its own right
            return f if (c is ci or c.name.startswith("_")) else None
    return None


def flatten_classes(repo: Repo) -> List[ClassInfo]:
    """Tensor classes with a flattened form: the public classes that own or inherit (from a private mixin / intermediate base of the
    package) a __tensor_flatten__.  A private mixin that only hosts the methods is not a tensor class of its own."""
    out = []
    hosts = set()
    for lst in repo.classes.values():
        for ci in lst:
            if ci.own("__tensor_flatten__") is not None:
                hosts.add(ci.name)
    for lst in repo.classes.values():
        for ci in lst:
            if _meth(repo, ci, "__tensor_flatten__") is None:
                continue
            private_host = ci.name.startswith("_") and ci.own("__new__") is None and any(ci.node in [b.node for b in repo.mro(c)][1:] for l2 in repo.classes.values() for c in l2)
            if private_host:
                continue
            if ci.own("__tensor_flatten__") is not None or any(b.name in hosts and b.name.startswith("_") for b in repo.mro(ci)[1:]):
                out.append(ci)
    return sorted(out, key=lambda c: c.name)


def inherited_readers(repo: Repo):
    """Public tensor classes that change the representation (own __init__ or __new__) but take __tensor_unflatten__ from a PUBLIC base
    of the package whose reader names the class it builds: the rebuilt object is the base, not the subclass.
    -> list of (class, base, line of the subclass, text of the constructor call in the base reader)"""
    out = []
    for lst in repo.classes.values():
        for ci in lst:
            if ci.name.startswith("_") or (ci.own("__init__") is None and ci.own("__new__") is None):
                continue
            mro = repo.mro(ci)
            if len(mro) < 2 or ci.own("__tensor_unflatten__") is not None:
                continue
            for b in mro[1:]:
                f = b.own("__tensor_unflatten__")
                if f is None:
                    continue
                if b.name.startswith("_"):
                    break  # a private mixin: analysed as the class's own reader
                built = [U(c.func) for c in ast.walk(f) if isinstance(c, ast.Call) and isinstance(c.func, ast.Name) and c.func.id in [x.name for x in mro]]
                names = sorted(set(built))
                if names and ci.name not in names:
                    out.append((ci, b, ci.node.lineno, names))
                break
    return out


def _enum_of_field(repo: Repo, ci: ClassInfo, pname: str):
    """Name of the Enum class a constructor parameter / field is compared with inside the class, if any."""
    for nd in ast.walk(ci.node):
        if isinstance(nd, ast.Compare) and len(nd.comparators) == 1:
            sides = [nd.left, nd.comparators[0]]
            texts = [U(x) for x in sides]
            if not any(t in (pname, f"self._{pname}", f"self.{pname}") for t in texts):
                continue
            for x in sides:
                if isinstance(x, ast.Attribute) and isinstance(x.value, ast.Name):
                    r = repo.resolve(ci.mod, x.value.id)
                    if r is not None and isinstance(r[1], ast.ClassDef) and any(U(b).split(".")[-1] in ("Enum", "IntEnum") for b in r[1].bases):
                        return x.value.id
    return None


def analyse_class(repo: Repo, ci: ClassInfo):
    """returns list of (rule_suffix, ok|bad|unknown, line, tag, detail, witness)"""
    res = []
    fl = _meth(repo, ci, "__tensor_flatten__")
    un = _meth(repo, ci, "__tensor_unflatten__")
    if un is None:
        return [("R5", "bad", fl.lineno, "no unflatten", f"{ci.name} defines __tensor_flatten__ but no __tensor_unflatten__", "any deserialization / torch.compile")]
    ps = paths_of(fl)
    if len(ps) != 1 or ps[0].end[0] != "return" or not isinstance(ps[0].end[1], ast.Tuple) or len(ps[0].end[1].elts) != 2:
        return [("R5", "unknown", fl.lineno, "", f"{ci.name}.__tensor_flatten__ shape not recognised", "")]
    inner_e, meta_e = ps[0].end[1].elts
    inner_e = strip_identity(inner_e)
    if not isinstance(inner_e, (ast.List, ast.Tuple)) or not all(isinstance(x, ast.Constant) for x in inner_e.elts) or not isinstance(meta_e, ast.Dict):
        return [("R5", "unknown", fl.lineno, "", f"{ci.name}.__tensor_flatten__ does not return literal (list, dict)", "")]
    inner = [x.value for x in inner_e.elts]
    meta = {}
    for k, v in zip(meta_e.keys, meta_e.values):
        if not isinstance(k, ast.Constant):
            return [("R5", "unknown", fl.lineno, "", f"{ci.name} meta key not literal", "")]
        meta[k.value] = v
    # reader
    ups = [p for p in paths_of(un) if p.end[0] == "return"]
    if not ups or len(ups) > 8:
        return [("R5", "unknown", un.lineno, "", f"{ci.name}.__tensor_unflatten__ has {len(ups)} return paths", "")]
    seen = set()
    for up in ups:  # every way of rebuilding must invert the writer
        for r in _analyse_reader(repo, ci, fl, un, up, inner, meta):
            k = (r[0], r[1], r[3], r[4])
            if k not in seen:
                seen.add(k)
                res.append(r)
    return res


def _analyse_reader(repo, ci, fl, un, up, inner, meta):
    res = []
    uparams = positional_params(un)
    it_name, meta_name = uparams[0], uparams[1]
    ret = up.end[1]
    asserts = {}
    for ef in up.effects:
        if ef[0] == "assert" and isinstance(ef[1], ast.Compare) and isinstance(ef[1].ops[0], ast.Eq):
            l, r = U(ef[1].left), ef[1].comparators[0]
            if isinstance(r, ast.Constant):
                asserts[l] = r.value
    for nm, lst, what in ((it_name, inner, "inner tensors"), (meta_name, meta, "meta entries")):
        a = asserts.get(f"len({nm})")
        if a is None:
            res.append(("R5", "ok", un.lineno, "", f"{ci.name}: no length assertion on {what} (nothing to disagree with)", ""))
        else:
            res.append(("R5", "ok" if a == len(lst) else "bad", un.lineno, f"{ci.name} len({what})", f"{ci.name}: unflatten asserts {a} {what}, flatten writes {len(lst)}", "every deserialization of this class (AssertionError)"))
    if not (isinstance(ret, ast.Call) and isinstance(ret.func, ast.Name)):
        res.append(("R5", "unknown", un.lineno, "", f"{ci.name}.__tensor_unflatten__ does not return a constructor call", ""))
        return res
    tci = repo.cls(ret.func.id, ci.mod) if repo.resolve(ci.mod, ret.func.id) else None
    if tci is None or tci.node is not ci.node:
        res.append(("R5", "bad", un.lineno, f"{ci.name} unflatten class", f"{ci.name}.__tensor_unflatten__ builds `{ret.func.id}`, not {ci.name}", "every round trip through flatten/unflatten changes the class"))
        return res
    init = repo.method(ci, "__init__")
    f = bind_call(init[1], ret, skip_first=1)
    if f is None:
        res.append(("R5", "unknown", un.lineno, "", f"{ci.name} constructor call not bindable", ""))
        return res
    read_inner, read_meta = set(), set()
    for pname, val in f.items():
        if pname == "requires_grad":
            continue
        txt = U(val)
        # inner tensor parameters
        if txt.startswith(f"{it_name}["):
            key = val.slice.value if isinstance(val, ast.Subscript) and isinstance(val.slice, ast.Constant) else None
            read_inner.add(key)
            ok = key == "_" + pname
            res.append(("R5", "ok" if ok else "bad", un.lineno, f"{ci.name}.{pname} inner key", f"{ci.name}: constructor parameter `{pname}` is read from inner tensor {key!r}", "every round trip: payload/scale/zero-point swapped"))
            continue
        # meta parameters
        key = None
        keys = []
        for n in ast.walk(val):
            if isinstance(n, ast.Subscript) and U(n.value) == meta_name and isinstance(n.slice, ast.Constant):
                key = n.slice.value
                keys.append(key)
        if len(set(keys)) > 1:
            read_meta.update(keys)
            conds = " & ".join(up.cond_texts())[:120]
            res.append(("R4", "bad", un.lineno, f"{ci.name}.{pname} codec", f"{ci.name}: on the path [{conds}] constructor parameter `{pname}` is computed from several meta entries {sorted(set(keys))} (`{txt[:80]}`): not the value that was written", "every tensor taking that path: the field changes across a flatten/unflatten (or state_dict) round trip"))
            continue
        if key is None:
            if pname in meta or "_" + pname in inner:
                res.append(("R5", "bad", un.lineno, f"{ci.name}.{pname} not read", f"{ci.name}: constructor parameter `{pname}` = `{txt[:50]}` is not read from the flattened form", "every round trip loses this field"))
            continue
        read_meta.add(key)
        ok = key == pname
        res.append(("R5", "ok" if ok else "bad", un.lineno, f"{ci.name}.{pname} meta key", f"{ci.name}: constructor parameter `{pname}` is read from meta[{key!r}]", "every round trip: fields swapped"))
        # decoder vs encoder
        w = meta.get(key)
        if w is None:
            continue
        wt = U(w)
        exp = EXPECT_WRITE.get(pname)
        if exp is not None:
            res.append(("R5w", "ok" if wt in exp else "bad", fl.lineno, f"{ci.name}.{pname} written value", f"{ci.name}: meta[{key!r}] is written as `{wt}` (expected one of {exp})", "every tensor whose field differs from what is written"))
        if pname == "qtype":
            dec_ok = txt == f"qtypes[{meta_name}[{key!r}]]" and wt.endswith(".name")
        elif pname in LITERAL_SAFE:
            dec_ok = txt == f"ast.literal_eval({meta_name}[{key!r}])" and wt.startswith("str(")
        else:
            dec_ok = None
        enum = _enum_of_field(repo, ci, pname) if dec_ok is None else None
        if enum is not None:
            # an Enum member: str(member) is 'Class.NAME', which ast.literal_eval refuses; the inverse pairs are name <-> Class[...] and value <-> Class(...)
            rd = f"{meta_name}[{key!r}]"
            by_name = wt.endswith(".name") and txt in (f"{enum}[{rd}]", f"{enum}.__members__[{rd}]", f"getattr({enum}, {rd})", f"{enum}.__getitem__({rd})")
            by_value = (wt.endswith(".value)") or wt.endswith(".value")) and txt in (f"{enum}(ast.literal_eval({meta_name}[{key!r}]))", f"{enum}(int({meta_name}[{key!r}]))")
            res.append(("R4", "ok" if by_name or by_value else "bad", un.lineno, f"{ci.name}.{pname} codec", f"{ci.name}: `{pname}` (a member of {enum}) written as `{wt}` and read as `{txt[:70]}` are inverse of each other: {by_name or by_value}",
                        f"every {ci.name} taken through __tensor_flatten__ / __tensor_unflatten__: ValueError (str(Enum) is not a literal)"))
            continue
        if dec_ok is None:
            lit = txt.startswith("ast.literal_eval(") and wt.startswith("str(")
            res.append(("R4note", "note", un.lineno, f"{ci.name}.{pname} literal round trip", f"{ci.name}: `{pname}` written as `{wt}` read as `{txt[:60]}`: str(Enum) is not literal_eval-able" if lit else f"{ci.name}: `{pname}` codec not classified", ""))
        else:
            res.append(("R4", "ok" if dec_ok else "bad", un.lineno, f"{ci.name}.{pname} codec", f"{ci.name}: `{pname}` written as `{wt}` and read as `{txt[:70]}` agree (str<->literal_eval / name<->qtypes): {dec_ok}", "every round trip of this field (ValueError/KeyError or a different value)"))
    miss_i = set(inner) - read_inner
    miss_m = set(meta) - read_meta
    extra_i = read_inner - set(inner)
    extra_m = read_meta - set(meta)
    res.append(("R5", "ok" if not (miss_i or miss_m or extra_i or extra_m) else "bad", un.lineno, f"{ci.name} key sets", f"{ci.name}: keys written {inner}+{sorted(meta)} == keys read; unread={sorted(miss_i | miss_m)} unwritten={sorted(extra_i | extra_m)}", "every round trip (KeyError or lost field)"))
    return res


def _const_seq(fn, it):
    """Values of a constant sequence expression: a literal, a module-level constant, a constant slice of one, list()/tuple() of one."""
    from .core import fold_int, module_lookup
    it = strip_identity(it)
    if isinstance(it, ast.Name):
        v = module_lookup(fn, it.id)
        return _const_seq(fn, v) if isinstance(v, (ast.List, ast.Tuple)) else None
    if isinstance(it, (ast.List, ast.Tuple)):
        vals = []
        for x in it.elts:
            if isinstance(x, ast.Name):
                x = module_lookup(fn, x.id)
            if not isinstance(x, ast.Constant):
                return None
            vals.append(x.value)
        return vals
    if isinstance(it, ast.Subscript) and isinstance(it.slice, ast.Slice):
        base = _const_seq(fn, it.value)
        if base is None:
            return None
        try:
            lo = fold_int(it.slice.lower) if it.slice.lower is not None else None
            hi = fold_int(it.slice.upper) if it.slice.upper is not None else None
            st = fold_int(it.slice.step) if it.slice.step is not None else None
        except Exception:
            return None
        if any(x is not None and not isinstance(x, int) for x in (lo, hi, st)):
            return None
        if any(node is not None and val is None for node, val in ((it.slice.lower, lo), (it.slice.upper, hi), (it.slice.step, st))):
            return None
        return base[slice(lo, hi, st)]
    return None


def analyse_loader(repo: Repo, ci: ClassInfo):
    """load_from_state_dict pops exactly the inner tensor names __tensor_flatten__ lists (recursing for sub-class payloads)."""
    res = []
    lf = _meth(repo, ci, "load_from_state_dict")
    fl = _meth(repo, ci, "__tensor_flatten__")
    if lf is None or fl is None:
        return res
    ps = paths_of(fl)
    inner = [x.value for x in strip_identity(ps[0].end[1].elts[0]).elts]
    sd, prefix = positional_params(lf)[:2]
    # the loader with its private helpers inlined: every expression of every path, plus the function's own statements
    nodes = list(ast.walk(lf))
    for pth in paths_of(lf):
        for ef in pth.effects:
            for x in ef:
                if isinstance(x, ast.AST):
                    nodes.extend(ast.walk(x))
        for c, _, _ in pth.conds:
            nodes.extend(ast.walk(c))
        if pth.end and isinstance(pth.end[1], ast.AST):
            nodes.extend(ast.walk(pth.end[1]))
    # iteration variables over literal lists (for loops and comprehensions)
    iter_lists = {}
    for n in nodes:
        gens = []
        if isinstance(n, ast.For):
            gens = [(n.target, n.iter)]
        elif isinstance(n, (ast.ListComp, ast.DictComp, ast.SetComp, ast.GeneratorExp)):
            gens = [(g.target, g.iter) for g in n.generators]
        for tgt, it in gens:
            seq = _const_seq(lf, it)
            if isinstance(tgt, ast.Name) and seq is not None:
                iter_lists[tgt.id] = seq
    popped, recursed = set(), {}
    for n in nodes:
        if isinstance(n, ast.Call) and isinstance(n.func, ast.Attribute) and n.func.attr == "pop" and U(n.func.value) == sd and n.args:
            a = n.args[0]
            if isinstance(a, ast.BinOp) and isinstance(a.op, ast.Add) and U(a.left) == prefix:
                if isinstance(a.right, ast.Constant):
                    popped.add(a.right.value)
                elif isinstance(a.right, ast.Name) and a.right.id in iter_lists:
                    popped |= set(iter_lists[a.right.id])
        if isinstance(n, ast.Call) and isinstance(n.func, ast.Attribute) and n.func.attr == "load_from_state_dict" and len(n.args) == 2 and U(n.args[0]) == sd:
            a = n.args[1]
            if isinstance(a, ast.BinOp) and isinstance(a.right, ast.Constant) and U(a.left) == prefix:
                recursed[a.right.value] = U(n.func.value)
    got = popped | {k.rstrip(".") for k in recursed}
    ok = got == set(inner)
    res.append(("R1", "ok" if ok else "bad", lf.lineno, f"{ci.name} loader inner keys", f"{ci.name}.load_from_state_dict pops/recurses {sorted(got)}; __tensor_flatten__ lists {inner}", "every frozen state_dict of this class (missing or left-over keys)"))
    for k, cls in recursed.items():
        ok = k.endswith(".")
        res.append(("R1", "ok" if ok else "bad", lf.lineno, f"{ci.name} loader prefix {k}", f"{ci.name} recurses into {cls} with prefix + {k!r} (the writer joins nested names with '.')", "every frozen low-bit state_dict (KeyError)"))
    # the reader: cls.__tensor_unflatten__, or the module-level helper it delegates to with its own (inner_tensors, meta)
    readers = {f"{ci.name}.__tensor_unflatten__", "cls.__tensor_unflatten__"}
    un = _meth(repo, ci, "__tensor_unflatten__")
    if un is not None:
        up = positional_params(un)
        rets = [n for n in ast.walk(un) if isinstance(n, ast.Return)]
        if len(rets) == 1 and isinstance(rets[0].value, ast.Call) and isinstance(rets[0].value.func, ast.Name) and [U(a) for a in rets[0].value.args[:2]] == up[:2]:
            readers.add(rets[0].value.func.id)
    ok = any(isinstance(n, ast.Call) and U(n.func) in readers for n in nodes)
    res.append(("R1", "ok" if ok else "bad", lf.lineno, f"{ci.name} loader unflatten", f"{ci.name}.load_from_state_dict rebuilds through {ci.name}.__tensor_unflatten__", "every frozen state_dict"))
    # meta keys: every remaining key under the prefix is popped with the prefix stripped
    strips = any(isinstance(n, ast.Call) and isinstance(n.func, ast.Attribute) and n.func.attr in ("replace", "removeprefix") and n.args and U(n.args[0]) == prefix for n in nodes) or any(isinstance(n, ast.Subscript) and isinstance(n.slice, ast.Slice) and n.slice.lower is not None and U(n.slice.lower) == f"len({prefix})" for n in nodes)
    filters = any(isinstance(n, ast.Call) and isinstance(n.func, ast.Attribute) and n.func.attr == "startswith" and n.args and U(n.args[0]) == prefix for n in nodes)
    res.append(("R1", "ok" if (strips and filters) else "unknown", lf.lineno, f"{ci.name} loader meta", f"{ci.name}.load_from_state_dict collects the remaining keys under the prefix as meta", ""))
    return res
