"""E1: registries extracted from decorators and module-level calls."""
from __future__ import annotations

import ast
from dataclasses import dataclass
from typing import Dict, List, Optional, Tuple

from .core import AnalysisError, ModuleInfo, Repo, U, attr_chain


@dataclass
class Handler:
    mi: ModuleInfo
    fn: ast.FunctionDef
    ops: List[str]  # 'aten.cat', ... or dotted torch function names
    table: str  # qbytes | qbits | qfunc

    @property
    def name(self):
        return self.fn.name


def _op_name(e: ast.AST) -> str:
    ch = attr_chain(e)
    if ch is None:
        raise AnalysisError(f"registry entry is not a dotted name: {U(e)}")
    if ch.startswith("torch.ops."):
        ch = ch[len("torch.ops."):]
    return ch


REG_DECOS = {"register_qbytestensor_op": "qbytes", "register_qbitstensor_op": "qbits", "register_qtensor_func": "qfunc"}


def handlers(repo: Repo) -> Dict[str, List[Handler]]:
    out = {"qbytes": [], "qbits": [], "qfunc": []}
    for mi in repo.modules.values():
        for n in mi.tree.body:
            if not isinstance(n, ast.FunctionDef):
                continue
            for d in n.decorator_list:
                if isinstance(d, ast.Call) and isinstance(d.func, ast.Name) and d.func.id in REG_DECOS:
                    if len(d.args) != 1 or not isinstance(d.args[0], (ast.List, ast.Tuple)):
                        raise AnalysisError(f"{mi.rel}:{n.lineno} registration list is not a literal")
                    ops = [_op_name(x) for x in d.args[0].elts]
                    ops = [o if o.startswith("aten.") else repo.qualify(mi, o) for o in ops]
                    out[REG_DECOS[d.func.id]].append(Handler(mi, n, ops, REG_DECOS[d.func.id]))
    return out


def register_functions(repo: Repo) -> Dict[str, Tuple[ModuleInfo, ast.FunctionDef]]:
    out = {}
    for mi in repo.modules.values():
        for name in REG_DECOS:
            if isinstance(mi.defs.get(name), ast.FunctionDef):
                out[name] = (mi, mi.defs[name])
    return out


def qmodules(repo: Repo) -> Dict[str, "ClassInfo"]:
    """torch class (dotted) -> quantized ClassInfo, from @register_qmodule(...)"""
    out = {}
    for lst in repo.classes.values():
        for ci in lst:
            for d in ci.node.decorator_list:
                if isinstance(d, ast.Call) and isinstance(d.func, ast.Name) and d.func.id == "register_qmodule" and len(d.args) == 1:
                    out[repo.qualify(ci.mod, U(d.args[0]))] = ci
    return out


@dataclass
class LibImpl:
    mi: ModuleInfo
    fn: ast.FunctionDef
    qualname: str  # ns::op
    keys: List[str]
    nested_in: Optional[ast.FunctionDef] = None


def library(repo: Repo):
    """(defines, impls): torch.library.define / define(name, schema) / torch.library.impl registrations."""
    defines: List[Tuple[ModuleInfo, str, str, ast.AST]] = []
    impls: List[LibImpl] = []
    for mi in repo.modules.values():
        for n in ast.walk(mi.tree):
            if isinstance(n, ast.Call):
                f = U(n.func)
                if f == "torch.library.define" and n.args and isinstance(n.args[0], ast.Constant):
                    defines.append((mi, n.args[0].value, U(n.args[1]) if len(n.args) > 1 else "", n))
                elif f == "define" and isinstance(n.func, ast.Name) and len(n.args) >= 1 and isinstance(n.args[0], ast.Constant) and mi.rel.endswith("library/ops.py"):
                    for ns in ("quanto", "quanto_py", "quanto_ext"):
                        defines.append((mi, f"{ns}::{n.args[0].value}", "", n))
        def visit(body, outer):
            for n in body:
                if isinstance(n, ast.FunctionDef):
                    for d in n.decorator_list:
                        if isinstance(d, ast.Call) and U(d.func) == "torch.library.impl" and len(d.args) >= 2:
                            q = d.args[0]
                            qn = q.value if isinstance(q, ast.Constant) else U(q)
                            k = d.args[1]
                            if isinstance(k, ast.Constant):
                                keys = [k.value]
                            elif isinstance(k, (ast.List, ast.Tuple)):
                                keys = [x.value for x in k.elts if isinstance(x, ast.Constant)]
                            else:
                                keys = [U(k)]
                            impls.append(LibImpl(mi, n, qn, keys, outer))
                    visit(n.body, n)
                elif isinstance(n, (ast.If, ast.For, ast.With, ast.Try)):
                    visit(getattr(n, "body", []), outer)
                    visit(getattr(n, "orelse", []), outer)
        visit(mi.tree.body, None)
    return defines, impls


def qtype_table(repo: Repo) -> Dict[str, dict]:
    """The qtype constants: name -> {is_floating_point, bits, dtype} read from the module that defines class `qtype`."""
    ci = repo.cls("qtype")
    mi = ci.mod
    fields = [n.target.id for n in ci.node.body if isinstance(n, ast.AnnAssign) and isinstance(n.target, ast.Name)]
    out = {}
    for n in mi.tree.body:
        if isinstance(n, ast.Assign) and isinstance(n.value, ast.Call) and isinstance(n.value.func, ast.Name) and n.value.func.id == "qtype":
            vals = {}
            for f, a in zip(fields, n.value.args):
                vals[f] = a
            for k in n.value.keywords:
                vals[k.arg] = k.value
            try:
                rec = {
                    "name": vals["name"].value,
                    "is_floating_point": vals["is_floating_point"].value,
                    "bits": vals["bits"].value,
                    "dtype": U(vals["dtype"]),
                }
            except (KeyError, AttributeError):
                raise AnalysisError(f"{mi.rel}:{n.lineno} qtype constant not literal")
            for t in n.targets:
                if isinstance(t, ast.Name):
                    out[t.id] = rec
    if len(out) < 6:
        raise AnalysisError(f"qtype table: {len(out)} constants found, floor is 6")
    return out


# IEEE / two's complement facts about storage dtypes (trusted table)
DTYPE_RANGE = {
    "torch.int8": (-128, 127),
    "torch.uint8": (0, 255),
    "torch.float8_e4m3fn": (-448.0, 448.0),
    "torch.float8_e5m2": (-57344.0, 57344.0),
}
