"""E4: call graph with resolved callees and external write effects.

An effect is a store that can be observed outside the function: attribute / subscript stores, in-place tensor
methods (trailing underscore), out= arguments, setattr/delattr/register_buffer, container mutators, global stores.
Each effect has the set of *roots* of its receiver: 'param:<name>', 'global:<name>', or nothing when the receiver is
fresh (allocated in the function).  Effects are propagated to callers through the argument a written parameter was
bound to, so a helper that fills a buffer allocated by its caller is not an external effect of the caller.
"""
from __future__ import annotations

import ast
from dataclasses import dataclass, field
from typing import Dict, List, Optional, Set, Tuple

from .core import ClassInfo, ModuleInfo, Repo, U, params_of, positional_params
from .registries import handlers, library

VIEW_METHODS = {
    "view", "reshape", "permute", "t", "transpose", "detach", "expand", "squeeze", "unsqueeze", "flatten", "contiguous", "to", "float", "half",
    "type", "cpu", "cuda", "numpy", "view_as", "narrow", "select", "unbind", "split", "chunk", "values", "items", "keys", "named_modules",
    "named_parameters", "named_children", "parameters", "modules", "children", "get_submodule", "get", "pop", "__getitem__", "data_ptr",
    "requires_grad_", "T",
}
FRESH_METHODS = {"clone", "size", "stride", "dim", "numel", "item", "tolist", "abs", "round", "clamp", "amax", "amin", "max", "min", "sum", "mean",
                 "dequantize", "unpack", "astype", "format", "split_", "replace", "startswith", "endswith", "rindex", "index", "name", "lower", "upper",
                 "rstrip", "strip", "read", "exists", "join", "dirname", "state_dict", "qbits_tensor", "optimize", "type_as"}
MUTATORS = {"append", "extend", "insert", "remove", "pop", "clear", "update", "setdefault", "add", "discard", "popitem", "sort", "reverse",
            "register_buffer", "register_parameter", "add_module", "save_for_backward", "load_state_dict", "write", "writelines", "rmtree", "makedirs", "mark_dirty"}
TENSOR_INPLACE_EXEMPT = {"requires_grad_"}
TENSOR_FIELDS = {"_scale", "_data", "_zeropoint", "weight", "bias", "input_scale", "output_scale", "data", "grad"}


RNG_CALLS = {"torch.rand", "torch.randn", "torch.randint", "torch.randperm", "torch.rand_like", "torch.randn_like", "torch.randint_like", "torch.bernoulli", "torch.multinomial",
             "torch.normal", "torch.poisson", "torch.manual_seed", "torch.seed", "random.random", "random.randint", "random.choice", "random.shuffle", "random.sample", "random.uniform",
             "np.random.rand", "np.random.randn", "np.random.randint", "np.random.permutation", "np.random.choice", "numpy.random.rand", "numpy.random.permutation",
             "torch.nn.functional.dropout", "F.dropout"}
RNG_METHODS = {"uniform_", "normal_", "random_", "bernoulli_", "exponential_", "geometric_", "cauchy_", "log_normal_", "multinomial", "bernoulli"}


@dataclass
class Effect:
    kind: str  # attrstore | substore | inplace | out | setattr | delattr | mutator | global | del
    text: str
    roots: Set[str]
    line: int
    tensor_mutation: bool


@dataclass
class CallSite:
    callees: List["FnInfo"]
    argroots: Dict[str, Set[str]]  # callee parameter -> roots of the bound argument in the caller ('*' for unbound)
    line: int
    text: str
    bound_ok: bool = True


@dataclass
class FnInfo:
    mi: ModuleInfo
    fn: ast.FunctionDef
    qual: str
    cls: Optional[ClassInfo]
    effects: List[Effect] = field(default_factory=list)
    calls: List[CallSite] = field(default_factory=list)
    returns_fresh: bool = False


class EffectGraph:
    def __init__(self, repo: Repo):
        self.repo = repo
        self.fns: Dict[int, FnInfo] = {}
        self.by_method: Dict[str, List[FnInfo]] = {}
        self.by_qual: Dict[str, FnInfo] = {}
        self.props: Dict[str, List[FnInfo]] = {}
        self.lib_impls: Dict[str, List[FnInfo]] = {}
        self.qfunc: Dict[str, FnInfo] = {}
        # aten handlers registered for an in-place / out= variant: calling `op(x, ...)` there writes x
        self.inplace_ops: Dict[int, List[str]] = {}
        hs = handlers(repo)
        for t in ("qbytes", "qbits"):
            for h in hs[t]:
                ip = [o for o in h.ops if o.split(".")[1].endswith("_") or o.endswith(".out")]
                if ip:
                    self.inplace_ops[id(h.fn)] = ip
        self._collect()
        self._fresh_fixpoint()
        for fi in list(self.fns.values()):
            self._scan(fi)

    # -- collection ----------------------------------------------------------------------------
    def _collect(self):
        repo = self.repo
        for mi in repo.modules.values():
            if not mi.rel.startswith("optimum/"):
                continue

            def visit(body, prefix, cls):
                for n in body:
                    if isinstance(n, (ast.FunctionDef, ast.AsyncFunctionDef)):
                        fi = FnInfo(mi, n, prefix + n.name, cls)
                        self.fns[id(n)] = fi
                        self.by_qual[f"{mi.name}:{fi.qual}"] = fi
                        if cls is not None and prefix == cls.name + ".":
                            self.by_method.setdefault(n.name, []).append(fi)
                            if any(U(d) in ("property", "functools.cached_property", "cached_property") for d in n.decorator_list):
                                self.props.setdefault(n.name, []).append(fi)
                        visit(n.body, prefix + n.name + ".", cls)
                    elif isinstance(n, ast.ClassDef):
                        ci = next((c for c in repo.classes.get(n.name, []) if c.node is n), None)
                        visit(n.body, n.name + ".", ci)
                    elif isinstance(n, (ast.If, ast.Try, ast.With, ast.For)):
                        visit(getattr(n, "body", []), prefix, cls)
                        visit(getattr(n, "orelse", []), prefix, cls)

            visit(mi.tree.body, "", None)
        _, impls = library(repo)
        for li in impls:
            q = li.qualname
            name = q.split("::")[-1].rstrip("'").rstrip("}")
            if "{name}" in q:
                name = "*"
            fi = self.fns.get(id(li.fn))
            if fi is not None:
                self.lib_impls.setdefault(name, []).append(fi)
        for h in handlers(repo)["qfunc"]:
            for o in h.ops:
                self.qfunc[o] = self.fns[id(h.fn)]

    def info(self, fn: ast.FunctionDef) -> FnInfo:
        return self.fns[id(fn)]

    # -- freshness of return values ------------------------------------------------------------
    def _fresh_fixpoint(self):
        changed = True
        while changed:
            changed = False
            for fi in self.fns.values():
                if fi.returns_fresh:
                    continue
                rets = [n for n in _own_nodes(fi.fn) if isinstance(n, ast.Return)]
                if not rets:
                    # no return statement: the function returns None (or only raises)
                    if not any(isinstance(n, (ast.Yield, ast.YieldFrom)) for n in _own_nodes(fi.fn)):
                        fi.returns_fresh = True
                        changed = True
                    continue
                loc = _Locals(self, fi)
                if all(r.value is None or not loc.roots(r.value) for r in rets):
                    fi.returns_fresh = True
                    changed = True

    # -- per-function scan -----------------------------------------------------------------------
    def resolve_call(self, fi: FnInfo, call: ast.Call) -> Tuple[List[FnInfo], int]:
        """(callees, skip): skip=1 when the receiver is bound to the callee's first parameter."""
        repo = self.repo
        f = call.func
        if isinstance(f, ast.Name):
            # nested closure
            for n in _own_nodes(fi.fn):
                if isinstance(n, ast.FunctionDef) and n.name == f.id and n is not fi.fn:
                    return [self.fns[id(n)]], 0
            r = repo.resolve(fi.mi, f.id)
            if r is None:
                # a name imported inside the function (`from .qbytes_ops import helper` in a dispatch method, to break an import cycle)
                for n in _own_nodes(fi.fn):
                    if isinstance(n, ast.ImportFrom):
                        for al in n.names:
                            if (al.asname or al.name) == f.id:
                                tm = repo.modules.get(repo._abs_module(fi.mi, n.module, n.level))
                                if tm is not None:
                                    r = repo.resolve(tm, al.name)
            if r is not None:
                if isinstance(r[1], ast.FunctionDef):
                    return [self.fns[id(r[1])]], 0
                if isinstance(r[1], ast.ClassDef):
                    ci = next(c for c in repo.classes[r[1].name] if c.node is r[1])
                    m = repo.method(ci, "__init__")
                    return ([self.fns[id(m[1])]] if m and id(m[1]) in self.fns else []), -1
            if f.id == "cls" and fi.cls is not None:
                out = []
                for c in [fi.cls] + repo.subclasses(fi.cls):
                    m = repo.method(c, "__init__")
                    if m and id(m[1]) in self.fns and self.fns[id(m[1])] not in out:
                        out.append(self.fns[id(m[1])])
                return out, -1
            # a call through a variable holding an instance: every __call__ defined in the package (CHA)
            if (f.id in params_of(fi.fn) or r is None) and f.id not in ("op", "func", "callable", "qfunc", "qdispatch", "super", "getattr", "isinstance", "len", "type") and "__call__" in self.by_method:
                import builtins
                if not hasattr(builtins, f.id) and f.id in self._local_names(fi):
                    # callable objects passed around as values in this package are optimizers; a registrar object used as a decorator
                    # at import time is not what a parameter holds
                    cands = [c for c in self.by_method["__call__"] if c.cls is not None and any(b.name.endswith("Optimizer") for b in self.repo.mro(c.cls))]
                    return list(cands or self.by_method["__call__"]), 1
            return [], 0
        if isinstance(f, ast.Attribute):
            base = f.value
            bt = U(base)
            # X.apply(...) of an autograd Function
            if f.attr == "apply" and isinstance(base, ast.Name):
                r = repo.resolve(fi.mi, base.id)
                if r is not None and isinstance(r[1], ast.ClassDef):
                    ci = next(c for c in repo.classes[r[1].name] if c.node is r[1])
                    m = repo.method(ci, "forward")
                    if m:
                        return [self.fns[id(m[1])]], -2  # ctx is fresh, args shift by one
            # torch.ops.quanto.<name>
            if bt in ("torch.ops.quanto", "torch.ops.quanto_py", "torch.ops.quanto_ext"):
                return list(self.lib_impls.get(f.attr, [])) + list(self.lib_impls.get("*", [])), 0
            full = repo.qualify(fi.mi, U(f))
            if full in self.qfunc:
                return [self.qfunc[full]], -3  # func is the first parameter
            # super().m(...)
            if isinstance(base, ast.Call) and U(base.func) == "super" and fi.cls is not None:
                for c in repo.mro(fi.cls)[1:]:
                    m = c.own(f.attr)
                    if m is not None:
                        return [self.fns[id(m)]], 1
                return [], 1
            # self.m(...) / cls.m(...)
            if isinstance(base, ast.Name) and base.id in ("self", "cls") and fi.cls is not None:
                out = []
                for c in [fi.cls] + repo.subclasses(fi.cls):
                    m = repo.method(c, f.attr)
                    if m and id(m[1]) in self.fns and self.fns[id(m[1])] not in out:
                        out.append(self.fns[id(m[1])])
                if out:
                    return out, 1
            # ClassName.m(...)
            if isinstance(base, ast.Name):
                r = repo.resolve(fi.mi, base.id)
                if r is not None and isinstance(r[1], ast.ClassDef):
                    ci = next(c for c in repo.classes[r[1].name] if c.node is r[1])
                    m = repo.method(ci, f.attr)
                    if m and id(m[1]) in self.fns:
                        is_static = any(U(d) in ("staticmethod",) for d in m[1].decorator_list)
                        is_cm = any(U(d) in ("classmethod",) for d in m[1].decorator_list)
                        return [self.fns[id(m[1])]], (0 if is_static else (-1 if is_cm else 0))
            # obj.m(...) by method name over the class hierarchy (CHA)
            if f.attr in self.by_method and not bt.startswith("torch") and f.attr not in ("forward", "__init__", "to", "numpy", "pack", "unpack"):
                return list(self.by_method[f.attr]), 1
            if f.attr in ("unpack", "pack", "forward", "qforward") and f.attr in self.by_method and not bt.startswith("torch"):
                return list(self.by_method[f.attr]), 1
        return [], 0

    def _local_names(self, fi: FnInfo) -> Set[str]:
        out = set(params_of(fi.fn))
        for n in _own_nodes(fi.fn):
            if isinstance(n, ast.Name) and isinstance(n.ctx, ast.Store):
                out.add(n.id)
        return out

    def _scan(self, fi: FnInfo):
        loc = _Locals(self, fi)
        is_init = fi.fn.name in ("__init__", "__new__")
        for n in _own_nodes(fi.fn):
            if isinstance(n, ast.AugAssign) and isinstance(n.target, ast.Name):
                # `s = t._scale; s *= x` updates the tensor both names denote: an in-place write through a local alias of a tensor field
                for v in loc.bind.get(n.target.id, []):
                    if isinstance(v, ast.Attribute) and v.attr in TENSOR_FIELDS:
                        fi.effects.append(Effect("inplace", f"{n.target.id} (alias of {U(v)})", loc.roots(v), n.lineno, True))
                        break
            if isinstance(n, (ast.Assign, ast.AugAssign, ast.AnnAssign)):
                targets = n.targets if isinstance(n, ast.Assign) else [n.target]
                for t in targets:
                    for tt in (t.elts if isinstance(t, (ast.Tuple, ast.List)) else [t]):
                        if isinstance(tt, ast.Attribute):
                            roots = loc.roots(tt.value)
                            fi.effects.append(Effect("attrstore", U(tt), roots, n.lineno, tt.attr == "data"))
                        elif isinstance(tt, ast.Subscript):
                            fi.effects.append(Effect("substore", U(tt), loc.roots(tt.value), n.lineno, True))
                        elif isinstance(tt, ast.Name) and tt.id in loc.globals_declared:
                            fi.effects.append(Effect("global", tt.id, {f"global:{tt.id}"}, n.lineno, False))
            elif isinstance(n, ast.Delete):
                for t in n.targets:
                    if isinstance(t, (ast.Attribute, ast.Subscript)):
                        fi.effects.append(Effect("del", U(t), loc.roots(t.value), n.lineno, False))
            elif isinstance(n, ast.Call):
                f = n.func
                if isinstance(f, ast.Name) and f.id in ("setattr", "delattr") and n.args:
                    fi.effects.append(Effect(f.id, U(n)[:70], loc.roots(n.args[0]), n.lineno, False))
                if isinstance(f, ast.Name) and id(fi.fn) in self.inplace_ops and n.args and f.id == positional_params(fi.fn)[0]:
                    fi.effects.append(Effect("inplace", U(n.args[0]), loc.roots(n.args[0]), n.lineno, True))
                if isinstance(f, ast.Attribute):
                    if f.attr.endswith("_") and not f.attr.startswith("_") and f.attr not in TENSOR_INPLACE_EXEMPT:
                        fi.effects.append(Effect("inplace", U(f), loc.roots(f.value), n.lineno, True))
                    elif f.attr in MUTATORS and not U(f.value).startswith(("os", "shutil", "warnings")):
                        own_kw = fi.fn.args.kwarg.arg if fi.fn.args.kwarg else None
                        if isinstance(f.value, ast.Name) and f.value.id == own_kw and own_kw not in loc.bind:
                            continue  # the function's own `**kwargs` is a dictionary built for this call: popping from it is local
                        fi.effects.append(Effect("mutator", U(f), loc.roots(f.value), n.lineno, False))
                # random draws: they read AND advance the global generator - the result is not a function of the arguments and the state of the
                # process changes (an explicit `generator=` argument confines both to that object)
                ftxt = U(f)
                if (ftxt in RNG_CALLS or (isinstance(f, ast.Attribute) and f.attr in RNG_METHODS)) and not any(k.arg == "generator" and not (isinstance(k.value, ast.Constant) and k.value.value is None) for k in n.keywords):
                    fi.effects.append(Effect("rng", ftxt, {"global:torch.default_generator"}, n.lineno, True))
                for k in n.keywords:
                    if k.arg == "out":
                        fi.effects.append(Effect("out", U(k.value), loc.roots(k.value), n.lineno, True))
                callees, skip = self.resolve_call(fi, n)
                if callees:
                    fi.calls.append(self._callsite(fi, loc, n, callees, skip))
            elif isinstance(n, ast.Attribute) and isinstance(n.ctx, ast.Load) and n.attr in self.props and not U(n.value).startswith("torch"):
                # property read: obj.qweight
                cs = CallSite(list(self.props[n.attr]), {"self": loc.roots(n.value)}, n.lineno, U(n))
                for c in cs.callees:
                    pass
                fi.calls.append(cs)

    def _callsite(self, fi, loc, call: ast.Call, callees, skip) -> CallSite:
        argroots: Dict[str, Set[str]] = {}
        c0 = callees[0]
        ps = positional_params(c0.fn)
        args = list(call.args)
        if skip == 1:  # receiver -> first parameter
            argroots[ps[0]] = loc.roots(call.func.value) if isinstance(call.func, ast.Attribute) else loc.roots(call.func)
            ps = ps[1:]
        elif skip == -1:  # constructor / classmethod: first parameter is fresh / a class
            argroots[ps[0]] = set()
            ps = ps[1:]
        elif skip == -2:  # Function.apply: ctx fresh
            argroots[ps[0]] = set()
            ps = ps[1:]
        elif skip == -3:
            argroots[ps[0]] = set()
            ps = ps[1:]
        star = any(isinstance(a, ast.Starred) for a in args) or any(k.arg is None for k in call.keywords)
        allroots: Set[str] = set()
        for a in args:
            allroots |= loc.roots(a.value if isinstance(a, ast.Starred) else a)
        for k in call.keywords:
            allroots |= loc.roots(k.value)
        if star:
            for p in params_of(c0.fn):
                argroots.setdefault(p, set(allroots))
        else:
            for p, a in zip(ps, args):
                argroots[p] = loc.roots(a)
            if c0.fn.args.vararg is not None and len(args) > len(ps):
                r = set()
                for a in args[len(ps):]:
                    r |= loc.roots(a)
                argroots[c0.fn.args.vararg.arg] = r
            for k in call.keywords:
                argroots[k.arg] = loc.roots(k.value)
        return CallSite(callees, argroots, call.lineno, U(call)[:80])

    # -- closure from an entry point -----------------------------------------------------------
    def external_effects(self, root: FnInfo, fresh_params: Set[str] = frozenset()):
        """All effects reachable from `root` whose receiver is rooted outside the values allocated along the way.

        yields (Effect, FnInfo, chain)  where chain is the list of call texts from the root.
        """
        out = []
        seen = set()

        def visit(fi: FnInfo, external: frozenset, chain):
            key = (id(fi.fn), external)
            if key in seen:
                return
            seen.add(key)
            for e in fi.effects:
                ext = any(r.startswith("global:") or (r.startswith("param:") and r[6:] in external) for r in e.roots)
                if ext:
                    out.append((e, fi, list(chain)))
            for cs in fi.calls:
                for callee in cs.callees:
                    cext = set()
                    for p in params_of(callee.fn):
                        roots = cs.argroots.get(p)
                        if roots is None:
                            continue
                        if any(r.startswith("global:") or (r.startswith("param:") and r[6:] in external) for r in roots):
                            cext.add(p)
                    visit(callee, frozenset(cext), chain + [f"{fi.qual}:{cs.line} -> {callee.qual}"])

        ext0 = frozenset(p for p in params_of(root.fn) if p not in fresh_params)
        visit(root, ext0, [])
        return out

    def reachable(self, root: FnInfo) -> List[FnInfo]:
        seen, stack, out = set(), [root], []
        while stack:
            f = stack.pop()
            if id(f.fn) in seen:
                continue
            seen.add(id(f.fn))
            out.append(f)
            for cs in f.calls:
                stack.extend(cs.callees)
        return out


def _own_nodes(fn: ast.FunctionDef):
    """Nodes of the function body, not descending into nested function/class definitions (but yielding them)."""
    stack = list(reversed(fn.body))
    while stack:
        n = stack.pop()
        yield n
        if isinstance(n, (ast.FunctionDef, ast.AsyncFunctionDef, ast.ClassDef, ast.Lambda)):
            continue
        stack.extend(reversed(list(ast.iter_child_nodes(n))))


class _Locals:
    """Flow-insensitive may-alias roots of local names."""

    def __init__(self, g: EffectGraph, fi: FnInfo):
        self.g, self.fi = g, fi
        self.params = set(params_of(fi.fn))
        self.bind: Dict[str, List[ast.AST]] = {}
        self.globals_declared: Set[str] = set()
        self.nested = set()
        for n in _own_nodes(fi.fn):
            if isinstance(n, ast.Global):
                self.globals_declared |= set(n.names)
            elif isinstance(n, (ast.FunctionDef, ast.ClassDef)):
                self.nested.add(n.name)
            elif isinstance(n, ast.Assign):
                for t in n.targets:
                    self._bind(t, n.value)
            elif isinstance(n, ast.AnnAssign) and n.value is not None:
                self._bind(n.target, n.value)
            elif isinstance(n, ast.AugAssign) and isinstance(n.target, ast.Name):
                self.bind.setdefault(n.target.id, []).append(n.value)
            elif isinstance(n, (ast.For, ast.AsyncFor)):
                self._bind(n.target, n.iter, elem=True)
            elif isinstance(n, ast.comprehension):
                self._bind(n.target, n.iter, elem=True)
            elif isinstance(n, (ast.With, ast.AsyncWith)):
                for it in n.items:
                    if it.optional_vars is not None:
                        self._bind(it.optional_vars, it.context_expr)
            elif isinstance(n, ast.NamedExpr):
                self._bind(n.target, n.value)
            elif isinstance(n, ast.ExceptHandler) and n.name:
                self.bind.setdefault(n.name, []).append(ast.Constant(value=None))
        self._memo: Dict[str, Set[str]] = {}
        self._active: Set[str] = set()

    def _bind(self, t, v, elem=False):
        if isinstance(t, ast.Name):
            self.bind.setdefault(t.id, []).append(v)
        elif isinstance(t, (ast.Tuple, ast.List)):
            if isinstance(v, (ast.Tuple, ast.List)) and len(v.elts) == len(t.elts) and not elem:
                for a, b in zip(t.elts, v.elts):
                    self._bind(a, b)
            else:
                for a in t.elts:
                    self._bind(a.value if isinstance(a, ast.Starred) else a, v)

    def name_roots(self, name: str) -> Set[str]:
        if name in self._memo:
            return self._memo[name]
        if name in self._active:
            return set()
        self._active.add(name)
        out: Set[str] = set()
        if name in self.params:
            out.add(f"param:{name}")
        if name in self.bind:
            for v in self.bind[name]:
                out |= self.roots(v)
        elif name not in self.params:
            if name in self.nested:
                pass
            elif name in self.globals_declared or self._is_module_global(name):
                out.add(f"global:{name}")
        self._active.discard(name)
        self._memo[name] = out
        return out

    def _is_module_global(self, name: str) -> bool:
        mi = self.fi.mi
        v = mi.defs.get(name)
        if v is None:
            return False
        return not isinstance(v, (ast.FunctionDef, ast.ClassDef))

    def roots(self, e: ast.AST) -> Set[str]:
        if e is None or isinstance(e, (ast.Constant, ast.JoinedStr, ast.Compare, ast.BoolOp, ast.Lambda)):
            return set()
        if isinstance(e, ast.Name):
            return self.name_roots(e.id)
        if isinstance(e, (ast.Attribute, ast.Subscript, ast.Starred)):
            if isinstance(e, ast.Attribute) and e.attr in self.g.props and not U(e.value).startswith("torch"):
                # property: fresh iff every implementation returns fresh
                if all(p.returns_fresh for p in self.g.props[e.attr]):
                    return set()
            return self.roots(e.value)
        if isinstance(e, ast.BinOp):
            return set()
        if isinstance(e, ast.UnaryOp):
            return set()
        if isinstance(e, ast.IfExp):
            return self.roots(e.body) | self.roots(e.orelse)
        if isinstance(e, (ast.Tuple, ast.List, ast.Set)):
            out = set()
            for x in e.elts:
                out |= self.roots(x)
            return out
        if isinstance(e, ast.Dict):
            out = set()
            for x in e.values:
                out |= self.roots(x)
            return out
        if isinstance(e, (ast.ListComp, ast.GeneratorExp, ast.SetComp)):
            return self.roots(e.elt)
        if isinstance(e, ast.DictComp):
            return self.roots(e.value)
        if isinstance(e, ast.NamedExpr):
            return self.roots(e.value)
        if isinstance(e, ast.Call):
            f = e.func
            ft = U(f)
            if isinstance(f, ast.Attribute):
                if f.attr in VIEW_METHODS and not ft.startswith("torch."):
                    return self.roots(f.value)
                if ft.startswith(("torch.", "np.", "numpy.", "os.", "ast.", "version.", "warnings.", "math.")):
                    if f.attr in ("as_tensor", "from_numpy", "as_strided", "squeeze", "unsqueeze", "flatten", "reshape", "permute", "transpose", "t", "detach", "narrow", "select", "view_as_real"):
                        out = set()
                        for a in e.args:
                            out |= self.roots(a)
                        return out
                    return set()
                if f.attr in FRESH_METHODS:
                    return set()
            callees, skip = self.g.resolve_call(self.fi, e)
            if callees:
                if skip == -1 and isinstance(f, ast.Name):
                    return set()  # constructor call: a new object
                if all(c.returns_fresh for c in callees):
                    return set()
            if isinstance(f, ast.Name) and f.id in ("list", "dict", "tuple", "set", "len", "range", "str", "int", "float", "min", "max", "sorted", "enumerate", "zip", "isinstance", "type", "hash", "signature", "partial", "copy", "bool"):
                if f.id in ("list", "tuple", "enumerate", "zip", "sorted"):
                    out = set()
                    for a in e.args:
                        out |= self.roots(a)
                    return out
                return set()
            out = set()
            if isinstance(f, ast.Attribute):
                out |= self.roots(f.value)
            for a in e.args:
                out |= self.roots(a.value if isinstance(a, ast.Starred) else a)
            for k in e.keywords:
                out |= self.roots(k.value)
            return out
        return set()
