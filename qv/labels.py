"""E9: index-label typing.  A tensor's abstract type is a tuple of dimension labels; a label is a sorted tuple of atomic
symbols (a product), () is the unit label.  Rank is concrete (a parameter of the domain), sizes stay symbolic, tensor
contents are never represented.  A small abstract interpreter runs the function under analysis on such types; tests it
cannot evaluate (sizes, dtypes, devices, versions) fork both ways.
"""
from __future__ import annotations

import ast
import itertools
from typing import Dict, List, Optional, Set, Tuple

from .core import U


class TypeErr(Exception):
    """A contraction / broadcast that does not line up: a witness of a wrong formula."""


class Unknown(Exception):
    """Construct outside the interpreter's vocabulary: undecided, never a violation."""


def L(*syms):
    return tuple(sorted(syms))


ONE = ()


class T:
    """tensor type"""

    def __init__(self, labels, kind="float", tag=None, codes=frozenset(), scales=()):
        self.labels = tuple(labels)
        self.kind = kind  # float | code (raw quantized payload) | acc
        self.tag = tag
        self.codes = frozenset(codes)  # operands whose raw payload entered this value multiplicatively
        self.scales = tuple(sorted(scales))  # scales multiplied into this value (a multiset)

    def like(self, labels=None):
        return T(self.labels if labels is None else labels, self.kind, self.tag, self.codes, self.scales)

    def balanced(self):
        return set(self.codes) == set(self.scales) and len(set(self.scales)) == len(self.scales)

    def __repr__(self):
        return "(" + ",".join("*".join(l) if l else "1" for l in self.labels) + ")"

    def __eq__(self, o):
        return isinstance(o, T) and self.labels == o.labels

    def __hash__(self):
        return hash(self.labels)


class Q:
    """an abstract quantized tensor (QBytesTensor)"""

    def __init__(self, labels, axis, scale_labels, name="q", qtype="qint8", cls="QBytesTensor"):
        self.labels = tuple(labels)
        self.axis = axis
        self.data = T(labels, "code", tag=name, codes={name})
        self.scale = T(scale_labels, "float", tag=name + ".scale", scales=(name,))
        self.name = name
        self.qtype = qtype
        self.cls = cls

    def __repr__(self):
        return f"Q{T(self.labels)}[axis={self.axis}, scale={self.scale}]"


class Obj:
    """opaque record with attributes (ctx, device, ...)"""

    def __init__(self, **attrs):
        self.attrs = attrs


class Opaque:
    """a value the interpreter does not model (dtype, device, version...) - comparisons on it fork"""

    def __init__(self, what=""):
        self.what = what

    def __repr__(self):
        return f"<{self.what}>"


def bcast(a: T, b: T, what: str) -> T:
    la, lb = list(a.labels), list(b.labels)
    n = max(len(la), len(lb))
    la = [ONE] * (n - len(la)) + la
    lb = [ONE] * (n - len(lb)) + lb
    out = []
    for x, y in zip(la, lb):
        if x == y or y == ONE:
            out.append(x)
        elif x == ONE:
            out.append(y)
        else:
            raise TypeErr(f"{what}: {a} does not broadcast with {b} ({'*'.join(x)} vs {'*'.join(y)})")
    return T(out, "float", None, a.codes | b.codes, a.scales + b.scales)


def matmul(a: T, b: T, what="matmul") -> T:
    if len(a.labels) < 1 or len(b.labels) < 1:
        raise TypeErr(f"{what} on a 0-d operand")
    if len(b.labels) == 1:
        if a.labels[-1] != b.labels[0]:
            raise TypeErr(f"{what} contracts {a} with {b}")
        return T(a.labels[:-1], "float", None, a.codes | b.codes, a.scales + b.scales)
    if a.labels[-1] != b.labels[-2]:
        raise TypeErr(f"{what} contracts {a} with {b}: {'*'.join(a.labels[-1]) or '1'} != {'*'.join(b.labels[-2]) or '1'}")
    if len(a.labels) == 1:
        return T(b.labels[:-2] + (b.labels[-1],), "float", None, a.codes | b.codes, a.scales + b.scales)
    batch = bcast(T(a.labels[:-2]), T(b.labels[:-2]), f"{what} batch").labels
    return T(tuple(batch) + (a.labels[-2], b.labels[-1]), "float", None, a.codes | b.codes, a.scales + b.scales)


class Interp:
    MAX_STATES = 512

    def __init__(self, fn: ast.FunctionDef, env: dict, helpers: Optional[dict] = None, consts: Optional[dict] = None):
        from .core import canon_function
        fn = canon_function(fn)
        self.fn = fn
        self.env0 = env
        self.helpers = helpers or {}
        self.consts = consts or {}
        self.log: List[tuple] = []
        self.forks: List[str] = []

    # -- driver --------------------------------------------------------------------------------
    def run(self):
        """list of (returned value, fork decisions) over all explored paths; TypeErr/Unknown propagate with the path"""
        results = []
        stack = [(self.fn.body, dict(self.env0), [], 0)]
        # explicit exploration with fork decisions: run sequentially, re-executing on each fork choice
        pending = [[]]
        seen = set()
        while pending:
            choices = pending.pop()
            key = tuple(choices)
            if key in seen:
                continue
            seen.add(key)
            if len(seen) > self.MAX_STATES:
                raise Unknown("too many forks")
            run = _Run(self, choices)
            try:
                val = run.exec_fn(self.fn, dict(self.env0))
                results.append(("ok", val, run.trace()))
            except _NeedChoice as nc:
                pending.append(choices + [True])
                pending.append(choices + [False])
                continue
            except TypeErr as e:
                results.append(("typeerr", str(e), run.trace()))
            except Unknown as e:
                results.append(("unknown", str(e), run.trace()))
            except _Raised as e:
                results.append(("raise", str(e), run.trace()))
        return results


class _NeedChoice(Exception):
    pass


class _Raised(Exception):
    pass


class _Return(Exception):
    def __init__(self, v):
        self.v = v


class _Run:
    def __init__(self, interp: Interp, choices: List[bool]):
        self.i = interp
        self.choices = choices
        self.pos = 0
        self.decisions: List[Tuple[str, bool]] = []
        self.aligned: Set[int] = set()  # tensors (by identity) a `data_ptr() % N == 0` test has shown to be aligned on this path
        self.keep: list = []

    def trace(self):
        return list(self.decisions)

    def choose(self, text: str) -> bool:
        # the same undecidable test gets the same answer along a path
        for t, v in self.decisions:
            if t == text:
                return v
        if self.pos >= len(self.choices):
            raise _NeedChoice()
        v = self.choices[self.pos]
        self.pos += 1
        self.decisions.append((text, v))
        return v

    def _module_lookup(self, name):
        from . import core
        mi = core._MODULE_OF.get(id(self.i.fn))
        if mi is None or core.ACTIVE_REPO is None:
            return None
        r = core.ACTIVE_REPO.resolve(mi, name)
        return r[1] if r is not None else None

    def exec_fn(self, fn, env):
        try:
            self.block(fn.body, env)
        except _Return as r:
            return r.v
        return None

    def block(self, stmts, env):
        for st in stmts:
            self.stmt(st, env)

    def stmt(self, st, env):
        if isinstance(st, ast.Return):
            raise _Return(self.ev(st.value, env) if st.value is not None else None)
        if isinstance(st, ast.Assign):
            v = self.ev(st.value, env)
            for t in st.targets:
                self.bind(t, v, env)
            return
        if isinstance(st, ast.AugAssign):
            cur = self.ev(_load(st.target), env)
            v = self.binop(st.op, cur, self.ev(st.value, env), st)
            self.bind(st.target, v, env)
            return
        if isinstance(st, ast.If):
            c = self.truth(st.test, env)
            self.block(st.body if c else st.orelse, env)
            return
        if isinstance(st, ast.Expr):
            if isinstance(st.value, ast.Constant):
                return
            self.ev(st.value, env)
            return
        if isinstance(st, ast.Assert):
            c = self.truth(st.test, env)
            if not c:
                raise _Raised("assert " + U(st.test))
            return
        if isinstance(st, ast.Raise):
            raise _Raised(U(st.exc) if st.exc else "raise")
        if isinstance(st, (ast.Pass, ast.Import, ast.ImportFrom)):
            return
        raise Unknown(f"statement {type(st).__name__}")

    def bind(self, t, v, env):
        if isinstance(t, ast.Name):
            env[t.id] = v
        elif isinstance(t, (ast.Tuple, ast.List)):
            if not isinstance(v, tuple):
                raise Unknown("unpack of non-tuple")
            if len(v) != len(t.elts):
                raise TypeErr(f"cannot unpack {len(v)} values into {len(t.elts)} names ({U(t)})")
            for x, y in zip(t.elts, v):
                self.bind(x, y, env)
        elif isinstance(t, ast.Attribute):
            o = self.ev(t.value, env)
            if isinstance(o, Obj):
                o.attrs[t.attr] = v
            else:
                raise Unknown("attribute store")
        else:
            raise Unknown("target")

    def truth(self, e, env) -> bool:
        if isinstance(e, ast.BoolOp):
            if isinstance(e.op, ast.And):
                for v in e.values:
                    if not self.truth(v, env):
                        return False
                return True
            for v in e.values:
                if self.truth(v, env):
                    return True
            return False
        if isinstance(e, ast.UnaryOp) and isinstance(e.op, ast.Not):
            return not self.truth(e.operand, env)
        if isinstance(e, ast.Compare) and len(e.ops) == 1:
            try:
                v = self.compare(e, env)
            except _Fork as f:
                return self.choose(f.text)
            return v if isinstance(v, bool) else self.choose(U(e))
        try:
            v = self.ev(e, env)
        except _Fork as f:
            return self.choose(f.text)
        if isinstance(v, Opaque) and v.what.startswith("test:"):
            return self.choose(v.what[5:])
        if isinstance(v, bool):
            return v
        if v is None:
            return False
        if isinstance(v, (int, tuple)):
            return bool(v)
        if isinstance(v, (Opaque,)):
            return self.choose(U(e))
        return self.choose(U(e))

    # -- expressions ---------------------------------------------------------------------------
    def ev(self, x, env):
        if isinstance(x, ast.Constant):
            return x.value
        if isinstance(x, ast.Name):
            if x.id in env:
                return env[x.id]
            if x.id in self.i.consts:
                return self.i.consts[x.id]
            r = self._module_lookup(x.id)
            if isinstance(r, ast.Constant):
                return r.value
            if isinstance(r, (ast.Tuple, ast.List)) and all(isinstance(z, ast.Constant) for z in r.elts):
                return tuple(z.value for z in r.elts)
            if isinstance(r, ast.expr) and not isinstance(r, (ast.Name, ast.Lambda)):
                # a module-level constant bound to an expression (e.g. a parsed version): its value, or an opaque one
                try:
                    return self.ev(r, {})
                except (Unknown, TypeErr):
                    return Opaque(x.id)
            if x.id in ("torch", "version"):
                return Opaque(x.id)
            if x.id in ("qint8", "qint4", "qint2", "qfloat8", "qfloat8_e4m3fn", "qfloat8_e5m2"):
                return x.id
            if x.id in ("QBytesTensor", "QTensor", "AWQBitsTensor", "QBitsTensor"):
                return ("class", x.id)
            if x.id in ("None",):
                return None
            raise Unknown(f"name {x.id}")
        if isinstance(x, ast.Tuple):
            out = []
            for i in x.elts:
                if isinstance(i, ast.Starred):
                    out.extend(self.ev(i.value, env))
                else:
                    out.append(self.ev(i, env))
            return tuple(out)
        if isinstance(x, ast.List):
            return tuple(self.ev(i, env) for i in x.elts)
        if isinstance(x, ast.Attribute):
            return self.attr(x, env)
        if isinstance(x, ast.Subscript):
            v = self.ev(x.value, env)
            if isinstance(v, tuple):
                s = x.slice
                if isinstance(s, ast.Slice):
                    lo = self.ev(s.lower, env) if s.lower else None
                    hi = self.ev(s.upper, env) if s.upper else None
                    st = self.ev(s.step, env) if s.step else None
                    return v[lo:hi:st]
                i = self.ev(s, env)
                if not isinstance(i, int):
                    raise Unknown("index")
                if not (-len(v) <= i < len(v)):
                    raise TypeErr(f"index {i} out of range for {U(x.value)} of rank {len(v)}")
                return v[i]
            raise Unknown("subscript " + U(x)[:40])
        if isinstance(x, ast.UnaryOp):
            if isinstance(x.op, ast.USub):
                v = self.ev(x.operand, env)
                return -v if isinstance(v, int) else v
            if isinstance(x.op, ast.Not):
                return not self.truth(x.operand, env)
        if isinstance(x, ast.BinOp):
            return self.binop(x.op, self.ev(x.left, env), self.ev(x.right, env), x)
        if isinstance(x, ast.Compare) and len(x.ops) == 1:
            try:
                return self.compare(x, env)
            except _Fork as f:
                return Opaque("test:" + f.text)
        if isinstance(x, ast.BoolOp):
            return self.truth(x, env)
        if isinstance(x, ast.IfExp):
            return self.ev(x.body if self.truth(x.test, env) else x.orelse, env)
        if isinstance(x, ast.Call):
            return self.call(x, env)
        raise Unknown(type(x).__name__)

    def attr(self, x, env):
        v = self.ev(x.value, env)
        a = x.attr
        if isinstance(v, Q):
            if a in ("_data",):
                return v.data
            if a in ("_scale",):
                return v.scale
            if a in ("shape",):
                return tuple(v.labels)
            if a == "ndim":
                return len(v.labels)
            if a in ("axis", "_axis"):
                return v.axis
            if a in ("qtype", "_qtype"):
                return Opaque("qtype:" + v.name)
            if a in ("dtype", "device"):
                return Opaque(a + ":" + v.name)
            raise Unknown(f"Q.{a}")
        if isinstance(v, T):
            if a == "shape":
                return tuple(v.labels)
            if a == "ndim":
                return len(v.labels)
            if a in ("dtype", "device"):
                return Opaque(a)
            if a == "T":
                return self.method(v, "t", [], {}, x)
            raise Unknown(f"T.{a}")
        if isinstance(v, Obj):
            if a in v.attrs:
                return v.attrs[a]
            if a == "needs_input_grad":
                # the autograd context of a forward that the driver did not configure: every gradient may be needed
                return (True,) * 8
            raise Unknown(f"obj.{a}")
        if isinstance(v, Opaque):
            return Opaque(f"{v.what}.{a}")
        raise Unknown(U(x))

    def compare(self, x, env):
        # `t.data_ptr() % N == 0` / `!= 0`: the alignment test of a storage, decided by the hazard the operand carries
        l_ = x.left
        if (isinstance(l_, ast.BinOp) and isinstance(l_.op, ast.Mod) and isinstance(l_.left, ast.Call) and isinstance(l_.left.func, ast.Attribute) and l_.left.func.attr == "data_ptr"
                and isinstance(l_.right, ast.Constant) and isinstance(l_.right.value, int) and l_.right.value >= 16 and l_.right.value % 16 == 0
                and isinstance(x.comparators[0], ast.Constant) and x.comparators[0].value == 0 and isinstance(x.ops[0], (ast.Eq, ast.NotEq))):
            t_ = self.ev(l_.left.func.value, env)
            if isinstance(t_, T):
                if "unaligned" not in (getattr(t_, "strides", None) or ()) or id(t_) in self.aligned:
                    mis = False
                else:
                    # the operand MAY be misaligned: both outcomes are instances, and on the aligned one the test has established the fact for this path
                    mis = self.choose(U(l_) + " != 0")
                    if not mis:
                        self.aligned.add(id(t_))
                        self.keep.append(t_)
                return mis if isinstance(x.ops[0], ast.NotEq) else not mis
        a = self.ev(x.left, env)
        b = self.ev(x.comparators[0], env)
        op = x.ops[0]
        if isinstance(a, bool) or isinstance(b, bool):
            pass
        if (isinstance(a, int) and isinstance(b, int)) or (a is None or b is None) and isinstance(op, (ast.Is, ast.IsNot, ast.Eq, ast.NotEq)):
            table = {ast.Eq: a == b, ast.NotEq: a != b, ast.Is: a is b, ast.IsNot: a is not b}
            if isinstance(a, int) and isinstance(b, int):
                table.update({ast.Lt: a < b, ast.LtE: a <= b, ast.Gt: a > b, ast.GtE: a >= b})
            if type(op) in table:
                return table[type(op)]
        if isinstance(op, (ast.In, ast.NotIn)) and isinstance(b, tuple) and (isinstance(a, int) or a is None) and all(z is None or isinstance(z, int) for z in b):
            return (a in b) if isinstance(op, ast.In) else (a not in b)
        if _is_label(a) and _is_label(b) and isinstance(op, (ast.Eq, ast.NotEq)):
            # generic sizes: distinct symbolic sizes are different, none equals 1
            return (a == b) if isinstance(op, ast.Eq) else (a != b)
        if isinstance(a, tuple) and isinstance(b, tuple) and isinstance(op, (ast.Eq, ast.NotEq)) and all(isinstance(z, tuple) for z in a + b):
            return (a == b) if isinstance(op, ast.Eq) else (a != b)
        raise _Fork(U(x))

    def binop(self, op, a, b, node):
        if isinstance(a, tuple) and isinstance(b, tuple) and isinstance(op, ast.Add) and (not a or not isinstance(a[0], str)) and (len(a) == 0 or isinstance(a[0], tuple)) and (len(b) == 0 or isinstance(b[0], tuple)):
            # shape concatenation: tuple of labels + tuple of labels
            return a + b
        if isinstance(a, int) and isinstance(b, int) and not isinstance(a, bool):
            try:
                return {ast.Sub: a - b, ast.Add: a + b, ast.Mult: a * b, ast.FloorDiv: a // b if b else 0, ast.Mod: a % b if b else 0}[type(op)]
            except KeyError:
                raise Unknown("int op")
        if isinstance(op, ast.MatMult) and (isinstance(a, Q) != isinstance(b, Q)) and isinstance(a, (Q, T)) and isinstance(b, (Q, T)):
            # `q @ plain` is dispatched to the mm / bmm handlers, which fall back to the dequantized operands unless both sides are
            # quantized (those handlers are typed on their own by mm_handlers)
            a = T(a.labels, "float", tag=a.name + ".deq") if isinstance(a, Q) else a
            b = T(b.labels, "float", tag=b.name + ".deq") if isinstance(b, Q) else b
        if isinstance(a, (T, Q)) or isinstance(b, (T, Q)):
            for z in (a, b):
                if isinstance(z, Q):
                    raise Unknown("arithmetic on a quantized tensor object")
            if isinstance(op, ast.MatMult):
                r = matmul(a, b)
                self.i.log.append(("matmul", repr(a), repr(b), repr(r)))
                return r
            if isinstance(op, (ast.Mult, ast.Add, ast.Sub, ast.Div)):
                if not isinstance(a, T):
                    return b.like()
                if not isinstance(b, T):
                    return a.like()
                r = bcast(a, b, "elementwise " + type(op).__name__.lower())
                self.i.log.append((type(op).__name__, repr(a), repr(b), repr(r)))
                if isinstance(op, (ast.Add, ast.Sub)):
                    for z in (a, b):
                        if not z.balanced():
                            raise TypeErr(f"addition involving a value whose raw payloads {sorted(z.codes)} are not matched by its scales {list(z.scales)} (bias added before scaling, or a scale missing)")
                    r.codes, r.scales = frozenset(), ()
                return r
        # size arithmetic on labels: label * label, label // label ...
        if _is_label(a) and _is_label(b) and isinstance(op, ast.Mult):
            return tuple(sorted(a + b))
        if _is_label(a) and _is_label(b) and isinstance(op, ast.FloorDiv):
            rest = list(a)
            for s in b:
                if s not in rest:
                    raise Unknown("label division")
                rest.remove(s)
            return tuple(rest)
        if (_is_label(a) and isinstance(b, int)) or (_is_label(b) and isinstance(a, int)):
            raise _Fork("size arithmetic " + U(node))
        if isinstance(a, Opaque) or isinstance(b, Opaque):
            return Opaque("arith")
        raise Unknown("binop " + U(node)[:50])

    def call(self, x, env):
        f = x.func
        kw = {}
        args = []
        for a in x.args:
            if isinstance(a, ast.Starred):
                args.extend(self.ev(a.value, env))
            else:
                args.append(self.ev(a, env))
        for k in x.keywords:
            if k.arg is None:
                v = self.ev(k.value, env)
                if isinstance(v, dict):
                    kw.update(v)
                continue
            kw[k.arg] = self.ev(k.value, env)
        if isinstance(f, ast.Name):
            n = f.id
            if n == "range":
                return tuple(range(*args))
            if n == "tuple":
                return tuple(args[0])
            if n == "list":
                return tuple(args[0])
            if n == "len":
                if isinstance(args[0], tuple):
                    return len(args[0])
                raise Unknown("len")
            if n == "type":
                v = args[0]
                return ("class", v.cls) if isinstance(v, Q) else ("class", "torch.Tensor") if isinstance(v, T) else Opaque("type")
            if n == "isinstance":
                v, c = args
                cs = c if isinstance(c, tuple) and c and isinstance(c[0], tuple) else (c,)
                names = [z[1] for z in cs if isinstance(z, tuple) and len(z) == 2 and z[0] == "class"]
                if isinstance(v, Q):
                    return any(nm in (v.cls, "QTensor") or (nm == "QBytesTensor" and v.cls == "QBytesTensor") for nm in names)
                if isinstance(v, T):
                    return False
                raise _Fork(U(x))
            if n not in self.i.helpers and n not in env:
                r = self._module_lookup(n)
                if isinstance(r, ast.FunctionDef) and not r.decorator_list:
                    self.i.helpers[n] = r
            if n in self.i.helpers and not (n in env and callable(env[n])):
                from .core import canon_function
                hfn = self.i.helpers[n]
                if not getattr(hfn, "_qv_canon", False):
                    hfn = canon_function(hfn)
                    hfn._qv_canon = True
                    self.i.helpers[n] = hfn
                ps = [a.arg for a in hfn.args.args]
                henv = {}
                dflt = hfn.args.defaults
                for pa, d in zip(ps[len(ps) - len(dflt):], dflt):
                    try:
                        henv[pa] = self.ev(d, {})
                    except (Unknown, _Fork):
                        henv[pa] = Opaque("default")
                henv.update(zip(ps, args))
                henv.update(kw)
                sub = _Run(self.i, self.choices)
                sub.pos, sub.decisions = self.pos, self.decisions
                sub.aligned, sub.keep = self.aligned, self.keep  # facts established about tensor objects hold across the call
                try:
                    r = sub.exec_fn(hfn, henv)
                finally:
                    self.pos = sub.pos
                return r
            if n in env and callable(env[n]):
                return env[n](*args, **kw)
            if n == "op" and "op" in env:
                return env["op"](*args, **kw)
            if n in ("int", "bool", "float") and len(args) == 1:
                return args[0]
            from . import core
            mi = core._MODULE_OF.get(id(self.i.fn))
            if mi is not None and n in mi.imports and mi.imports[n][0] not in core.ACTIVE_REPO.modules:
                return Opaque(f"{n}()")  # an external function (version parsing, ...)
            raise Unknown(f"call {n}")
        # torch.* and method calls
        ft = U(f)
        dotted = all(isinstance(n_, (ast.Name, ast.Attribute, ast.Load)) for n_ in ast.walk(f))
        if ft.startswith("torch.") and dotted:
            name = ft.split(".")[-1]
            if ft.startswith("torch.ops.quanto."):
                if name in env:
                    return env[name](*args, **kw)
                if name in self.i.env0 and callable(self.i.env0[name]):
                    return self.i.env0[name](*args, **kw)
                raise Unknown(ft)
            return self.torch_fn(name, args, kw, x)
        if ft.startswith("version.parse"):
            return Opaque("version")
        recv = self.ev(f.value, env)
        return self.method(recv, f.attr, args, kw, x)

    def torch_fn(self, name, args, kw, node):
        if name in ("matmul", "_int_mm", "mm", "bmm"):
            a, b = args[0], args[1]
            if name == "matmul" and (isinstance(a, Q) != isinstance(b, Q)) and isinstance(a, (Q, T)) and isinstance(b, (Q, T)):
                # torch.matmul of a quantized tensor with a plain one is dispatched to the mm / bmm handlers, which fall back to the
                # dequantized operands unless both sides are quantized (typed on their own by mm_handlers)
                a = T(a.labels, "float", tag=a.name + ".deq") if isinstance(a, Q) else a
                b = T(b.labels, "float", tag=b.name + ".deq") if isinstance(b, Q) else b
            if not (isinstance(a, T) and isinstance(b, T)):
                raise Unknown(f"torch.{name} on non-tensor types")
            if name == "_int_mm" and (len(a.labels) != 2 or len(b.labels) != 2):
                raise TypeErr(f"torch._int_mm needs 2-D operands, got {a} and {b}")
            if name == "_int_mm":
                if "unitstride" in getattr(a, "strides", ()):
                    raise TypeErr("torch._int_mm is given a first operand that may be a single row with a stray leading stride (the transpose of a column): contiguous() returns it as it is - a dimension of size one never makes a "
                                  "tensor non-contiguous - and the CPU kernel takes that stride for the leading dimension: it reads past the row (platform table, probed: strides (1, 1) on shape (1, 32)) without contiguous() being of any help")
                for z_, nm_ in ((a, "first"), (b, "second")):
                    if "stride0" in getattr(z_, "strides", ()) or getattr(z_, "stride0", False):
                        raise TypeErr(f"torch._int_mm is given a {nm_} operand that may have a zero stride (an expanded tensor) without contiguous(): the kernel reads it as a dense matrix and returns garbage (platform table)")
            if name == "bmm" and (len(a.labels) != 3 or len(b.labels) != 3):
                raise TypeErr(f"bmm needs 3-D operands, got {a} and {b}")
            r = matmul(a, b, "torch." + name)
            self.i.log.append((name, repr(a), repr(b), repr(r)))
            r.kind = "acc" if "code" in (a.kind, b.kind) else "float"
            return r
        if name == "_weight_int8pack_mm":
            a, w, s = args
            if len(a.labels) != 2:
                raise TypeErr(f"_weight_int8pack_mm needs 2-D activations, got {a}")
            if a.labels[-1] != w.labels[-1]:
                raise TypeErr(f"_weight_int8pack_mm contracts {a} with {w}")
            for z_, nm_ in ((a, "activations"), (w, "weights")):
                if "unaligned" in getattr(z_, "strides", ()) and id(z_) not in self.aligned:
                    raise TypeErr(f"_weight_int8pack_mm is given {nm_} whose storage may not be 16-byte aligned (a tensor mapped from a safetensors file, a view taken in the middle of a buffer) and nothing on the way realigns it - "
                                  "contiguous() returns a dense tensor as it is: the kernel uses aligned vector loads and the interpreter dies with SIGSEGV (platform table, probed at offsets 2, 4, 8)")
            if set(getattr(w, "strides", ())) - {"unaligned"}:
                raise TypeErr("_weight_int8pack_mm is given weights that may not be contiguous (quantize_weight keeps the layout of a transposed argument) without contiguous(): the kernel refuses them with a RuntimeError (platform table)")
            if "lastdim" in getattr(a, "strides", ()):
                raise TypeErr("_weight_int8pack_mm is given activations that may not be contiguous on their last dimension (a transposed 2-D input) without contiguous(): the kernel refuses them with a RuntimeError (platform table)")
            if s.labels != (w.labels[0],):
                raise TypeErr(f"_weight_int8pack_mm scales {s} do not run along the weight rows {w.labels[0]}")
            if getattr(s, "stride0", False):
                raise TypeErr("_weight_int8pack_mm is given a broadcast (stride-0) view of the scales: the kernel reads raw storage past the single element (platform table: the scales must be a dense 1-D tensor)")
            self.i.log.append((name, repr(a), repr(w), repr(s)))
            return T((a.labels[0], w.labels[0]), "float", None, a.codes | w.codes, a.scales + w.scales + s.scales)
        if name == "Size":
            return tuple(args[0])
        if name in ("tensor",):
            return T(())
        raise Unknown("torch." + name)

    def method(self, recv, name, args, kw, node):
        r = self._method(recv, name, args, kw, node)
        # a storage that may be misaligned stays so through everything that can return its receiver (views, contiguous() / to() of a tensor that already
        # has the layout / dtype asked for, detach): only a copy into a new allocation (clone) realigns it
        if isinstance(recv, T) and isinstance(r, T) and r is not recv and "unaligned" in (getattr(recv, "strides", None) or ()) and id(recv) not in self.aligned and name != "clone" and r.kind == recv.kind:
            r.strides = set(getattr(r, "strides", None) or ()) | {"unaligned"}
        # "unitstride": if an extent is one, the stride along it is arbitrary - and contiguous() returns such a tensor as it is (a dimension of size one never
        # makes a tensor non-contiguous).  Only what recomputes the strides (reshape / view / flatten, a clone into the contiguous format) normalises it.
        if isinstance(recv, T) and isinstance(r, T) and r is not recv and "unitstride" in (getattr(recv, "strides", None) or ()) and r.kind == recv.kind \
                and name not in ("reshape", "view", "flatten") and not (name == "clone" and "memory_format" in kw):
            r.strides = set(getattr(r, "strides", None) or ()) | {"unitstride"}
        # clone() keeps the strides of a dense tensor (a transposed operand stays transposed); it materialises an expanded one
        if isinstance(recv, T) and isinstance(r, T) and r is not recv and name == "clone" and "lastdim" in (getattr(recv, "strides", None) or ()) and "memory_format" not in kw:
            r.strides = set(getattr(r, "strides", None) or ()) | {"lastdim"}
        # stride hazards (a tensor that may have a zero stride / may not be contiguous on its last dimension) survive views only
        if isinstance(recv, T) and isinstance(r, T) and r is not recv and getattr(recv, "strides", None) and name in ("t", "view", "reshape", "detach", "unsqueeze", "flatten", "expand", "expand_as", "broadcast_to", "squeeze", "transpose", "permute"):
            r.strides = (set(recv.strides) - ({"unaligned"} if id(recv) in self.aligned else set()) - ({"unitstride"} if name in ("reshape", "view", "flatten") else set())) | set(getattr(r, "strides", ()))
        return r

    def _method(self, recv, name, args, kw, node):
        if isinstance(recv, Obj) and callable(recv.attrs.get(name)):
            return recv.attrs[name](*args, **kw)  # a modelled callable attribute (autograd Function .apply)
        if isinstance(recv, Q):
            if name == "dequantize":
                return T(recv.labels, "float", tag=recv.name + ".deq")  # dequantized: no raw payload, no pending scale
            if name in ("size",):
                return tuple(recv.labels) if not args else recv.labels[args[0]]
            if name == "dim":
                return len(recv.labels)
            if name == "numel":
                return tuple(sorted(s for l in recv.labels for s in l))
            if name == "t":
                raise Unknown("Q.t()")
            raise Unknown(f"Q.{name}")
        if isinstance(recv, T):
            if name == "t":
                if len(recv.labels) == 2:
                    return recv.like(recv.labels[::-1])
                if len(recv.labels) < 2:
                    return recv
                raise TypeErr(f".t() on a rank-{len(recv.labels)} tensor {recv}")
            if name in ("expand", "expand_as", "broadcast_to") and isinstance(recv, T):
                # a view with stride 0 along every broadcast dimension
                if name == "expand_as" and args and isinstance(args[0], T):
                    shape = tuple(args[0].labels)
                else:
                    shape = tuple(self.i_shape(args)) if hasattr(self, "i_shape") else None
                    if shape is None:
                        flat = args[0] if len(args) == 1 and isinstance(args[0], (tuple, list)) and args[0] and isinstance(args[0][0], tuple) else args
                        shape = tuple(flat)
                if not all(isinstance(l, tuple) for l in shape):
                    raise Unknown("expand to a non-symbolic shape")
                old_l = ((),) * (len(shape) - len(recv.labels)) + tuple(recv.labels)
                for o, n_ in zip(old_l, shape):
                    if o not in ((), n_):
                        raise TypeErr(f"expand: {recv} does not broadcast to {shape}")
                r_ = recv.like(shape)
                r_.stride0 = any(o == () and n_ != () for o, n_ in zip(old_l, shape))
                if r_.stride0:
                    r_.strides = {"stride0"}
                return r_
            if name in ("to", "contiguous", "float", "half", "bfloat16", "clone", "detach", "type"):
                # single rounding: an accumulator of raw codes is narrowed to the output dtype only once every payload is scaled
                narrowing = name in ("half", "bfloat16") or (name in ("to", "type") and isinstance(node, ast.Call) and node.args
                                                              and U(node.args[0]) not in ("torch.float32", "torch.float", "torch.float64", "torch.double"))
                if narrowing and recv.kind != "code" and recv.codes and not recv.balanced():
                    raise TypeErr(f"accumulator narrowed to the output dtype (`{U(node)[-60:]}`) while its raw payloads {sorted(recv.codes)} are not matched by its scales {list(recv.scales)}: "
                                  "the partially scaled product can overflow the output dtype and the result is rounded twice")
                return recv.like()
            if name == "dequantize":
                return recv
            if name in ("size",):
                return tuple(recv.labels) if not args else recv.labels[args[0]]
            if name == "dim":
                return len(recv.labels)
            if name == "numel":
                return tuple(sorted(s for l in recv.labels for s in l))
            if name == "flatten":
                return recv.like((tuple(sorted(s for l in recv.labels for s in l)),))
            if name in ("view", "reshape"):
                shp = args[0] if len(args) == 1 and isinstance(args[0], tuple) and (not args[0] or isinstance(args[0][0], tuple) or args[0][0] == -1) else tuple(args)
                return self.view(recv, shp)
            if name == "sum":
                dims = args[0] if args else kw.get("dim")
                if dims is None:
                    return T(())
                if isinstance(dims, int):
                    dims = (dims,)
                n = len(recv.labels)
                for d in dims:
                    if not (-n <= d < n):
                        raise TypeErr(f"sum over dim {d} of {recv}")
                dd = {d % n for d in dims}
                keep = kw.get("keepdim", False)
                return recv.like(tuple(l if i not in dd else ONE for i, l in enumerate(recv.labels) if keep or i not in dd))
            if name == "unsqueeze":
                d = args[0]
                n = len(recv.labels) + 1
                d = d % n
                return recv.like(recv.labels[:d] + (ONE,) + recv.labels[d:])
            raise Unknown(f"T.{name}")
        if isinstance(recv, Obj):
            if name == "save_for_backward":
                recv.attrs["saved_tensors"] = tuple(args)
                return None
            raise Unknown(f"obj.{name}")
        if isinstance(recv, Opaque):
            return Opaque(f"{recv.what}.{name}()")
        raise Unknown(f"method {name}")

    def view(self, recv: T, shp) -> T:
        total = [s for l in recv.labels for s in l]
        if any(isinstance(l, int) and l != -1 for l in shp):
            raise Unknown("view with a concrete size")
        if -1 in shp:
            if list(shp).count(-1) > 1:
                raise TypeErr("view with two -1")
            rest = list(total)
            for l in shp:
                if l == -1:
                    continue
                for s in l:
                    if s not in rest:
                        raise TypeErr(f"view{_fmt(shp)} of {recv}: size {'*'.join(l)} does not divide the tensor")
                    rest.remove(s)
            shp = tuple(tuple(sorted(rest)) if l == -1 else l for l in shp)
        if sorted(s for l in shp for s in l) != sorted(total):
            raise TypeErr(f"view{_fmt(shp)} of {recv}: element count differs")
        # row-major order of the atomic symbols must be preserved by merges/splits
        old_order = [s for l in recv.labels for s in l]
        new_groups = [set(l) for l in shp]
        pos = {s: i for i, s in enumerate(old_order)}
        idx = [sorted(pos[s] for s in l) for l in shp if l]
        flat = [i for g in idx for i in g]
        # each new dim must be a contiguous run of the old symbol sequence, in order
        if flat != sorted(flat) or any(g and g != list(range(g[0], g[0] + len(g))) for g in idx):
            raise TypeErr(f"view{_fmt(shp)} of {recv}: dims are not merged in row-major order")
        return recv.like(shp)


class _Fork(Exception):
    def __init__(self, text):
        self.text = text


def _is_label(v):
    return isinstance(v, tuple) and all(isinstance(s, str) for s in v)


def _fmt(shp):
    return "(" + ",".join("-1" if l == -1 else ("*".join(l) or "1") for l in shp) + ")"


def _load(t):
    import copy
    t = copy.deepcopy(t)
    for n in ast.walk(t):
        if hasattr(n, "ctx"):
            n.ctx = ast.Load()
    return t


def batch(r: int):
    return tuple(L(f"B{i + 1}") for i in range(r))
