"""qv - static analysis of huggingface/quanto against properties C01..C16 (ast only, nothing imported or run)."""
