"""CLI: ./check <property id> [--tier quick|thorough] [--repo PATH] [--only RULE] [--replay FILE]"""
import argparse
import importlib
import json
import os
import sys

from .report import run_property

PROPS = [f"C{i:02d}" for i in range(1, 17)]


def main(argv=None):
    ap = argparse.ArgumentParser()
    ap.add_argument("property")
    ap.add_argument("--tier", default=os.environ.get("VERIF_TIER", "quick"), choices=["quick", "thorough"])
    ap.add_argument("--repo", default=os.environ.get("QV_REPO", "/repo"))
    ap.add_argument("--only", default=None, help="evaluate a single rule (replay)")
    ap.add_argument("--replay", default=None)
    a = ap.parse_args(argv)
    pid = a.property.upper()
    if a.replay:
        with open(a.replay) as f:
            r = json.load(f)
        pid, a.only = r["property"], r["rule"]
    if pid not in PROPS:
        print(f"unknown property {pid}")
        return 2
    try:
        mod = importlib.import_module(f"qv.props.{pid.lower()}")
    except ModuleNotFoundError:
        print(f"ANALYSIS-ERROR property={pid} no rule set implemented")
        return 2
    code = run_property(pid, a.tier, a.repo, mod.run, getattr(mod, "TITLE", ""), a.only)
    if a.tier == "thorough" and hasattr(mod, "thorough_extra"):
        try:
            mod.thorough_extra(pid, a.repo)
        except Exception as e:  # corpus results never change the verdict
            print(f"[{pid}] self-test corpus skipped: {type(e).__name__}: {e}")
    return code


if __name__ == "__main__":
    sys.exit(main())
