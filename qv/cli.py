"""CLI: ./check <property id> [--tier quick|thorough] [--repo PATH] [--only RULE] [--replay FILE]"""
import argparse
import importlib
import json
import os
import sys

from .report import run_property

PROPS = [f"C{i:02d}" for i in range(1, 17)]


def main(argv=None):
    ap = argparse.ArgumentParser()
    ap.add_argument("property")
    ap.add_argument("--tier", default=os.environ.get("VERIF_TIER", "quick"), choices=["quick", "thorough"])
    ap.add_argument("--repo", default=os.environ.get("QV_REPO", "/repo"))
    ap.add_argument("--only", default=None, help="evaluate a single rule (replay)")
    ap.add_argument("--replay", default=None)
    a = ap.parse_args(argv)
    pid = a.property.upper()
    if a.replay:
        with open(a.replay) as f:
            r = json.load(f)
        pid, a.only = r["property"], r["rule"]
    if pid not in PROPS:
        print(f"unknown property {pid}")
        return 2
    try:
        mod = importlib.import_module(f"qv.props.{pid.lower()}")
    except ModuleNotFoundError:
        print(f"ANALYSIS-ERROR property={pid} no rule set implemented")
        return 2
    code = run_property(pid, a.tier, a.repo, mod.run, getattr(mod, "TITLE", ""), a.only)
    if a.tier == "thorough" and not os.environ.get("QV_NO_EVIDENCE") and not a.only:
        try:
            selftest_into_evidence(pid, a.repo)
        except Exception as e:  # corpus results never change the verdict
            print(f"[{pid}] self-test corpus skipped: {type(e).__name__}: {e}")
    return code


def selftest_into_evidence(pid, repo):
    """Thorough tier: run the mutation corpus of this property on scratch copies and record the outcome in the evidence.
    The corpus says something about the checker, not about quanto: it never changes the exit status."""
    import subprocess
    import tempfile

    here = os.path.dirname(os.path.dirname(os.path.abspath(__file__)))
    with tempfile.TemporaryDirectory(prefix="qvself_") as tmp:
        out = os.path.join(tmp, "r.json")
        subprocess.run([sys.executable, os.path.join(here, "tools", "selftest.py"), "--prop", pid, "--repo", repo, "-j", "16", "--json", out], capture_output=True, text=True, timeout=3000)
        res = json.load(open(out))
    ev_path = os.path.join(here, "evidence", f"{pid}.json")
    ev = json.load(open(ev_path))
    ev["coverage"]["selftest"] = {
        "mutants_detected": res["mutants_detected"], "mutants_total": res["mutants_total"],
        "refactors_silent": res["refactors_silent"], "refactors_total": res["refactors_total"],
        "not_detected": [r for r in res["results"] if r["status"] not in ("DETECTED", "SILENT")],
        "what": "edits of selftest/corpus_*.py applied to scratch copies of the package (tempfile, deleted at once); 'break' edits must be reported, behaviour-preserving 'refactor' edits must stay silent",
    }
    json.dump(ev, open(ev_path, "w"), indent=1, default=str)
    print(f"[{pid}] self-test corpus: mutants_detected={res['mutants_detected']}/{res['mutants_total']} refactors_silent={res['refactors_silent']}/{res['refactors_total']}")


if __name__ == "__main__":
    sys.exit(main())
